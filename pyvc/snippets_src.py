"""Small functions run BOTH by CPython and by the symbolic executor (pyvc.crosscheck, section 'engine snippets'): the
executor's treatment of statements and expressions - not only of the builtin models - is compared with the interpreter on
concrete arguments.  Kept inside the executor's supported subset; no loops (loops need invariants)."""


def neg_load(l):
    return l[-1]


def neg_load2(l):
    return l[-2]


def neg_store(l, v):
    l[-1] = v
    return l


def neg_del(l):
    del l[-1]
    return l


def idx_load(l, i):
    return l[i]


def idx_store(l, i, v):
    l[i] = v
    return l


def idx_del(l, i):
    del l[i]
    return l


def guarded_last(l, v):
    if l and l[-1] == v:
        l[-1] = v + 1
    return l


def guarded_or(l, v):
    if not l or l[0] != v:
        return -1
    return l[0]


def append_then_last(l, v):
    l.append(v)
    return l[-1] + len(l)


def chain(a, b, c):
    return a < b <= c


def tern(a, b):
    return a if a > b else b


def aug(a, b):
    a += b
    a -= 1
    a *= 2
    return a


def bool_or(a, b):
    return a or b


def bool_and(a, b):
    return a and b


def not_in(l, v):
    return (v in l, v not in l)


def is_none(a):
    x = None if a > 1 else a
    return x is None, x is not None


def swap(a, b):
    a, b = b, a
    return a - b


def nested_if(a, b):
    if a > 0:
        if b > 0:
            return 1
        elif b == 0:
            return 2
        return 3
    elif a == 0 and b == 0:
        return 4
    return 5


def try_index(l, i):
    try:
        return l[i]
    except IndexError:
        return -7


def try_finally(l, i):
    out = 0
    try:
        out = l[i]
    except IndexError:
        out = -1
    finally:
        out = out + 100
    return out


def dict_get(d, k):
    return d.get(k, -1)


def dict_sub(d, k):
    return d[k]


def dict_try(d, k):
    try:
        return d[k]
    except KeyError:
        return -5


def dict_pop(d, k):
    v = d.pop(k)
    return (v, k in d)


def dict_pop_default(d, k):
    v = d.pop(k, None)
    return (v is None, k in d)


def dict_del(d, k):
    del d[k]
    return k in d


def dict_store(d, k, v):
    d[k] = v
    return (d[k], k in d)


def set_ops(s, k):
    s.add(k)
    s.discard(k + 1)
    return (k in s, k + 1 in s)


def set_remove(s, k):
    s.remove(k)
    return k in s


def try_else(d, k):
    try:
        v = d[k]
    except KeyError:
        return -1
    else:
        v = v + 1
    return v


def nested_try(d, l, k):
    try:
        try:
            return l[d[k]]
        except KeyError:
            return -1
    except IndexError:
        return -2


def or_value(a, b):
    x = a or b
    return x + 1


def and_chain_value(a, b, c):
    return a and b and c


def early_return(l, v):
    if not l:
        return 0
    if l[0] == v:
        return 1
    if len(l) > 1 and l[1] == v:
        return 2
    return 3


def cmp_mix(a, b):
    return (a == b, a != b, a <= b, a >= b, not a < b)


def helper_last(l):
    return l[-1]


def calls_helper(l, v):
    if l and helper_last(l) == v:
        return helper_last(l) + 1
    return -1


def unpack_pair(a, b):
    p = (a, b)
    x, y = p
    return (y, x)


def while_free_swap_store(l):
    if len(l) >= 2:
        l[0], l[-1] = l[-1], l[0]
    return l


def str_prefix(s, p):
    if s.startswith(p + "/"):
        return p + "!" + s[len(p):]
    return s


def str_replace_once(s, a, b):
    return s.replace(a, b, 1)


def str_eq_chain(s, t):
    if s == t:
        return 0
    if s.startswith(t):
        return 1
    if t.startswith(s):
        return 2
    return 3


def str_len_slice(s):
    if len(s) > 2:
        return s[1:]
    return s + s


def str_guard(s, t):
    return (s and s.startswith(t)) or (not s and not t)

