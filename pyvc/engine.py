"""pyvc engine: symbolic execution of real Python function ASTs against sidecar contracts.

Direct-style interpreter with a choice oracle: the function body is executed once per path; at every fork
(symbolic branch, exceptional outcome of a contracted call, loop "arbitrary iteration" vs "exit") the oracle is
consulted and the driver re-runs the function until all choice sequences are exhausted (DFS).  Obligations are
recorded with a snapshot of the path condition and deduplicated structurally across paths.

Calls are never followed into callee bodies unless the spec marks the callee `inline` (trivial accessors whose
real AST is then executed in place); otherwise the callee's contract handler is applied (assert pre, havoc frame,
assume post, fork exceptional outcomes)."""
from __future__ import annotations
import ast, itertools, time
import z3
from .sym import *
from . import source


class PathEnd(Exception):
    """Current path is finished (pruned, or an arbitrary-iteration path reached the end of the loop body)."""


class _Return(Exception):
    def __init__(self, value):
        self.value = value


class _Break(Exception):
    pass


class _Continue(Exception):
    pass


class Raise(Exception):
    """A Python exception raised in the program under verification."""

    def __init__(self, exc: VExc, site=""):
        if getattr(exc, "site", None) is None:
            exc.site = site  # where it was first raised (a bare `raise` keeps it)
        self.exc, self.site = exc, (exc.site if site == "re-raise" else site)


class Scope:
    def __init__(self, parent=None, vars=None):
        self.vars = dict(vars or {})
        self.parent = parent

    def lookup(self, name):
        s = self
        while s is not None:
            if name in s.vars:
                return s
            s = s.parent
        return None


class Obligation:
    __slots__ = ("name", "kind", "pc", "goal", "site", "fn", "hints", "path", "spec")

    def __init__(self, name, kind, pc, goal, site, fn, hints=None, path=None):
        self.name, self.kind, self.pc, self.goal, self.site, self.fn = name, kind, pc, goal, site, fn
        self.hints = hints or []
        self.path = path

    def key(self):
        # z3 terms are hash-consed: AST ids identify them structurally within one run
        return (self.name, self.site, tuple(p.get_id() for p in self.pc), self.goal.get_id())


class LoopSpec:
    """Invariant for the loop with the given ordinal (source order inside the function).
    fingerprint: source text of the iterable (for) or the condition (while); a mismatch is spec drift.
    inv(ex, k): list of (clause_name, z3 Bool); k is the number of completed iterations (VInt term) for list
    loops, the `seen` set term for set loops, None for while loops.
    modifies: extra havoc targets: ('heap', obj, field) / ('ghost', name) / ('var', name); assigned local
    variables of the body are havocked automatically."""

    def __init__(self, fingerprint, inv, modifies=(), ghost_start=None, ghost_end=None, no_end=False, every_element=False, snapshot=False):
        """every_element: the loop's contract is per element (region contract): leaving the loop early (break / return from
        inside the body) would leave elements unprocessed - an obligation that fails on such a path"""
        self.fingerprint, self.inv, self.modifies = fingerprint, inv, list(modifies)
        self.ghost_start, self.ghost_end, self.no_end, self.every_element = ghost_start, ghost_end, no_end, every_element
        # snapshot: the body hands control to code that may change the collection being walked (user callbacks re-entering
        # the API): the loop must walk a private copy - an obligation on the loop header, checked before the fingerprint
        self.snapshot = snapshot


class FnSpec:
    """Verification-side contract of one real function.  Subclass and fill in."""

    relpath: str = ""
    qualname: str = ""
    prop: str = ""
    loops: dict = {}
    inline: set = set()
    implicit: dict = {}  # e.g. {'KeyError': 'fork'}: implicit exceptions become exceptional paths instead of obligations
    feasibility = True
    feas_rlimit = 30000

    def setup(self, ex: "Ex") -> dict:
        raise NotImplementedError

    def post(self, ex: "Ex", result):
        pass

    def post_raise(self, ex: "Ex", exc: VExc, site: str):
        ex.oblige(f"no-uncaught[{exc.cls}@{site}]", z3.BoolVal(False), kind="exception")

    # hooks
    def globals(self) -> dict:
        return {}

    def calls(self) -> dict:
        return {}

    def on_with(self, ex, ctxval, node, entering: bool):
        """`with X:` for X that is not contextlib.suppress; default: sequential no-op."""

    def on_yield(self, ex, value):
        ex.emit("out", value)


class Stats:
    def __init__(self):
        self.paths = 0
        self.pruned = 0
        self.feas_checks = 0
        self.t_exec = 0.0


_QF_CACHE: dict = {}


def _is_qf(f) -> bool:
    """no quantifier anywhere inside (memoised on the hash-consed term id)"""
    if isinstance(f, bool):
        return True
    i = f.get_id()
    r = _QF_CACHE.get(i)
    if r is not None:
        r = r[1]
    if r is None:
        todo, r, seen = [f], True, set()
        while todo:
            t = todo.pop()
            if z3.is_quantifier(t):
                r = False
                break
            k = t.get_id()
            if k in seen:
                continue
            seen.add(k)
            todo.extend(t.children())
        _QF_CACHE[i] = (f, r)   # the term is kept alive with its entry: z3 re-uses the ids of freed terms
    return r


class Ex:
    def __init__(self, spec: FnSpec, world=None):
        self.spec = spec
        self.ref = source.FnRef(spec.relpath, spec.qualname)
        self.world = world  # shared object of the spec module (sorts, class table, ...)
        self.obligations: list[Obligation] = []
        self._seen = set()
        self.stats = Stats()
        self.classes = source.class_table()
        self._loop_ord = {}
        n = 0
        for node in _source_order(self.ref.node):
            if isinstance(node, (ast.For, ast.While)):
                n += 1
                self._loop_ord[id(node)] = n
        self.nloops = n
        self._globals = dict(spec.globals())
        self._calls = dict(spec.calls())
        self.covered_loops = set()
        self.reached = set()  # labels of reachability covers
        self.covers = {}  # label -> list of path conditions reaching it (checked for consistency by the driver)

    # ------------------------------------------------------------ path driver
    def run(self):
        t0 = time.time()
        self._trace = []
        unsupported = []
        while True:
            self._pos = 0
            self._fresh = itertools.count()
            VObj._n = 0
            self.pc: list = []
            self.heap: dict = {}
            self.ghost: dict = {}
            self.scope = Scope()
            self.held = []
            self._alias = {}
            self._stale_alias = set()
            self._iterating = []
            self._decided = {}
            self.stats.paths += 1
            try:
                try:
                    env = self.spec.setup(self)
                    self.scope = Scope(None, env)
                    self._bind_missing_defaults(env)
                    try:
                        self.exec_block(self.ref.body())
                        result = None
                    except _Return as r:
                        result = r.value
                    self.cover("exit")
                    self.spec.post(self, result)
                except Raise as r:
                    self.spec.post_raise(self, r.exc, r.site)
            except PathEnd:
                pass
            except Unsupported as e:
                # this path cannot be followed; the others still are (their obligations are genuine), the function as a
                # whole is reported undecided by re-raising after the exploration
                unsupported.append(e)
                if len(unsupported) > 64:
                    raise
            while self._trace and self._trace[-1][1] >= self._trace[-1][0] - 1:
                self._trace.pop()
            if not self._trace:
                break
            self._trace[-1][1] += 1
        self.stats.t_exec = time.time() - t0
        if unsupported:
            raise unsupported[0]
        return self.obligations

    def _default_value(self, expr):
        """value of a parameter default.  Python evaluates defaults ONCE, when the `def` is executed: an object built there
        is shared by every call (and every instance) - it is marked `deftime`, so a contract can tell it from an object the
        call itself created"""
        v = self.ev(expr)
        if isinstance(v, (VObj, VOpaque)):
            try:
                v.deftime = True
            except AttributeError:
                pass
        return v

    def _bind_missing_defaults(self, env):
        """parameters of the function under contract that the spec's setup() does not provide (e.g. added later, with a
        default): bound to their defaults, as a call without that argument would"""
        a = getattr(self.ref.node, "args", None)
        if a is None:
            return
        pos = list(a.posonlyargs) + list(a.args)
        for prm, d in list(zip(pos[len(pos) - len(a.defaults):], a.defaults)) + [(p, d) for p, d in zip(a.kwonlyargs, a.kw_defaults) if d is not None]:
            if prm.arg not in env:
                env[prm.arg] = self._default_value(d)

    def choose(self, n, label=""):
        if n <= 1:
            return 0
        if self._pos < len(self._trace):
            c = self._trace[self._pos][1]
        else:
            self._trace.append([n, 0, label])
            c = 0
        self._pos += 1
        return c

    # ------------------------------------------------------------ logical state
    def fresh_term(self, sort, hint="v"):
        return z3.Const(f"{hint}!{next(self._fresh)}", sort)

    def fresh(self, ty: Ty, hint="v"):
        return ty.wrap(self.fresh_term(ty.sort, hint))

    def assume(self, f):
        if isinstance(f, bool):
            if not f:
                raise PathEnd()
            return
        f = z3.simplify(f) if False else f
        if z3.is_false(f):
            raise PathEnd()
        if not z3.is_true(f):
            self.pc.append(f)

    def oblige(self, name, goal, kind="post", site="", hints=None):
        if isinstance(goal, bool):
            goal = z3.BoolVal(goal)
        if z3.is_true(goal):
            goal = z3.BoolVal(True)
        ob = Obligation(name, kind, list(self.pc), goal, site, self.spec.qualname, hints, [t[1] for t in self._trace[: self._pos]])
        k = ob.key()
        if k in self._seen:
            return
        self._seen.add(k)
        self.obligations.append(ob)

    def lemma(self, name, f, using=None):
        """prove, then use.  `using`: a subset of facts (each must already be in, or proved from, the path condition)
        that suffices; keeping the query small is what makes string lemmas decidable (DESIGN 2.1 step 4)."""
        if using is None:
            self.oblige(f"lemma[{name}]", f, kind="lemma")
        else:
            saved = self.pc
            self.pc = list(using)
            try:
                self.oblige(f"lemma[{name}]", f, kind="lemma")
            finally:
                self.pc = saved
        self.assume(f)

    def require(self, name, cond, site=""):
        self.oblige(name, cond, kind="pre", site=site)

    def cover(self, label):
        """Reachability cover (anti-vacuity): the path condition at this point must be satisfiable."""
        self.reached.add(label)
        if len(self.covers.setdefault(label, [])) < 48:
            self.covers[label].append(list(self.pc))

    def feasible(self, extra) -> bool:
        if not self.spec.feasibility:
            return True
        self.stats.feas_checks += 1
        # stage 1: the quantifier-free part of the path condition alone (a subset: unsat here => unsat altogether); this
        # is what decides contradictory flag tests (one event bit per record) without paying for the quantified axioms
        qf = [p for p in self.pc if _is_qf(p)]
        s = z3.Solver()
        s.set("rlimit", self.spec.feas_rlimit)
        s.add(*qf)
        s.add(extra)
        if s.check() == z3.unsat:
            return False
        if len(qf) == len(self.pc) or not getattr(self.spec, "feasibility_with_quantifiers", False):
            # The quantified part is NOT consulted in-process by default: a resource-limited check over the quantified
            # axioms crashed the solver library (SIGSEGV inside Z3_solver_check_assumptions, twice, deterministically for
            # a given term order) - and an in-process crash takes the whole check down.  Keeping a path that only the
            # quantified axioms could rule out is sound: its obligations are then discharged (vacuously) in a worker.
            return True
        s = z3.Solver()
        s.set("rlimit", self.spec.feas_rlimit)
        s.add(*self.pc)
        s.add(extra)
        return s.check() != z3.unsat

    def branch(self, cond, label="") -> bool:
        """Decide a condition on this path: concrete -> itself; symbolic -> fork."""
        if isinstance(cond, bool):
            return cond
        cond = z3.simplify(cond)
        if z3.is_true(cond):
            return True
        if z3.is_false(cond):
            return False
        cid = cond.get_id()
        if cid in self._decided:
            return self._decided[cid]
        r = self._branch(cond, label)
        self._decided[cid] = r
        return r

    def _branch(self, cond, label):
        # replay first (no feasibility check needed: decided when first explored)
        if self._pos < len(self._trace):
            c = self.choose(2, label)
            if self._trace[self._pos - 1][0] == 1:  # forced
                val = bool(self._trace[self._pos - 1][2])
                self.assume(cond if val else z3.Not(cond))
                return val
            self.assume(cond if c == 0 else z3.Not(cond))
            return c == 0
        ft = self.feasible(cond)
        ff = self.feasible(z3.Not(cond))
        if ft and ff:
            c = self.choose(2, label)
            self.assume(cond if c == 0 else z3.Not(cond))
            return c == 0
        if not ft and not ff:
            raise PathEnd()
        # forced: record as a 1-way choice so replays stay aligned
        self._trace.append([1, 0, ft])
        self._pos += 1
        self.stats.pruned += 1
        self.assume(cond if ft else z3.Not(cond))
        return ft

    # ------------------------------------------------------------ ghost output
    def emit(self, seq, value):
        cur = self.ghost.get(seq)
        if cur is None:
            raise Unsupported(f"ghost sequence {seq} not declared by the spec")
        t = cur.ety.unwrap(value)
        self.ghost[seq] = VList(cur.n + 1, z3.Store(cur.arr, cur.n, t), cur.ety)

    # ------------------------------------------------------------ statements
    def exec_block(self, stmts):
        for s in stmts:
            self.exec_stmt(s)

    def site(self, node):
        try:
            return ast.unparse(node)[:80]
        except Exception:
            return type(node).__name__

    def exec_stmt(self, s):
        m = getattr(self, "st_" + type(s).__name__, None)
        if m is None:
            raise Unsupported(f"statement {type(s).__name__}: {self.site(s)}")
        return m(s)

    def st_Expr(self, s):
        if isinstance(s.value, ast.Constant):
            return
        self.ev(s.value)

    def st_Pass(self, s):
        pass

    def _typed_empty(self, target, v):
        if isinstance(v, VOpaque) and v.kind in ("emptyset", "emptylist", "emptydict") and isinstance(target, ast.Name):
            ty = getattr(self.spec, "var_types", {}).get(target.id)
            if ty is not None:
                return ty.empty()
        if isinstance(v, VOpaque) and v.kind in ("emptyset", "emptylist", "emptydict") and isinstance(target, ast.Attribute):
            ty = getattr(self.spec, "var_types", {}).get("self." + target.attr)
            if ty is not None:
                return ty.empty()
        return v

    def st_Assign(self, s):
        v = self.ev(s.value)
        for t in s.targets:
            self.assign(t, self._typed_empty(t, v))
        # `x = self.f[k]` binds x to the very container stored there (containers are values here, objects in Python): a
        # mutating method called on x later is written through to that location (builtins_model._wb -> write_through)
        if len(s.targets) == 1 and isinstance(s.targets[0], ast.Name):
            key = (id(self.scope.vars), s.targets[0].id)
            if isinstance(s.value, (ast.Subscript, ast.Attribute)) and isinstance(v, (VSet, VList, VDict)):
                self._alias[key] = s.value
            else:
                self._alias.pop(key, None)

    def write_through(self, name_node, new):
        origin = self._alias.get((id(self.scope.vars), name_node.id)) if isinstance(name_node, ast.Name) else None
        if origin is not None:
            keep, stale = dict(self._alias), set(self._stale_alias)
            self.assign(_as_store(origin), new)
            self._alias, self._stale_alias = keep, stale

    def st_AnnAssign(self, s):
        if s.value is None:
            return
        self.assign(s.target, self._typed_empty(s.target, self.ev(s.value)))

    def st_AugAssign(self, s):
        cur = self.ev(_as_load(s.target))
        v = self.binop(s.op, cur, self.ev(s.value), s)
        self.assign(s.target, v)

    def st_Return(self, s):
        raise _Return(self.ev(s.value) if s.value is not None else None)

    def st_Break(self, s):
        raise _Break()

    def st_Continue(self, s):
        raise _Continue()

    def st_ImportFrom(self, s):
        for a in s.names:
            self.scope.vars[a.asname or a.name] = VGlobal(f"{s.module}.{a.name}")

    def st_Import(self, s):
        for a in s.names:
            self.scope.vars[(a.asname or a.name).split(".")[0]] = VGlobal((a.asname or a.name).split(".")[0])

    def st_Global(self, s):
        pass

    def st_Nonlocal(self, s):
        pass

    def st_FunctionDef(self, s):
        self.scope.vars[s.name] = VFunc(s, self.scope, s.name)

    def st_Delete(self, s):
        for t in s.targets:
            if isinstance(t, ast.Subscript):
                self.del_item(t)
            else:
                raise Unsupported("del " + self.site(t))

    def st_If(self, s):
        c = self.ev_truth((s.test))
        if self.branch(c, "if " + self.site(s.test)):
            self._narrow(s.test, True)
            self.exec_block(s.body)
        else:
            self._narrow(s.test, False)
            self.exec_block(s.orelse)

    def _narrow(self, test, outcome):
        """flow typing of Optional values: after `if x:` / `if x is not None:` the name holds the payload"""
        name, positive = None, True
        if isinstance(test, ast.Name):
            name = test.id
        elif isinstance(test, ast.UnaryOp) and isinstance(test.op, ast.Not) and isinstance(test.operand, ast.Name):
            name, positive = test.operand.id, False
        elif isinstance(test, ast.Compare) and len(test.ops) == 1 and isinstance(test.left, ast.Name) and isinstance(test.comparators[0], ast.Constant) and test.comparators[0].value is None:
            name = test.left.id
            positive = isinstance(test.ops[0], (ast.IsNot, ast.NotEq))
        if name is None or (outcome != positive):
            return
        sc = self.scope.lookup(name)
        if sc is not None and isinstance(sc.vars[name], VOpt):
            sc.vars[name] = sc.vars[name].val

    def st_Raise(self, s):
        if s.exc is None:
            cur = getattr(self, "_handling", None)
            if cur is None:
                raise Unsupported("bare raise outside handler")
            raise Raise(cur, "re-raise")
        v = self.ev(s.exc)
        if isinstance(v, VExc):
            raise Raise(v, self.site(s.exc))
        if isinstance(v, VGlobal):
            raise Raise(VExc(v.dotted.split("builtins.")[-1]), self.site(s.exc))
        raise Unsupported("raise " + self.site(s.exc))

    def st_Assert(self, s):
        c = self.ev_truth((s.test))
        self.oblige(f"assert[{self.site(s.test)}]", c, kind="assert")
        self.assume(c)

    def st_Try(self, s):
        def run_handlers(r: Raise):
            for h in s.handlers:
                names = self._handler_names(h.type)
                if any(exc_is(r.exc.cls, n) for n in names):
                    if h.name:
                        self.scope.vars[h.name] = r.exc
                    prev = getattr(self, "_handling", None)
                    self._handling = r.exc
                    try:
                        self.exec_block(h.body)
                    finally:
                        self._handling = prev
                    return True
            return False

        try:
            try:
                self.exec_block(s.body)
            except Raise as r:
                if not run_handlers(r):
                    raise
            else:
                self.exec_block(s.orelse)
        except PathEnd:
            raise
        except (Raise, _Return, _Break, _Continue):
            if s.finalbody:
                self.exec_block(s.finalbody)
            raise
        else:
            if s.finalbody:
                self.exec_block(s.finalbody)

    def _handler_names(self, t):
        if t is None:
            return ["BaseException"]
        if isinstance(t, ast.Tuple):
            return [n for e in t.elts for n in self._handler_names(e)]
        d = _dotted(t)
        if d is None:
            raise Unsupported("except " + self.site(t))
        return [d if d in EXC_PARENTS else d.split(".")[-1] if d.split(".")[-1] in EXC_PARENTS else d]

    def st_With(self, s):
        if len(s.items) != 1:
            raise Unsupported("with multiple items")
        item = s.items[0]
        ce = item.context_expr
        # contextlib.suppress(E...)
        if isinstance(ce, ast.Call) and _dotted(ce.func) in ("contextlib.suppress", "suppress"):
            names = [n for a in ce.args for n in self._handler_names(a)]
            try:
                self.exec_block(s.body)
            except Raise as r:
                if not any(exc_is(r.exc.cls, n) for n in names):
                    raise
            return
        cv = self.ev(ce)
        self.spec.on_with(self, cv, s, True)
        try:
            self.exec_block(s.body)
        except PathEnd:
            raise
        except (Raise, _Return, _Break, _Continue):
            self.spec.on_with(self, cv, s, False)
            raise
        else:
            self.spec.on_with(self, cv, s, False)

    # ---- loops
    def _loopspec(self, node, fp_src):
        if id(node) not in self._loop_ord:
            raise Unsupported(f"loop `{fp_src}` lies in an inlined callee; give the callee its own contract")
        ordn = self._loop_ord[id(node)]
        ls = self.spec.loops.get(ordn)
        if ls is None:
            raise Unsupported(f"loop #{ordn} ({fp_src}) has no invariant in the spec")
        if ls.snapshot and isinstance(node, ast.For):
            it = node.iter
            private = (isinstance(it, ast.Call) and ((isinstance(it.func, ast.Attribute) and it.func.attr == "copy" and not it.args)
                                                     or (isinstance(it.func, ast.Name) and it.func.id in ("list", "tuple", "set", "frozenset", "sorted") and len(it.args) == 1)))
            self.oblige(f"loop{ordn}.snapshot[the loop walks a private copy of the collection: its body hands control to code that may change the collection (RuntimeError: changed size during iteration)]",
                        private, kind="safety", site=fp_src)
        if ls.fingerprint is not None and ls.fingerprint != fp_src:
            raise Unsupported(f"spec drift: loop #{ordn} header is `{fp_src}`, spec expects `{ls.fingerprint}`")
        self.covered_loops.add(ordn)
        return ordn, ls

    MUTATORS = {"add", "remove", "discard", "clear", "pop", "append", "extend", "popleft", "update", "insert", "appendleft", "setdefault"}

    def _mutated(self, stmts):
        """Syntactic over-approximation of what a block may modify: local names and `self.<field>` roots."""
        names, fields = set(), set()

        def root(e):
            while isinstance(e, (ast.Subscript, ast.Attribute)):
                if isinstance(e, ast.Attribute) and isinstance(e.value, ast.Name):
                    sc = self.scope.lookup(e.value.id)
                    if sc is not None and isinstance(sc.vars[e.value.id], VObj):
                        fields.add((e.value.id, e.attr))
                        return
                e = e.value
            if isinstance(e, ast.Name):
                names.add(e.id)

        for st in stmts:
            for n in ast.walk(st):
                if isinstance(n, ast.Name) and isinstance(n.ctx, (ast.Store, ast.Del)):
                    names.add(n.id)
                elif isinstance(n, (ast.Subscript, ast.Attribute)) and isinstance(n.ctx, (ast.Store, ast.Del)):
                    root(n)
                elif isinstance(n, ast.Call) and isinstance(n.func, ast.Attribute) and n.func.attr in self.MUTATORS:
                    root(n.func.value)
                elif isinstance(n, ast.Subscript) and isinstance(n.ctx, ast.Load):
                    # defaultdict lookups insert
                    pass
        return names, fields

    def _havoc(self, node_body, ls: LoopSpec):
        names, fields = self._mutated(node_body)
        vt = getattr(self.spec, "var_types", {}) or {}
        for nm in sorted(names):
            sc = self.scope.lookup(nm)
            if sc is not None:
                if nm in vt and not isinstance(sc.vars[nm], (VObj, VFunc)):
                    sc.vars[nm] = self.fresh(vt[nm], nm)
                    if isinstance(sc.vars[nm], VList):
                        self.assume(sc.vars[nm].n >= 0)
                else:
                    sc.vars[nm] = self._havoc_val(sc.vars[nm], nm)
        for (objname, fld) in sorted(fields):
            obj = self.scope.lookup(objname).vars[objname]
            key = (obj.id, fld)
            if key in self.heap:
                self.heap[key] = self._havoc_val(self.heap[key], fld)
        for m in ls.modifies:
            if m[0] == "var":
                sc = self.scope.lookup(m[1])
                if sc is not None:
                    sc.vars[m[1]] = self._havoc_val(sc.vars[m[1]], m[1])
            elif m[0] == "ghost":
                self.ghost[m[1]] = self._havoc_val(self.ghost[m[1]], m[1])
            elif m[0] == "heap":
                obj = m[1](self) if callable(m[1]) else m[1]
                key = (obj.id, m[2])
                if key in self.heap:
                    self.heap[key] = self._havoc_val(self.heap[key], m[2])
            elif m[0] == "call":
                m[1](self)
            else:
                raise Unsupported(f"modifies {m}")

    def _havoc_val(self, v, hint):
        if isinstance(v, VOpaque) and v.kind in ("emptydict", "emptyset", "emptylist"):
            # a container literal the sidecar gives no type for, mutated inside the loop: its contents at the loop head are
            # unknown and cannot be represented - never keep it 'empty' (that would be unsound)
            raise Unsupported(f"local container `{hint}` is mutated in a loop and the sidecar declares no type for it (spec drift)")
        if isinstance(v, (VObj, VFunc, VClass, VGlobal, VOpaque, VBound)):
            return v
        if v is None:
            return v
        try:
            nv = self.fresh(ty_of(v), hint)
        except Unsupported:
            raise Unsupported(f"cannot havoc {hint}={v!r}")
        if isinstance(nv, VList):
            self.assume(nv.n >= 0)  # type invariant of sequences
        return nv

    def st_For(self, s):
        # a loop that walks a collection by reference (no copy): changing that very collection inside the body makes the
        # iterator skip or repeat elements (list) or raise RuntimeError (set / dict) - an obligation at the mutating call
        track = isinstance(s.iter, (ast.Name, ast.Attribute, ast.Subscript))
        if track:
            self._iterating.append(self.site(s.iter))
        try:
            return self._st_For(s)
        finally:
            if track:
                self._iterating.pop()

    def _st_For(self, s):
        it = self.deopt(self.ev(s.iter), self.site(s.iter))
        # concrete python iterables: unroll
        if isinstance(it, (tuple, list, frozenset, set)):
            broke = False
            for x in list(it):
                self.assign(s.target, x)
                try:
                    self.exec_block(s.body)
                except _Continue:
                    continue
                except _Break:
                    broke = True
                    break
            if not broke:
                self.exec_block(s.orelse)
            return
        ordn, ls = self._loopspec(s, self.site(s.iter))
        if isinstance(it, VDict):
            it = VSet(it.dom, it.kty)
        if isinstance(it, VOpaque) and it.kind == "enumerate":
            lst = it.data
            mode = "enum"
        elif isinstance(it, VList):
            lst, mode = it, "list"
        elif isinstance(it, VSet):
            lst, mode = it, "set"
        else:
            raise Unsupported(f"for over {it!r}")
        # -- init
        if mode == "set":
            seen0 = z3.K(lst.ety.sort, z3.BoolVal(False))
            for nm, f in ls.inv(self, seen0):
                self.oblige(f"loop{ordn}.init[{nm}]", f, kind="inv-init", site=ls.fingerprint or "")
        else:
            for nm, f in ls.inv(self, z3.IntVal(0)):
                self.oblige(f"loop{ordn}.init[{nm}]", f, kind="inv-init", site=ls.fingerprint or "")
        c = self.choose(2, f"loop{ordn}")
        self._havoc(s.body, ls)
        if c == 0:
            if mode == "set":
                seen = self.fresh_term(lst.t.sort(), "seen")
                x = self.fresh_term(lst.ety.sort, "x")
                for nm, f in ls.inv(self, seen):
                    self.assume(f)
                y = self.fresh_term(lst.ety.sort, "y")
                self.assume(z3.ForAll([y], z3.Implies(seen[y], lst.t[y])))
                self.assume(lst.t[x])
                self.assume(z3.Not(seen[x]))
                self.assign(s.target, lst.ety.wrap(x))
                nxt = z3.Store(seen, x, True)
            else:
                k = self.fresh_term(z3.IntSort(), "k")
                self.assume(k >= 0)
                self.assume(k < lst.n)
                for nm, f in ls.inv(self, k):
                    self.assume(f)
                el = lst.ety.wrap(z3.Select(lst.arr, k))
                self.assign(s.target, VTuple([VInt(k), el]) if mode == "enum" else el)
                nxt = k + 1
            self.cover(f"loop{ordn}.body")
            if ls.ghost_start:
                ls.ghost_start(self, seen if mode == "set" else k, lst.ety.wrap(x) if mode == "set" else el)
            try:
                self.exec_block(s.body)
            except _Continue:
                pass
            except _Break:
                if ls.every_element:
                    self.oblige(f"loop{ordn}.every-element[the loop is not left before its last element: nothing of the batch is skipped]", False, kind="frame", site=ls.fingerprint or "")
                return  # continues after the loop, skipping orelse
            except _Return:
                if ls.every_element:
                    self.oblige(f"loop{ordn}.every-element[the loop is not left before its last element: nothing of the batch is skipped]", False, kind="frame", site=ls.fingerprint or "")
                raise
            if ls.ghost_end:
                ls.ghost_end(self, seen if mode == "set" else k, lst.ety.wrap(x) if mode == "set" else el)
            self.cover(f"loop{ordn}.end")
            for nm, f in ls.inv(self, nxt):
                self.oblige(f"loop{ordn}.preserved[{nm}]", f, kind="inv-preserved", site=ls.fingerprint or "")
            raise PathEnd()
        else:
            final = lst.t if mode == "set" else lst.n
            for nm, f in ls.inv(self, final):
                self.assume(f)
            self.exec_block(s.orelse)

    def st_While(self, s):
        ordn, ls = self._loopspec(s, self.site(s.test))
        for nm, f in ls.inv(self, None):
            self.oblige(f"loop{ordn}.init[{nm}]", f, kind="inv-init", site=ls.fingerprint or "")
        c = self.choose(2, f"loop{ordn}")
        self._havoc(s.body, ls)
        for nm, f in ls.inv(self, None):
            self.assume(f)
        t = self.ev_truth((s.test))
        if c == 0:
            self.assume(t)
            self.cover(f"loop{ordn}.body")
            try:
                self.exec_block(s.body)
            except _Continue:
                pass
            except _Break:
                return
            self.cover(f"loop{ordn}.end")
            for nm, f in ls.inv(self, None):
                self.oblige(f"loop{ordn}.preserved[{nm}]", f, kind="inv-preserved", site=ls.fingerprint or "")
            raise PathEnd()
        else:
            self.assume(z3.Not(t) if not isinstance(t, bool) else (not t))
            self.exec_block(s.orelse)

    # ------------------------------------------------------------ assignment
    def assign(self, target, v):
        if isinstance(target, ast.Name):
            sc = self.scope.lookup(target.id)
            # Python semantics: assignment binds in the *current* function scope
            self.scope.vars[target.id] = v
            return
        if isinstance(target, (ast.Tuple, ast.List)):
            items = self._unpack(v, len(target.elts), target)
            for t, x in zip(target.elts, items):
                if isinstance(t, ast.Starred):
                    continue
                self.assign(t, x)
            return
        if isinstance(target, ast.Attribute):
            obj = self.ev(target.value)
            if isinstance(obj, VObj):
                self.set_field(obj, target.attr, v)
                return
            h = getattr(self.world, "setattr", None)
            if h is not None and h(self, obj, target.attr, v) is not NotImplemented:
                return
            raise Unsupported("attribute store on " + repr(obj))
        if isinstance(target, ast.Subscript):
            cont = self.ev(target.value)
            idx = self.ev(target.slice)
            new = self.store_item(cont, idx, v, target)
            self.assign(_as_store(target.value), new)
            return
        raise Unsupported("assign target " + self.site(target))

    def _heap_written(self):
        # a location an alias points at may have been re-bound: forget the aliases (a later mutation through one of them is
        # then local only - flagged)
        if self._alias:
            self._stale_alias.update(k for k in self._alias)
            self._alias = {}

    def set_field(self, obj: VObj, name, v):
        self._heap_written()
        h = getattr(self.spec, "on_field", None)
        if h is not None:
            h(self, obj, name, True)
        self.heap[(obj.id, name)] = v

    def _unpack(self, v, n, node):
        star = [i for i, e in enumerate(node.elts) if isinstance(e, ast.Starred)]
        if isinstance(v, VTuple):
            items = v.items
        elif isinstance(v, (tuple, list)):
            items = list(v)
        elif isinstance(v, VOpt):
            # unpacking an Optional: None would raise TypeError
            self.oblige(f"no-TypeError[unpack {self.site(node)}]", v.some, kind="safety", site=self.site(node))
            self.assume(v.some)
            return self._unpack(v.val, n, node)
        else:
            raise Unsupported(f"unpack of {v!r}")
        if star:
            i = star[0]
            rest = len(node.elts) - 1
            if len(items) < rest:
                raise Unsupported("unpack arity")
            return items[:i] + [None] + items[len(items) - (rest - i) :]
        if len(items) != n:
            raise Unsupported(f"unpack arity {len(items)} vs {n} at {self.site(node)}")
        return items

    def store_item(self, cont, idx, v, node):
        if isinstance(cont, VOpaque) and cont.kind == "pydict":
            return cont
        if isinstance(cont, VOpaque) and cont.kind == "emptydict":
            # an untyped `{}` (a local the sidecar does not know): typed by its first store
            try:
                cont = TDict(ty_of(idx), ty_of(v)).empty()
            except Exception as e:
                raise Unsupported(f"item store on an untyped empty dict: {e}")
        if isinstance(cont, VDict):
            k = cont.kty.unwrap(idx)
            return cont.with_(dom=z3.Store(cont.dom, k, True), val=z3.Store(cont.val, k, cont.vty.unwrap(v)))
        if isinstance(cont, VList):
            i = self._list_index(cont, idx)
            self.oblige(f"no-IndexError[{self.site(node)}]", z3.And(i >= 0, i < cont.n), kind="safety", site=self.site(node))
            return VList(cont.n, z3.Store(cont.arr, i, cont.ety.unwrap(v)), cont.ety)
        raise Unsupported(f"item store on {cont!r}")

    def del_item(self, t):
        cont = self.ev(t.value)
        idx = self.ev(t.slice)
        if isinstance(cont, VDict):
            k = cont.kty.unwrap(idx)
            self.implicit_exc("KeyError", z3.Select(cont.dom, k), self.site(t))
            new = cont.with_(dom=z3.Store(cont.dom, k, False))
        elif isinstance(cont, VList):
            i = self._list_index(cont, idx)
            self.implicit_exc("IndexError", z3.And(i >= 0, i < cont.n), self.site(t))
            j = self.fresh_term(z3.IntSort(), "j")
            arr = self.fresh_term(cont.arr.sort(), "del")
            self.assume(z3.ForAll([j], arr[j] == z3.If(j < i, cont.arr[j], cont.arr[j + 1])))
            new = VList(cont.n - 1, arr, cont.ety)
        else:
            raise Unsupported(f"del item on {cont!r}")
        self.assign(_as_store(t.value), new)
        h = getattr(self.spec, "on_mutation", None)
        if h is not None:
            h(self, self.site(t.value), "del", t, (cont, idx))

    @staticmethod
    def _list_index(cont, idx):
        """position addressed by a list subscript: Python counts a negative index from the end"""
        if isinstance(idx, int) and not isinstance(idx, bool):
            return cont.n + idx if idx < 0 else z3.IntVal(idx)
        i = TInt.unwrap(idx)
        return z3.If(i < 0, i + cont.n, i)

    def implicit_exc(self, cls, ok, site):
        """An operation that raises `cls` unless `ok`."""
        mode = self.spec.implicit.get(cls, "oblige")
        if mode == "oblige":
            self.oblige(f"no-{cls}[{site}]", ok, kind="safety", site=site)
            self.assume(ok)
        else:
            if not self.branch(ok, f"{cls}@{site}"):
                raise Raise(VExc(cls), site)

    # ------------------------------------------------------------ expressions
    def ev(self, e):
        m = getattr(self, "ex_" + type(e).__name__, None)
        if m is None:
            raise Unsupported(f"expression {type(e).__name__}: {self.site(e)}")
        return m(e)

    def ex_Constant(self, e):
        return e.value

    def ex_Name(self, e):
        sc = self.scope.lookup(e.id)
        if sc is not None:
            return sc.vars[e.id]
        return self.global_name(e.id)

    def global_name(self, name):
        if name in self._globals:
            g = self._globals[name]
            return g if not callable(g) or isinstance(g, V) else VGlobal(name)
        consts = self.ref.mod.constants()
        if name in consts:
            return consts[name]
        if name in self.classes:
            return VClass(name)
        ok, val = self.ref.mod.imported_constant(name)
        if ok:
            return val
        return VGlobal(name)

    def ex_Attribute(self, e):
        obj = self.ev(e.value)
        return self.getattr(obj, e.attr, e)

    def getattr(self, obj, attr, node=None):
        if isinstance(obj, VGlobal):
            d = obj.dotted + "." + attr
            if d in self._globals and not callable(self._globals[d]):
                return self._globals[d]
            return VGlobal(d)
        if isinstance(obj, VObj):
            if (obj.id, attr) in self.heap:
                h = getattr(self.spec, "on_field", None)
                if h is not None:
                    h(self, obj, attr, False)
                return self.heap[(obj.id, attr)]
            return self.class_attr(obj, obj.cls, attr, node)
        if isinstance(obj, VClass):
            # class-level constant or static method
            for c in source.mro(obj.name, self.classes):
                rel, _n = self.classes[c]
                consts = source.module(rel).constants()
                if f"{c}.{attr}" in consts:
                    return consts[f"{c}.{attr}"]
            key = f"{obj.name}.{attr}"
            if key in self._globals and not callable(self._globals[key]):
                return self._globals[key]
            return VBound(obj, attr)
        if isinstance(obj, VRef):
            h = obj.ty.attrs.get(attr)
            if h is not None:
                return h(self, obj)
            if attr in obj.ty.methods:
                return VBound(obj, attr)
            raise Unsupported(f"attribute {attr} of {obj!r}")
        if isinstance(obj, VExc):
            if attr in obj.payload:
                return obj.payload[attr]
            raise Unsupported(f"exception attribute {attr}")
        if isinstance(obj, VOpaque) and obj.kind == "ns":
            if attr in obj.data:
                return obj.data[attr]
            return VBound(obj, attr)
        if isinstance(obj, VOpt):
            # attribute of a possibly-None value
            self.oblige(f"no-AttributeError-on-None[{self.site(node) if node else attr}]", obj.some, kind="safety", site=self.site(node) if node else attr)
            self.assume(obj.some)
            return self.getattr(obj.val, attr, node)
        return VBound(obj, attr)

    def class_attr(self, obj: VObj, clsname, attr, node):
        fm = source.find_method(clsname, attr, self.classes)
        if fm is not None:
            rel, qn = fm
            ref = source.FnRef(rel, qn)
            if ref.is_property:
                return self.call_repo(ref, obj, [], {}, node)
            return VBound(obj, attr)
        for c in source.mro(clsname, self.classes):
            rel, _n = self.classes[c]
            consts = source.module(rel).constants()
            if f"{c}.{attr}" in consts:
                return consts[f"{c}.{attr}"]
        key = f"{clsname}.{attr}"
        if key in self._globals:
            g = self._globals[key]
            return g if not callable(g) else VBound(obj, attr)
        # neither a field the spec gave a value, nor a method / property / constant of the class, nor a name the spec knows: it
        # may still be CALLED (a method inherited from outside the package, resolved by the call site) - but it has no value
        vb = VBound(obj, attr)
        vb.unknown = True
        return vb

    def ex_Tuple(self, e):
        return VTuple([self.ev(x) for x in e.elts])

    def ex_List(self, e):
        if not e.elts:
            return VOpaque("emptylist")
        return [self.ev(x) for x in e.elts]

    def ex_Set(self, e):
        return frozenset(self.ev(x) for x in e.elts)

    def ex_Lambda(self, e):
        return VFunc(e, self.scope, "<lambda>")

    def ex_IfExp(self, e):
        if self.branch(self.ev_truth((e.test)), "ifexp " + self.site(e.test)):
            self._narrow(e.test, True)
            return self.ev(e.body)
        self._narrow(e.test, False)
        return self.ev(e.orelse)

    def ex_JoinedStr(self, e):
        parts = []
        for v in e.values:
            if isinstance(v, ast.Constant):
                parts.append(v.value)
            elif isinstance(v, ast.FormattedValue):
                try:
                    parts.append(self.ev(v.value))
                except Unsupported:
                    parts.append(VOpaque("fmt"))
        if all(isinstance(p, str) for p in parts):
            return "".join(parts)
        return VOpaque("fstring", parts)

    def ex_UnaryOp(self, e):
        if isinstance(e.op, ast.Not):
            t = self.ev_truth(e.operand)
            return (not t) if isinstance(t, bool) else VBool(z3.Not(t))
        v = self.ev(e.operand)
        if isinstance(e.op, ast.USub):
            if isinstance(v, (int, float)):
                return -v
            if isinstance(v, VInt):
                return VInt(-v.t)
            if isinstance(v, VReal):
                return VReal(-v.t)
        if isinstance(e.op, ast.Invert):
            if isinstance(v, int):
                return ~v
            if isinstance(v, VBits):
                return VBits(~v.t, v.ty)
        raise Unsupported("unary " + self.site(e))

    def ev_truth(self, node):
        """truth value of an expression in a test position (if / while / assert / conditional expression / not / a
        comprehension's condition): only its truth matters there, so `a and b` may be merged into one formula"""
        if isinstance(node, ast.BoolOp):
            return self.truth(self.ex_BoolOp(node, True))
        return self.truth(self.ev(node))

    @staticmethod
    def _syntactically_bool(n):
        if isinstance(n, ast.Compare) or (isinstance(n, ast.UnaryOp) and isinstance(n.op, ast.Not)):
            return True
        if isinstance(n, ast.Constant):
            return isinstance(n.value, bool)
        if isinstance(n, ast.BoolOp):
            return all(Ex._syntactically_bool(v) for v in n.values)
        if isinstance(n, ast.Call) and isinstance(n.func, ast.Name) and n.func.id in ("isinstance", "issubclass", "hasattr", "callable", "bool", "any", "all"):
            return True
        return False

    def ex_BoolOp(self, e, truth_ctx=False):
        is_and = isinstance(e.op, ast.And)
        if not truth_ctx and not all(self._syntactically_bool(v) for v in e.values):
            # value position (`x = a or b`, `return a and b`, an argument): Python yields the deciding OPERAND, not its truth
            # value - evaluated exactly, one path per outcome
            v = None
            for i, sub in enumerate(e.values):
                v = self.ev(sub)
                if i + 1 == len(e.values):
                    return v
                t = self.truth(v)
                decided = self.branch(t if not is_and else (not t if isinstance(t, bool) else z3.Not(t)), ("and " if is_and else "or ") + self.site(sub))
                if decided:
                    return v
            return v
        acc = None  # z3 Bool accumulated
        mine = []  # short-circuit assumptions added here (removed afterwards; facts assumed by callees stay)
        try:
            for i, sub in enumerate(e.values):
                v = self.ex_BoolOp(sub, True) if truth_ctx and isinstance(sub, ast.BoolOp) else self.ev(sub)
                t = self.truth(v)
                if isinstance(t, bool):
                    if is_and and not t:
                        return False if acc is None else VBool(z3.BoolVal(False))
                    if (not is_and) and t:
                        if acc is None:
                            return v
                        return VBool(z3.BoolVal(True))
                    continue
                acc = t if acc is None else (z3.And(acc, t) if is_and else z3.Or(acc, t))
                # later operands are only evaluated when this one did not decide
                g = t if is_and else z3.Not(t)
                if i + 1 < len(e.values) and not self.feasible(g):
                    # on this path the operand decides: Python does not evaluate the rest (evaluating it under the
                    # contradictory assumption would let a fork inside it end the whole path - a lost behaviour)
                    break
                self.pc.append(g)
                mine.append(g)
            if acc is None:
                return is_and
            return VBool(acc)
        finally:
            for g in mine:
                for k in range(len(self.pc) - 1, -1, -1):
                    if self.pc[k] is g:
                        del self.pc[k]
                        break

    def ex_BinOp(self, e):
        return self.binop(e.op, self.ev(e.left), self.ev(e.right), e)

    def binop(self, op, l, r, node):
        py = (int, float, str, bytes)
        if isinstance(l, py) and isinstance(r, py) and not isinstance(l, bool):
            try:
                return {ast.Add: lambda: l + r, ast.Sub: lambda: l - r, ast.Mult: lambda: l * r, ast.BitOr: lambda: l | r, ast.BitAnd: lambda: l & r}[type(op)]()
            except (KeyError, TypeError):
                pass
        if isinstance(l, VBits) or isinstance(r, VBits):
            ty = l.ty if isinstance(l, VBits) else r.ty
            a, b = ty.unwrap(l), ty.unwrap(r)
            if isinstance(op, ast.BitOr):
                return VBits(a | b, ty)
            if isinstance(op, ast.BitAnd):
                return VBits(a & b, ty)
            raise Unsupported("bits op")
        if isinstance(l, VSet) and isinstance(r, VSet):
            if isinstance(op, ast.Sub):
                return VSet(z3.SetDifference(l.t, r.t), l.ety)
            if isinstance(op, ast.BitAnd):
                return VSet(z3.SetIntersect(l.t, r.t), l.ety)
            if isinstance(op, ast.BitOr):
                return VSet(z3.SetUnion(l.t, r.t), l.ety)
        if isinstance(l, (VStr,)) or isinstance(r, VStr):
            if isinstance(op, ast.Add):
                kind = l.kind if isinstance(l, VStr) else r.kind
                ty = TStr if kind == "str" else TBytes
                # str + bytes is a TypeError in Python: the static kinds must agree
                for x in (l, r):
                    if isinstance(x, (str, bytes)) and (isinstance(x, str)) != (kind == "str"):
                        self.oblige(f"no-TypeError[{self.site(node)}]", False, kind="safety", site=self.site(node))
                        raise PathEnd()
                    if isinstance(x, VStr) and x.kind != kind:
                        self.oblige(f"no-TypeError[{self.site(node)}]", False, kind="safety", site=self.site(node))
                        raise PathEnd()
                return VStr(z3.Concat(ty.unwrap(l), ty.unwrap(r)), kind)
        if isinstance(l, (VReal, float)) or isinstance(r, (VReal, float)):
            a, b = TReal.unwrap(l), TReal.unwrap(r)
            if isinstance(op, ast.Add):
                return VReal(a + b)
            if isinstance(op, ast.Sub):
                return VReal(a - b)
            if isinstance(op, ast.Mult):
                return VReal(a * b)
        if isinstance(l, (VInt, int)) and isinstance(r, (VInt, int)):
            a, b = TInt.unwrap(l), TInt.unwrap(r)
            if isinstance(op, ast.Add):
                return VInt(a + b)
            if isinstance(op, ast.Sub):
                return VInt(a - b)
            if isinstance(op, ast.Mult):
                return VInt(a * b)
        h = getattr(self.world, "binop", None)
        if h is not None:
            out = h(self, op, l, r, node)
            if out is not NotImplemented:
                return out
        raise Unsupported(f"binop {type(op).__name__} on {l!r}, {r!r}")

    def ex_Compare(self, e):
        left = self.ev(e.left)
        acc = None
        for op, rn in zip(e.ops, e.comparators):
            right = self.ev(rn)
            t = self.compare(op, left, right, e)
            if isinstance(t, bool):
                if not t:
                    return False
            else:
                acc = t if acc is None else z3.And(acc, t)
            left = right
        return True if acc is None else VBool(acc)

    def eq(self, l, r):
        """Python == (value equality) as python bool or z3 Bool."""
        if isinstance(l, VOpt) or isinstance(r, VOpt):
            if l is None or r is None:
                o = l if isinstance(l, VOpt) else r
                return z3.Not(o.some)
            if isinstance(l, VOpt) and isinstance(r, VOpt):
                e = self.eq(l.val, r.val)
                return z3.Or(z3.And(z3.Not(l.some), z3.Not(r.some)), z3.And(l.some, r.some, _z(e)))
            o, x = (l, r) if isinstance(l, VOpt) else (r, l)
            return z3.And(o.some, _z(self.eq(o.val, x)))
        if l is None or r is None:
            if l is None and r is None:
                return True
            other = r if l is None else l
            if isinstance(other, (V,)) and not isinstance(other, VOpaque):
                return False
            return False
        if isinstance(l, (VTuple, tuple)) and isinstance(r, (VTuple, tuple)):
            li = l.items if isinstance(l, VTuple) else list(l)
            ri = r.items if isinstance(r, VTuple) else list(r)
            if len(li) != len(ri):
                return False
            parts = [self.eq(a, b) for a, b in zip(li, ri)]
            if all(isinstance(p, bool) for p in parts):
                return all(parts)
            return z3.And(*[_z(p) for p in parts])
        if isinstance(l, V) or isinstance(r, V):
            if isinstance(l, VClass) or isinstance(r, VClass):
                if isinstance(l, VClass) and isinstance(r, VClass):
                    return l.name == r.name
                h = getattr(self.world, "eq", None)
                if h is not None:
                    out = h(self, l, r)
                    if out is not NotImplemented:
                        return out
                return False
            if isinstance(l, VObj) or isinstance(r, VObj):
                if isinstance(l, VObj) and isinstance(r, VObj):
                    return l.id == r.id
                return False
            h = getattr(self.world, "eq", None)
            if h is not None:
                out = h(self, l, r)
                if out is not NotImplemented:
                    return out
            v = l if isinstance(l, V) else r
            ty = ty_of(v)
            try:
                return ty.unwrap(l) == ty.unwrap(r)
            except Unsupported:
                if isinstance(l, V) and isinstance(r, V):
                    raise
                return False  # e.g. path == 3
        return l == r

    def compare(self, op, l, r, node):
        if isinstance(op, (ast.Eq, ast.Is)):
            if isinstance(op, ast.Is):
                h = getattr(self.world, "is_", None)
                if h is not None:
                    out = h(self, l, r)
                    if out is not NotImplemented:
                        return out
            return self.eq(l, r)
        if isinstance(op, (ast.NotEq, ast.IsNot)):
            t = self.compare(ast.Eq() if isinstance(op, ast.NotEq) else ast.Is(), l, r, node)
            return (not t) if isinstance(t, bool) else z3.Not(t)
        if isinstance(op, (ast.In, ast.NotIn)):
            t = self.contains(r, l, node)
            if isinstance(op, ast.NotIn):
                t = (not t) if isinstance(t, bool) else z3.Not(t)
            return t
        if isinstance(l, VBits) or isinstance(r, VBits):
            ty = l.ty if isinstance(l, VBits) else r.ty
            a, b = ty.unwrap(l), ty.unwrap(r)
            return {ast.Gt: lambda: z3.UGT(a, b), ast.GtE: lambda: z3.UGE(a, b), ast.Lt: lambda: z3.ULT(a, b), ast.LtE: lambda: z3.ULE(a, b)}[type(op)]()
        if isinstance(l, (VReal, float)) or isinstance(r, (VReal, float)):
            a, b = TReal.unwrap(l), TReal.unwrap(r)
        elif isinstance(l, (int, VInt)) and isinstance(r, (int, VInt)):
            if isinstance(l, int) and isinstance(r, int):
                return {ast.Gt: l > r, ast.GtE: l >= r, ast.Lt: l < r, ast.LtE: l <= r}[type(op)]
            a, b = TInt.unwrap(l), TInt.unwrap(r)
        else:
            raise Unsupported(f"compare {type(op).__name__} on {l!r},{r!r}")
        return {ast.Gt: lambda: a > b, ast.GtE: lambda: a >= b, ast.Lt: lambda: a < b, ast.LtE: lambda: a <= b}[type(op)]()

    def contains(self, cont, x, node):
        if isinstance(cont, VOpaque) and cont.kind in ("emptydict", "emptyset", "emptylist"):
            return False
        if isinstance(cont, VSet):
            return z3.Select(cont.t, cont.ety.unwrap(x))
        if isinstance(cont, VDict):
            if isinstance(x, VOpt):
                return z3.And(x.some, z3.Select(cont.dom, cont.kty.unwrap(x.val)))
            if x is None:
                return False
            return z3.Select(cont.dom, cont.kty.unwrap(x))
        if isinstance(cont, (tuple, list, frozenset, set)):
            parts = [self.eq(x, c) for c in cont]
            if all(isinstance(p, bool) for p in parts):
                return any(parts)
            return z3.Or(*[_z(p) for p in parts])
        if isinstance(cont, VTuple):
            parts = [self.eq(x, c) for c in cont.items]
            if all(isinstance(p, bool) for p in parts):
                return any(parts)
            return z3.Or(*[_z(p) for p in parts])
        if isinstance(cont, VList):
            i = self.fresh_term(z3.IntSort(), "i")
            return z3.Exists([i], z3.And(i >= 0, i < cont.n, cont.arr[i] == cont.ety.unwrap(x)))
        h = getattr(self.world, "contains", None)
        if h is not None:
            out = h(self, cont, x, node)
            if out is not NotImplemented:
                return out
        raise Unsupported(f"`in` on {cont!r}")

    def truth(self, v):
        if v is None:
            return False
        if isinstance(v, (bool, int, str, bytes, float, tuple, list, frozenset)):
            return bool(v)
        if isinstance(v, VBool):
            return v.t
        if isinstance(v, VInt):
            return v.t != 0
        if isinstance(v, VBits):
            return v.t != 0
        if isinstance(v, VReal):
            return v.t != 0
        if isinstance(v, VOpt):
            inner = self.truth(v.val)
            return v.some if inner is True else z3.And(v.some, _z(inner))
        if isinstance(v, VRef):
            return v.ty.truthy(v.t) if v.ty.truthy else True
        if isinstance(v, VStr):
            return z3.Length(v.t) > 0
        if isinstance(v, VSet):
            x = self.fresh_term(v.ety.sort, "w")
            return z3.Exists([x], v.t[x])
        if isinstance(v, VList):
            return v.n > 0
        if isinstance(v, VDict):
            x = self.fresh_term(v.kty.sort, "w")
            return z3.Exists([x], v.dom[x])
        if isinstance(v, VBound) and getattr(v, "unknown", False):
            # e.g. an instance attribute introduced by a change that the sidecar gives no value: its truth is not known
            raise Unsupported(f"truth of the unknown attribute `{v.name}` (the spec gives this field no value)")
        if isinstance(v, (VObj, VFunc, VClass, VBound, VGlobal, VTuple)):
            return True if not isinstance(v, VTuple) else len(v.items) > 0
        if isinstance(v, VOpaque):
            if v.kind in ("emptylist", "emptyset", "emptydict"):
                return False
            if v.kind == "listofset":
                return self.truth(v.data)
            return True
        raise Unsupported(f"truth of {v!r}")

    def ex_Subscript(self, e):
        cont = self.ev(e.value)
        if isinstance(e.slice, ast.Slice):
            lo = self.ev(e.slice.lower) if e.slice.lower is not None else None
            hi = self.ev(e.slice.upper) if e.slice.upper is not None else None
            return self.slice(cont, lo, hi, e)
        idx = self.ev(e.slice)
        return self.load_item(cont, idx, e)

    def slice(self, cont, lo, hi, node):
        if isinstance(cont, VStr):
            n = z3.Length(cont.t)
            a = TInt.unwrap(lo) if lo is not None else z3.IntVal(0)
            b = TInt.unwrap(hi) if hi is not None else n
            # Python clamps; indices here are non-negative by construction (obligation)
            self.oblige(f"slice-nonneg[{self.site(node)}]", z3.And(a >= 0, b >= 0), kind="safety", site=self.site(node))
            b2 = z3.If(b > n, n, b)
            ln = z3.If(b2 - a > 0, b2 - a, 0)
            return VStr(z3.SubString(cont.t, a, ln), cont.kind)
        h = getattr(self.world, "slice", None)
        if h is not None:
            out = h(self, cont, lo, hi, node)
            if out is not NotImplemented:
                return out
        raise Unsupported(f"slice of {cont!r}")

    def load_item(self, cont, idx, node):
        if isinstance(cont, VDict):
            if isinstance(idx, VOpt):
                self.implicit_exc("KeyError", idx.some, self.site(node))
                idx = idx.val
            k = cont.kty.unwrap(idx)
            if cont.default is not None:
                # defaultdict: a missing key is inserted with the default
                if self.branch(z3.Select(cont.dom, k), "defaultdict-hit"):
                    return cont.vty.wrap(z3.Select(cont.val, k))
                dv = cont.vty.unwrap(cont.default())
                new = cont.with_(dom=z3.Store(cont.dom, k, True), val=z3.Store(cont.val, k, dv))
                self.assign(_as_store(node.value), new)
                return cont.vty.wrap(dv)
            self.implicit_exc("KeyError", z3.Select(cont.dom, k), self.site(node))
            return cont.vty.wrap(z3.Select(cont.val, k))
        if isinstance(cont, VList):
            i = self._list_index(cont, idx)
            self.implicit_exc("IndexError", z3.And(i >= 0, i < cont.n), self.site(node))
            return cont.ety.wrap(z3.Select(cont.arr, i))
        if isinstance(cont, (VTuple, tuple, list)):
            items = cont.items if isinstance(cont, VTuple) else list(cont)
            if isinstance(idx, int):
                return items[idx]
            raise Unsupported("symbolic tuple index")
        if isinstance(cont, VOpt):
            self.oblige(f"no-TypeError-on-None[{self.site(node)}]", cont.some, kind="safety", site=self.site(node))
            self.assume(cont.some)
            return self.load_item(cont.val, idx, node)
        h = getattr(self.world, "load_item", None)
        if h is not None:
            out = h(self, cont, idx, node)
            if out is not NotImplemented:
                return out
        raise Unsupported(f"subscript of {cont!r}")

    # ---- comprehensions
    def ex_ListComp(self, e):
        return self._comp(e, "list")

    def ex_SetComp(self, e):
        return self._comp(e, "set")

    def ex_GeneratorExp(self, e):
        return VOpaque("genexp", (e, self.scope))

    def _comp(self, e, kind):
        if len(e.generators) != 1:
            raise Unsupported("nested comprehension")
        g = e.generators[0]
        it = self.ev(g.iter)
        if isinstance(it, VDict):
            it = VSet(it.dom, it.kty)
        if isinstance(it, VOpaque) and it.kind in ("emptylist", "emptyset", "emptydict"):
            it = []
        if isinstance(it, (tuple, list, frozenset)):
            out = []
            for x in it:
                sc = Scope(self.scope)
                old, self.scope = self.scope, sc
                try:
                    self.assign(g.target, x)
                    conds = [self.ev_truth((c)) for c in g.ifs]
                    if all(isinstance(c, bool) for c in conds):
                        if all(conds):
                            out.append(self.ev(e.elt))
                    else:
                        raise Unsupported("symbolic filter over concrete collection")
                finally:
                    self.scope = old
            return out if kind == "list" else frozenset(out)
        if isinstance(it, VSet):
            x = self.fresh_term(it.ety.sort, "c")
            sc = Scope(self.scope)
            old, self.scope = self.scope, sc
            saved = len(self.pc)
            try:
                self.assign(g.target, it.ety.wrap(x))
                self.pc.append(it.t[x])
                conds = [_z(self.ev_truth((c))) for c in g.ifs]
                for c in conds:
                    self.pc.append(c)
                elt = self.ev(e.elt)
            finally:
                self.scope = old
                del self.pc[saved:]
            ety = ty_of(elt)
            et = ety.unwrap(elt)
            cond = z3.And(it.t[x], *conds)
            ident = ety.sort == it.ety.sort and z3.eq(z3.simplify(et), z3.simplify(it.ety.unwrap(it.ety.wrap(x))))
            if not ident and ety.sort == it.ety.sort and isinstance(elt, VTuple) and isinstance(it.ety, TTup):
                try:
                    ident = all(z3.eq(ty_of(i).unwrap(i), pj(x)) for i, pj in zip(elt.items, it.ety.proj))
                except Unsupported:
                    ident = False
            if ident:
                A = self.fresh_term(it.t.sort(), "comp")
                self.assume(z3.ForAll([x], A[x] == cond))
                return VSet(A, it.ety) if kind == "set" else VOpaque("listofset", VSet(A, it.ety))
            A = self.fresh_term(z3.ArraySort(ety.sort, z3.BoolSort()), "comp")
            y = self.fresh_term(ety.sort, "cy")
            self.assume(z3.ForAll([y], A[y] == z3.Exists([x], z3.And(cond, et == y))))
            return VSet(A, ety) if kind == "set" else VOpaque("listofset", VSet(A, ety))
        if isinstance(it, VList):
            if g.ifs:
                raise Unsupported("filtered comprehension over a list")
            k = self.fresh_term(z3.IntSort(), "ci")
            sc = Scope(self.scope)
            old, self.scope = self.scope, sc
            saved = len(self.pc)
            try:
                self.pc.append(z3.And(k >= 0, k < it.n))
                self.assign(g.target, it.ety.wrap(it.arr[k]))
                elt = self.ev(e.elt)
            finally:
                self.scope = old
                del self.pc[saved:]
            ety = ty_of(elt)
            arr = self.fresh_term(z3.ArraySort(z3.IntSort(), ety.sort), "map")
            self.assume(z3.ForAll([k], z3.Implies(z3.And(k >= 0, k < it.n), arr[k] == ety.unwrap(elt))))
            res = VList(it.n, arr, ety)
            if kind == "set":
                raise Unsupported("set comprehension over list")
            return res
        raise Unsupported(f"comprehension over {it!r}")

    def deopt(self, v, what):
        """use of a possibly-None value where None would raise TypeError"""
        if isinstance(v, VOpt):
            self.oblige(f"no-TypeError-on-None[{what}]", v.some, kind="safety", site=what)
            self.assume(v.some)
            return v.val
        return v

    def quantify_gen(self, gen, mode):
        """any()/all() over a generator expression."""
        e, scope = gen.data
        if len(e.generators) == 2 and mode == "any":
            # any(f(r,p) for r in A for p in B)
            g0, g1 = e.generators
            inner = ast.GeneratorExp(elt=e.elt, generators=[g1])
            outer = ast.GeneratorExp(elt=ast.Call(func=ast.Name(id="any", ctx=ast.Load()), args=[inner], keywords=[]), generators=[g0])
            return self.quantify_gen(VOpaque("genexp", (outer, scope)), "any")
        if len(e.generators) != 1:
            raise Unsupported("nested generator")
        g = e.generators[0]
        old = self.scope
        self.scope = Scope(scope)
        try:
            it = self.deopt(self.ev(g.iter), self.site(g.iter))
            if isinstance(it, VDict):
                it = VSet(it.dom, it.kty)
            if isinstance(it, VOpaque) and it.kind == "emptylist":
                it = []
            if isinstance(it, VOpaque) and it.kind == "listofset":
                it = it.data
            if isinstance(it, (tuple, list, frozenset, set)):
                parts = []
                for x in it:
                    self.assign(g.target, x)
                    conds = [self.ev_truth((c)) for c in g.ifs]
                    t = self.ev_truth((e.elt))
                    if mode == "any":
                        parts.append(z3.And(*[_z(c) for c in conds], _z(t)))
                    else:
                        parts.append(z3.Implies(z3.And(*[_z(c) for c in conds]) if conds else z3.BoolVal(True), _z(t)))
                if not parts:
                    return mode == "all"
                r = z3.simplify(z3.Or(*parts) if mode == "any" else z3.And(*parts))
                return True if z3.is_true(r) else False if z3.is_false(r) else VBool(r)
            if isinstance(it, VSet):
                x = self.fresh_term(it.ety.sort, "q")
                saved = len(self.pc)
                try:
                    self.assign(g.target, it.ety.wrap(x))
                    self.pc.append(it.t[x])
                    conds = [_z(self.ev_truth((c))) for c in g.ifs]
                    for c in conds:
                        self.pc.append(c)
                    t = _z(self.ev_truth((e.elt)))
                finally:
                    del self.pc[saved:]
                if mode == "any":
                    return VBool(z3.Exists([x], z3.And(it.t[x], *conds, t)))
                return VBool(z3.ForAll([x], z3.Implies(z3.And(it.t[x], *conds), t)))
            if isinstance(it, VList):
                k = self.fresh_term(z3.IntSort(), "qi")
                saved = len(self.pc)
                try:
                    rng = z3.And(k >= 0, k < it.n)
                    self.pc.append(rng)
                    self.assign(g.target, it.ety.wrap(it.arr[k]))
                    conds = [_z(self.ev_truth((c))) for c in g.ifs]
                    for c in conds:
                        self.pc.append(c)
                    t = _z(self.ev_truth((e.elt)))
                finally:
                    del self.pc[saved:]
                if mode == "any":
                    return VBool(z3.Exists([k], z3.And(rng, *conds, t)))
                return VBool(z3.ForAll([k], z3.Implies(z3.And(rng, *conds), t)))
            h = getattr(self.world, "quantify", None)
            if h is not None:
                out = h(self, it, g, e, mode)
                if out is not NotImplemented:
                    return out
            raise Unsupported(f"any/all over {it!r}")
        finally:
            self.scope = old

    # ------------------------------------------------------------ calls
    def ex_Call(self, e):
        src = self.site(e.func)
        if src in self._calls:
            return self._calls[src](self, e)
        d = _dotted(e.func)
        if d is not None and d.split(".")[0] == "logger":
            return None
        fv = self.ev(e.func)
        args = []
        for a in e.args:
            if isinstance(a, ast.Starred):
                raise Unsupported("*args")
            args.append(self.ev(a))
        kwargs = {k.arg: self.ev(k.value) for k in e.keywords if k.arg is not None}
        return self.call(fv, args, kwargs, e)

    def call(self, fv, args, kwargs, node):
        if isinstance(fv, VFunc):
            return self.call_func(fv, args, kwargs)
        if isinstance(fv, VGlobal):
            return self.call_global(fv.dotted, args, kwargs, node)
        if isinstance(fv, VBound):
            return self.call_method(fv.recv, fv.name, args, kwargs, node)
        if isinstance(fv, VClass):
            return self.construct(fv, args, kwargs, node)
        if isinstance(fv, VOpaque) and fv.kind == "callable":
            return fv.data(self, args, kwargs, node)
        raise Unsupported(f"call of {fv!r} at {self.site(node)}")

    def call_func(self, fv: VFunc, args, kwargs, recv=None):
        node = fv.node
        params = node.args
        env = {}
        names = [a.arg for a in params.args]
        if recv is not None:
            args = [recv] + list(args)
        defaults = params.defaults
        for i, nm in enumerate(names):
            if i < len(args):
                env[nm] = args[i]
            elif nm in kwargs:
                env[nm] = kwargs[nm]
            else:
                di = i - (len(names) - len(defaults))
                if di < 0:
                    raise Unsupported(f"missing argument {nm}")
                env[nm] = self._default_value(defaults[di])
        for a, d in zip(params.kwonlyargs, params.kw_defaults):
            if a.arg in kwargs:
                env[a.arg] = kwargs[a.arg]
            elif d is not None:
                env[a.arg] = self._default_value(d)
            else:
                raise Unsupported(f"missing kw argument {a.arg}")
        old = self.scope
        self.scope = Scope(fv.scope, env)
        try:
            if isinstance(node, ast.Lambda):
                return self.ev(node.body)
            try:
                body = node.body
                if body and isinstance(body[0], ast.Expr) and isinstance(body[0].value, ast.Constant) and isinstance(body[0].value.value, str):
                    body = body[1:]
                self.exec_block(body)
                return None
            except _Return as r:
                return r.value
        finally:
            self.scope = old

    def call_repo(self, ref: source.FnRef, recv, args, kwargs, node):
        """A call to another function of the repository: contract if the spec has one, else inline if allowed."""
        key = ref.qualname
        h = self._globals.get(key)
        if h is not None and callable(h):
            return h(self, recv, args, kwargs, node)
        fallback = key not in self.spec.inline and "*" not in self.spec.inline
        if fallback:
            # a callee the sidecar spec does not know (e.g. a helper introduced by a refactoring): inlining the real body is
            # always sound; bounded depth so that recursion ends as Unsupported (undecided), never as a verdict
            self._fallback_depth = getattr(self, "_fallback_depth", 0) + 1
            if self._fallback_depth > 4 or getattr(self.spec, "no_fallback_inline", False):
                self._fallback_depth -= 1
                raise Unsupported(f"call to {key} has neither a contract nor inline permission in {self.spec.qualname}")
        try:
            cls_prev = getattr(self, "_cur_cls", None)
            self._cur_cls = ref.qualname.split(".")[0] if ref.cls is not None else None
            try:
                return self.call_func(VFunc(ref.node, Scope(None, {"__module__": ref.relpath}), key), args, kwargs, recv=None if ref.is_static or ref.cls is None else recv)
            finally:
                self._cur_cls = cls_prev
        finally:
            if fallback:
                self._fallback_depth -= 1

    def call_method(self, recv, name, args, kwargs, node):
        if isinstance(recv, VObj):
            key = f"{recv.cls}.{name}"
            if key in self._globals and callable(self._globals[key]):
                return self._globals[key](self, recv, args, kwargs, node)
            if (recv.id, name) in self.heap:
                return self.call(self.heap[(recv.id, name)], args, kwargs, node)
            fm = source.find_method(recv.cls, name, self.classes)
            if fm is not None:
                return self.call_repo(source.FnRef(*fm), recv, args, kwargs, node)
            # method of a base class outside the package: the spec must provide it
            for c in source.mro(recv.cls, self.classes):
                k2 = f"{c}.{name}"
                if k2 in self._globals and callable(self._globals[k2]):
                    return self._globals[k2](self, recv, args, kwargs, node)
            raise Unsupported(f"method {key} unknown")
        if isinstance(recv, VClass):
            key = f"{recv.name}.{name}"
            if key in self._globals and callable(self._globals[key]):
                return self._globals[key](self, None, args, kwargs, node)
            fm = source.find_method(recv.name, name, self.classes)
            if fm is not None:
                ref = source.FnRef(*fm)
                if ref.is_static:
                    return self.call_repo(ref, None, args, kwargs, node)
                return self.call_repo(ref, args[0], args[1:], kwargs, node)
            raise Unsupported(f"class attribute call {key}")
        if isinstance(recv, VRef):
            h = recv.ty.methods.get(name)
            if h is None:
                raise Unsupported(f"method {name} of {recv!r}")
            return h(self, recv, args, kwargs, node)
        if isinstance(recv, VOpaque) and recv.kind == "super":
            obj, cur = recv.data
            chain = source.mro(obj.cls, self.classes)
            after = chain[chain.index(cur) + 1 :] if cur in chain else chain
            for c in after:
                rel, cn = self.classes[c]
                for s in cn.body:
                    if isinstance(s, ast.FunctionDef) and s.name == name:
                        return self.call_repo(source.FnRef(rel, f"{c}.{name}"), obj, args, kwargs, node)
            key = f"super.{name}"
            if key in self._globals:
                return self._globals[key](self, obj, args, kwargs, node)
            raise Unsupported(f"super().{name} leaves the package and the spec has no contract for it")
        if isinstance(recv, VOpaque) and recv.kind not in ("emptylist", "emptyset", "emptydict", "listofset"):
            key = f"{recv.kind}.{name}"
            if key in self._globals:
                return self._globals[key](self, recv, args, kwargs, node)
            raise Unsupported(f"method {name} on opaque {recv.kind}")
        from . import builtins_model

        if name in self.MUTATORS and isinstance(node, ast.Call) and isinstance(node.func, ast.Attribute) and self.site(node.func.value) in self._iterating:
            self.oblige(f"no-mutation-while-iterating[{self.site(node)}: the collection being walked by the enclosing for-loop is changed in its body (the iterator skips / repeats elements, or raises RuntimeError)]",
                        False, kind="safety", site=self.site(node))
        return builtins_model.method(self, recv, name, args, kwargs, node)

    def call_global(self, dotted, args, kwargs, node):
        h = self._globals.get(dotted)
        if h is not None and callable(h):
            return h(self, args, kwargs, node)
        # functions of the same module
        if dotted in self.ref.mod.functions:
            return self.call_repo(source.FnRef(self.ref.relpath, dotted), None, args, kwargs, node)
        from . import builtins_model

        return builtins_model.function(self, dotted, args, kwargs, node)

    def construct(self, cls: VClass, args, kwargs, node):
        key = cls.name
        h = self._globals.get(key)
        if h is not None and callable(h):
            return h(self, args, kwargs, node)
        fm = source.find_method(cls.name, "__init__", self.classes)
        if fm is not None and (fm[1] in self.spec.inline or "*" in self.spec.inline):
            obj = VObj(cls.name)
            self.call_repo(source.FnRef(*fm), obj, args, kwargs, node)
            return obj
        raise Unsupported(f"constructor {cls.name} has no contract")

    def ex_Yield(self, e):
        v = self.ev(e.value) if e.value is not None else None
        self.spec.on_yield(self, v)
        return None

    def ex_YieldFrom(self, e):
        v = self.ev(e.value)
        h = getattr(self.spec, "on_yield_from", None)
        if h is None:
            raise Unsupported("yield from")
        h(self, v)
        return None

    def ex_Starred(self, e):
        raise Unsupported("starred")

    def ex_Dict(self, e):
        if not e.keys:
            return VOpaque("emptydict")
        # a literal dict of values the verified properties never inspect (e.g. a template context)
        for v in e.values:
            self.ev(v)
        return VOpaque("pydict")


def _z(t):
    return z3.BoolVal(t) if isinstance(t, bool) else t


def _dotted(n):
    if isinstance(n, ast.Name):
        return n.id
    if isinstance(n, ast.Attribute):
        b = _dotted(n.value)
        return None if b is None else b + "." + n.attr
    return None


def _as_load(t):
    t2 = ast.parse(ast.unparse(t), mode="eval").body
    return t2


def _as_store(t):
    return t


def _source_order(fn):
    out = []

    class Vis(ast.NodeVisitor):
        def generic_visit(self, node):
            out.append(node)
            super().generic_visit(node)

    Vis().visit(fn)
    return out
