"""Symbolic values and their types.  Every Python value the engine manipulates is either a plain Python
constant (int/str/bytes/bool/None/tuple/class marker) or one of the V* wrappers around z3 terms below.
Containers are immutable terms (mutation = rebinding at the l-value), which is sound because the engine
rejects aliasing of mutable containers syntactically (see engine.Unsupported)."""
from __future__ import annotations
import z3
from . import ground


class Unsupported(Exception):
    pass


# ------------------------------------------------------------------ types
class Ty:
    sort: z3.SortRef

    def wrap(self, term):
        raise NotImplementedError

    def unwrap(self, val):
        raise NotImplementedError

    def fresh(self, hint="v"):
        return self.wrap(z3.FreshConst(self.sort, hint))


class _TInt(Ty):
    sort = z3.IntSort()

    def wrap(self, t):
        return VInt(t)

    def unwrap(self, v):
        if isinstance(v, bool):
            return z3.IntVal(int(v))
        if isinstance(v, int):
            return z3.IntVal(v)
        if isinstance(v, VInt):
            return v.t
        raise Unsupported(f"int expected, got {v!r}")


class _TReal(Ty):
    sort = z3.RealSort()

    def wrap(self, t):
        return VReal(t)

    def unwrap(self, v):
        if isinstance(v, (int, float)):
            return z3.RealVal(v)
        if isinstance(v, VReal):
            return v.t
        if isinstance(v, VInt):
            return z3.ToReal(v.t)
        raise Unsupported(f"real expected, got {v!r}")


class _TBool(Ty):
    sort = z3.BoolSort()

    def wrap(self, t):
        return VBool(t)

    def unwrap(self, v):
        if isinstance(v, bool):
            return z3.BoolVal(v)
        if isinstance(v, VBool):
            return v.t
        raise Unsupported(f"bool expected, got {v!r}")


class TBitsC(Ty):
    def __init__(self, width=32):
        self.width = width
        self.sort = z3.BitVecSort(width)

    def wrap(self, t):
        return VBits(t, self)

    def unwrap(self, v):
        if isinstance(v, int):
            return z3.BitVecVal(v, self.width)
        if isinstance(v, VBits):
            return v.t
        raise Unsupported(f"bits expected, got {v!r}")


class TStrC(Ty):
    """str or bytes with content (SMT-LIB strings); kind is 'str' or 'bytes' (a static tag)."""

    def __init__(self, kind="str"):
        self.kind = kind
        self.sort = z3.StringSort()

    def wrap(self, t):
        return VStr(t, self.kind)

    def unwrap(self, v):
        if isinstance(v, str) and self.kind == "str":
            return z3.StringVal(v)
        if isinstance(v, bytes) and self.kind == "bytes":
            return z3.StringVal(v.decode("latin-1"))
        if isinstance(v, VStr):
            return v.t
        raise Unsupported(f"{self.kind} expected, got {v!r}")


class TRef(Ty):
    """Opaque values of an uninterpreted (or finite, or datatype) sort, e.g. Path, Handler, Emitter."""

    def __init__(self, name, sort=None, truthy=None, methods=None, attrs=None):
        self.name = name
        self.sort = sort if sort is not None else ground.usort(name)
        self.truthy = truthy  # term -> z3 Bool, or None (always truthy)
        self.methods = methods or {}  # name -> handler(ex, recv, args, kwargs, node)
        self.attrs = attrs or {}  # name -> handler(ex, recv)

    def wrap(self, t):
        return VRef(t, self)

    def unwrap(self, v):
        if isinstance(v, VRef) and v.ty.sort == self.sort:
            return v.t
        raise Unsupported(f"{self.name} expected, got {v!r}")


def _san(x):
    out = "".join(ch if (ch.isalnum() or ch == "_") else "_" for ch in str(x))
    while "__" in out:
        out = out.replace("__", "_")
    return out.strip("_")


class TTup(Ty):
    _cache: dict = {}

    def __init__(self, *tys, name=None):
        self.tys = tys
        key = _san(name or ("Tup_" + "_".join(str(t.sort) for t in tys)))
        sig = tuple(t.sort for t in tys)
        k2 = key
        n = 0
        while k2 in TTup._cache and TTup._cache[k2][0] != sig:
            n += 1
            k2 = f"{key}_v{n}"
        if k2 not in TTup._cache:
            dt = z3.Datatype(k2)
            dt.declare("mk_" + k2, *[(f"{k2}_f{i}", t.sort) for i, t in enumerate(tys)])
            srt = dt.create()
            TTup._cache[k2] = (sig, srt, srt.constructor(0), [srt.accessor(0, i) for i in range(len(tys))])
        _sig, self.sort, self.mk, self.proj = TTup._cache[k2]

    def wrap(self, t):
        return VTuple([ty.wrap(z3.simplify(p(t))) if False else ty.wrap(p(t)) for ty, p in zip(self.tys, self.proj)], self, t)

    def unwrap(self, v):
        if isinstance(v, VTuple):
            if v.term is not None and v.ty is not None and v.ty.sort == self.sort:
                return v.term
            if len(v.items) != len(self.tys):
                raise Unsupported("tuple arity")
            return self.mk(*[ty.unwrap(x) for ty, x in zip(self.tys, v.items)])
        if isinstance(v, tuple):
            return self.mk(*[ty.unwrap(x) for ty, x in zip(self.tys, v)])
        raise Unsupported(f"tuple expected, got {v!r}")


class TSet(Ty):
    def __init__(self, ety: Ty):
        self.ety = ety
        self.sort = z3.ArraySort(ety.sort, z3.BoolSort())

    def wrap(self, t):
        return VSet(t, self.ety)

    def unwrap(self, v):
        if isinstance(v, VSet) and v.ety.sort == self.ety.sort:
            return v.t
        if isinstance(v, (set, frozenset, list, tuple)):     # a set display / literal of symbolic elements
            t = z3.K(self.ety.sort, z3.BoolVal(False))
            for x in v:
                t = z3.Store(t, self.ety.unwrap(x), True)
            return t
        if isinstance(v, VOpaque) and v.kind == "emptyset":
            return z3.K(self.ety.sort, z3.BoolVal(False))
        raise Unsupported(f"set expected, got {v!r}")

    def empty(self):
        return VSet(z3.K(self.ety.sort, z3.BoolVal(False)), self.ety)


class TOpt(Ty):
    """Optional[T] as a (some, val) pair."""

    def __init__(self, ty: Ty):
        self.ty = ty
        self._tt = TTup(TBool, ty, name="Opt_" + str(ty.sort))
        self.sort = self._tt.sort

    def wrap(self, t):
        return VOpt(self._tt.proj[0](t), self.ty.wrap(self._tt.proj[1](t)))

    def unwrap(self, v):
        if v is None:
            return self._tt.mk(z3.BoolVal(False), z3.FreshConst(self.ty.sort, "none"))
        if isinstance(v, VOpt):
            return self._tt.mk(v.some, self.ty.unwrap(v.val))
        return self._tt.mk(z3.BoolVal(True), self.ty.unwrap(v))


class TDict(Ty):
    def __init__(self, kty: Ty, vty: Ty, default=None):
        self.kty, self.vty, self.default = kty, vty, default
        self._tt = TTup(TSet(kty), _ArrTy(kty, vty), name="Dict_%s_%s" % (kty.sort, vty.sort))
        self.sort = self._tt.sort

    def wrap(self, t):
        return VDict(self._tt.proj[0](t), self._tt.proj[1](t), self.kty, self.vty, self.default)

    def unwrap(self, v):
        if isinstance(v, VDict):
            return self._tt.mk(v.dom, v.val)
        raise Unsupported(f"dict expected, got {v!r}")

    def empty(self):
        return VDict(z3.K(self.kty.sort, z3.BoolVal(False)), z3.FreshConst(z3.ArraySort(self.kty.sort, self.vty.sort), "dv"), self.kty, self.vty, self.default)


class _ArrTy(Ty):
    def __init__(self, kty, vty):
        self.sort = z3.ArraySort(kty.sort, vty.sort)

    def wrap(self, t):
        return t

    def unwrap(self, v):
        return v


class TList(Ty):
    def __init__(self, ety: Ty):
        self.ety = ety
        self._tt = TTup(TInt, _ArrTy(TInt, ety), name="List_%s" % ety.sort)
        self.sort = self._tt.sort

    def wrap(self, t):
        return VList(self._tt.proj[0](t), self._tt.proj[1](t), self.ety)

    def unwrap(self, v):
        if isinstance(v, VList):
            return self._tt.mk(v.n, v.arr)
        raise Unsupported(f"list expected, got {v!r}")

    def empty(self):
        return VList(z3.IntVal(0), z3.FreshConst(z3.ArraySort(z3.IntSort(), self.ety.sort), "la"), self.ety)


TInt, TReal, TBool = _TInt(), _TReal(), _TBool()
TBits = TBitsC(32)
TStr, TBytes = TStrC("str"), TStrC("bytes")


# ------------------------------------------------------------------ values
class V:
    pass


class VInt(V):
    def __init__(self, t):
        self.t = t

    def __repr__(self):
        return f"VInt({self.t})"


class VReal(V):
    def __init__(self, t):
        self.t = t


class VBool(V):
    def __init__(self, t):
        self.t = t

    def __repr__(self):
        return f"VBool({self.t})"


class VBits(V):
    def __init__(self, t, ty=TBits):
        self.t, self.ty = t, ty


class VStr(V):
    def __init__(self, t, kind="str"):
        self.t, self.kind = t, kind

    def __repr__(self):
        return f"VStr[{self.kind}]({self.t})"


class VRef(V):
    def __init__(self, t, ty: TRef):
        self.t, self.ty = t, ty

    def __repr__(self):
        return f"VRef[{self.ty.name}]({self.t})"


class VOpt(V):
    def __init__(self, some, val):
        self.some, self.val = some, val

    def __repr__(self):
        return f"VOpt({self.some},{self.val})"


class VTuple(V):
    def __init__(self, items, ty: TTup | None = None, term=None):
        self.items, self.ty, self.term = list(items), ty, term

    def __repr__(self):
        return f"VTuple({self.items})"


class VSet(V):
    def __init__(self, t, ety: Ty):
        self.t, self.ety = t, ety

    def has(self, x):
        return z3.Select(self.t, x)


class VDict(V):
    def __init__(self, dom, val, kty: Ty, vty: Ty, default=None):
        self.dom, self.val, self.kty, self.vty, self.default = dom, val, kty, vty, default

    def with_(self, dom=None, val=None):
        return VDict(self.dom if dom is None else dom, self.val if val is None else val, self.kty, self.vty, self.default)


class VList(V):
    def __init__(self, n, arr, ety: Ty):
        self.n, self.arr, self.ety = n, arr, ety

    def __repr__(self):
        return f"VList(n={self.n})"


class VObj(V):
    """A Python object with mutable fields kept in the executor's heap; `cls` is the name of its real class."""

    _n = 0

    def __init__(self, cls: str, tag=None):
        VObj._n += 1
        self.id = VObj._n
        self.cls = cls
        self.tag = tag

    def __repr__(self):
        return f"VObj<{self.cls}#{self.id}>"


class VClass(V):
    def __init__(self, name):
        self.name = name

    def __repr__(self):
        return f"VClass({self.name})"

    def __eq__(self, o):
        return isinstance(o, VClass) and o.name == self.name

    def __hash__(self):
        return hash(("VClass", self.name))


class VFunc(V):
    def __init__(self, node, scope, name=None):
        self.node, self.scope, self.name = node, scope, name


class VBound(V):
    def __init__(self, recv, name):
        self.recv, self.name = recv, name


class VGlobal(V):
    """A dotted global name that the spec resolves (os.path.join, time.time, S_ISDIR, ...)."""

    def __init__(self, dotted):
        self.dotted = dotted

    def __repr__(self):
        return f"VGlobal({self.dotted})"


class VExc(V):
    """A raised/caught exception instance: class name + optional symbolic payload (errno)."""

    def __init__(self, cls: str, payload=None):
        self.cls, self.payload = cls, payload or {}

    def __repr__(self):
        return f"VExc({self.cls})"


class VOpaque(V):
    """A value the engine carries around but never inspects (locks, callables given by the spec...)."""

    def __init__(self, kind, data=None):
        self.kind, self.data = kind, data

    def __repr__(self):
        return f"VOpaque({self.kind})"


def ty_of(v) -> Ty:
    if isinstance(v, bool):
        return TBool
    if isinstance(v, int):
        return TInt
    if isinstance(v, VInt):
        return TInt
    if isinstance(v, VBool):
        return TBool
    if isinstance(v, VReal) or isinstance(v, float):
        return TReal
    if isinstance(v, VBits):
        return v.ty
    if isinstance(v, VStr):
        return TStr if v.kind == "str" else TBytes
    if isinstance(v, str):
        return TStr
    if isinstance(v, bytes):
        return TBytes
    if isinstance(v, VRef):
        return v.ty
    if isinstance(v, VTuple):
        return v.ty if v.ty is not None else TTup(*[ty_of(x) for x in v.items])
    if isinstance(v, VSet):
        return TSet(v.ety)
    if isinstance(v, VList):
        return TList(v.ety)
    if isinstance(v, VDict):
        return TDict(v.kty, v.vty, v.default)
    if isinstance(v, VOpt):
        return TOpt(ty_of(v.val))
    raise Unsupported(f"no SMT type for {v!r}")


EXC_PARENTS = {
    "BaseException": None,
    "Exception": "BaseException",
    "OSError": "Exception",
    "PermissionError": "OSError",
    "FileNotFoundError": "OSError",
    "NotADirectoryError": "OSError",
    "KeyError": "LookupError",
    "IndexError": "LookupError",
    "LookupError": "Exception",
    "ValueError": "Exception",
    "TypeError": "Exception",
    "RuntimeError": "Exception",
    "AttributeError": "Exception",
    "ImportError": "Exception",
    "StopIteration": "Exception",
    "queue.Empty": "Exception",
    "queue.Full": "Exception",
    "UnsupportedLibcError": "Exception",
    "WatchdogShutdownError": "Exception",
}


def exc_is(cls: str, handler: str) -> bool:
    c = cls
    while c is not None:
        if c == handler:
            return True
        c = EXC_PARENTS.get(c)
    return False
