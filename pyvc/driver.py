"""Check driver: runs the contract verification of one property and produces verdict, evidence, replay files.

Exit codes: 0 held / 1 violation (VIOLATION line printed) / 2 undecided / 3 checker crash.
"""
from __future__ import annotations
import ast, copy, hashlib, importlib, json, os, subprocess, sys, time, traceback
import z3
from . import source, sym, engine, solve, ground

VERIF = os.path.dirname(os.path.dirname(os.path.abspath(__file__)))
NATIVE_PY = "/venv/bin/python"


class PropertyCheck:
    """A spec module exposes: PROP, TITLE, make_specs() -> list[FnSpec], optional lemmas(world) -> list[Obligation],
    EXPECTED_CLAUSES (names that must occur among obligations), CANARIES, battery config, ASSUMPTIONS, TRUSTED,
    UNDECIDED_PARTS (sentences of the statement not decided)."""


def _load_known():
    p = os.path.join(VERIF, "known_findings.json")
    if not os.path.exists(p):
        return []
    return json.load(open(p))


def _keep_partial(ex, sp, obs):
    """obligations generated on the paths explored before the executor gave up are genuine (each is pc => goal on a real
    path prefix): keep them, so a refutation among them is still reported; the function as a whole stays undecided"""
    try:
        if ex is None or ex.spec is not sp:
            return
        for ob in ex.obligations:
            ob.fn = sp.qualname
            ob.spec = sp
        obs.extend(ex.obligations)
    except Exception:
        pass


def run_specs(mod, scope=None, only=None):
    """Symbolically execute every function under contract; returns (obligations, per-function info, undecided list)."""
    sym_scope_prev = ground.SCOPE
    ground.SCOPE = scope
    try:
        specs = mod.make_specs()
        if only:
            sel = [sp for sp in specs if sp.qualname in only]
            # a canary inside an inlined helper has no spec of its own: re-run everything
            inl = [sp for sp in specs if any(o in getattr(sp, "inline", ()) for o in only)]
            specs = sel or inl or specs
        obs, info, undecided, covers = [], [], [], []
        for sp in specs:
            t0 = time.time()
            ex = None
            try:
                ex = engine.Ex(sp, getattr(sp, "world", None))
                o = ex.run()
                missing_loops = [n for n in sp.loops if n not in ex.covered_loops]
                if missing_loops:
                    undecided.append(f"{sp.qualname}: spec has invariants for loops {missing_loops} that the function no longer reaches (spec drift)")
                for ob in o:
                    ob.fn = sp.qualname
                    ob.spec = sp
                obs.extend(o)
                d = ex.ref.describe()
                d.update(paths=ex.stats.paths, obligations=len(o), exec_s=round(time.time() - t0, 3), covers=sorted(ex.reached))
                if getattr(sp, "tag", None):
                    d["variant"] = sp.tag
                info.append(d)
                # anti-vacuity: expected cover labels and the path conditions that reach them
                want = set(getattr(sp, "expected_covers", None) or [])
                if getattr(sp, "expected_covers", None) is None:
                    want = {"exit"} if not getattr(sp, "no_exit", False) else set()
                    for n, ls in sp.loops.items():
                        want.add(f"loop{n}.body")
                        if not getattr(ls, "no_end", False):
                            want.add(f"loop{n}.end")
                for lab in sorted(want):
                    if lab not in ex.covers:
                        undecided.append(f"{sp.qualname}{':' + sp.tag if getattr(sp, 'tag', None) else ''}: cover `{lab}` never reached by symbolic execution (vacuity guard)")
                    else:
                        covers.append((sp, lab, ex.covers[lab]))
            except sym.Unsupported as e:
                undecided.append(f"{sp.qualname}: unsupported construct: {e}")
                _keep_partial(ex, sp, obs)
            except LookupError as e:
                undecided.append(f"{sp.qualname}: {e}")
                _keep_partial(ex, sp, obs)
            except Exception as e:   # the sidecar contract could not follow the code's shape: undecided, never a verdict; what was generated so far is kept
                import traceback
                tb = traceback.extract_tb(e.__traceback__)[-1]
                undecided.append(f"{sp.qualname}: contract could not be evaluated on this code ({type(e).__name__}: {e} at {os.path.basename(tb.filename)}:{tb.lineno}) - spec drift")
                _keep_partial(ex, sp, obs)
        if hasattr(mod, "lemmas") and not only:
            for ob in mod.lemmas():
                ob.spec = None
                obs.append(ob)
        run_specs.last_covers = covers
        return obs, info, undecided
    finally:
        ground.SCOPE = sym_scope_prev


def obligation_id(prop, ob):
    return f"{prop}.{ob.fn}.{ob.name}"


def verify(mod, tier, seed, only_fn=None, fast=False):
    """Full proof pass.  Returns dict with results per obligation."""
    source.reset()
    obs, info, undecided = run_specs(mod)
    if only_fn:
        obs = [o for o in obs if o.fn == only_fn]
    timeout = 20000 if tier == "quick" else 120000
    # vacuity guard: `False` must NOT be provable from the path condition of at least one path reaching each cover
    cov_labels = []
    ok_labels = set()
    pending = []
    for sp, lab, pcs in run_specs.last_covers:
        key = (sp.qualname + (":" + sp.tag if getattr(sp, "tag", None) else ""), lab)
        cov_labels.append(key)
        pending.append((key, sp, lab, pcs))
    # infeasible paths may reach a label first (cheap feasibility pruning is incomplete): look for one consistent
    # path condition per label, a few candidates per round, all labels of a round in one solver batch
    rnd = 0
    while pending and rnd < 12:
        batch, owners = [], []
        for key, sp, lab, pcs in pending:
            for pc in pcs[rnd * 4:(rnd + 1) * 4]:
                batch.append(engine.Obligation(f"cover[{lab}]", "cover", pc, z3.BoolVal(False), lab, sp.qualname))
                owners.append(key)
        if not batch:
            break
        cres = solve.discharge(batch, timeout_ms=1000, seed=seed, fallback=False)
        for key, r in zip(owners, cres):
            if r["verdict"] != "unsat":
                ok_labels.add(key)
        pending = [p for p in pending if p[0] not in ok_labels and len(p[3]) > (rnd + 1) * 4]
        rnd += 1
    cov_idx = cov_labels
    for k in sorted(set(cov_idx)):
        if k not in ok_labels:
            undecided.append(f"{k[0]}: every path condition reaching cover `{k[1]}` is inconsistent (vacuous proof guard)")
    verify.cover_stats = {"cover_points": len(set(cov_idx)), "consistent": len(ok_labels)}
    if fast:
        # a native failing input is already in hand: the proof pass only has to name the obligations that break
        res = solve.discharge(obs, timeout_ms=5000, seed=seed, fallback=False)
    else:
        res = solve.discharge(obs, timeout_ms=timeout, seed=seed, confirm=(tier == "thorough"))
    out = []
    for ob, r in zip(obs, res):
        out.append({"id": obligation_id(mod.PROP, ob), "kind": ob.kind, "site": ob.site, "fn": ob.fn, "verdict": {"unsat": "proved", "sat": "refuted", "unknown": "unknown", "error": "unknown"}[r["verdict"]],
                    "backend": r["backend"], "s": r["s"], "tries": r["tries"], "model": r.get("model", ""), "_ob": ob, "confirm": r.get("confirm")})
    return out, info, undecided


def refute_grounded(mod, failed_ids, seed, scopes=(2, 3)):
    """Finite-scope grounded re-run for obligations the unbounded query did not prove: returns {id: (scope, model)}
    for those with a genuine finite counter-model."""
    found = {}
    if not getattr(mod, "GROUNDABLE", False):
        return found
    scopes = tuple(scopes) + tuple(sc for sc in getattr(mod, "GROUND_SCOPES", ()) if sc not in scopes and len(scopes) > 1)
    for scope in scopes:
        todo = [i for i in failed_ids if i not in found]
        if not todo:
            break
        source.reset()
        try:
            obs, _info, _und = run_specs(mod, scope=scope, only=getattr(refute_grounded, "only_fns", None))
        except Exception:
            continue
        for ob in obs:
            oid = obligation_id(mod.PROP, ob)
            if oid not in todo or oid in found:
                continue
            r = ground.check(ob, timeout_ms=8000)
            if r[0] == "sat":
                found[oid] = (scope, r[1])
    return found


def run_battery(mod, tier, seed, repo_src=None):
    """Native bounded contract battery under the repository's own interpreter."""
    script = getattr(mod, "BATTERY", None)
    if not script:
        return None
    env = dict(os.environ)
    env["PYTHONPATH"] = (repo_src or source.SRC) + os.pathsep + os.path.join(VERIF, "native")
    env["VERIF_TIER"] = tier
    env["VERIF_SEED"] = str(seed)
    cmd = [NATIVE_PY, os.path.join(VERIF, "native", script)]
    t0 = time.time()
    try:
        p = subprocess.run(cmd, capture_output=True, text=True, env=env, timeout=1500 if tier == "thorough" else 400)
    except subprocess.TimeoutExpired:
        return {"error": "battery timeout", "failures": [], "cases": 0, "distinct": 0, "samples": [], "s": time.time() - t0}
    lines = [l for l in p.stdout.splitlines() if l.startswith("BATTERY-JSON ")]
    if not lines:
        return {"error": "battery crashed: " + (p.stderr[-1500:] or p.stdout[-500:]), "failures": [], "cases": 0, "distinct": 0, "samples": [], "s": time.time() - t0}
    out = json.loads(lines[-1][len("BATTERY-JSON "):])
    out["s"] = round(time.time() - t0, 2)
    return out


# ------------------------------------------------------------------ canaries
def apply_canary(canary):
    """Mutate the cached AST of the real module in memory (never /repo).  canary: dict(name, file, fn, find, replace)
    where find/replace are source snippets inside the function."""
    m = source.module(canary["file"])
    ref = source.FnRef(canary["file"], canary["fn"])
    seg = ref.source + "\n"
    if seg.count(canary["find"]) < 1:
        raise LookupError(f"canary {canary['name']}: snippet not found in {canary['fn']} (spec drift)")
    new_seg = seg.replace(canary["find"], canary["replace"], 1)
    lines = m.lines[: ref.lines[0] - 1] + new_seg.splitlines() + m.lines[ref.lines[1] :]
    text = "\n".join(lines) + "\n"
    m2 = source.Module.__new__(source.Module)
    m2.relpath, m2.path, m2.text = m.relpath, m.path, text
    m2.tree = ast.parse(text)
    m2.lines = text.splitlines()
    m2.classes = {n.name: n for n in m2.tree.body if isinstance(n, ast.ClassDef)}
    m2.functions = {n.name: n for n in m2.tree.body if isinstance(n, ast.FunctionDef)}
    m2._consts = None
    source._cache[canary["file"]] = m2


def run_canaries(mod, tier, seed):
    """Each canary must produce at least one obligation that is not proved.  Returns list of results."""
    out = []
    cans = getattr(mod, "CANARIES", [])
    for c in cans:
        if tier == "quick" and any(not r.get("skipped") for r in out):
            break      # quick: one canary per run - the first whose anchor text is still in the function
        source.reset()
        try:
            apply_canary(c)
            obs, _info, und = run_specs(mod, only=set(c.get("fns", [c["fn"]])) | set(c.get("also", [])))
            obs = [o for o in obs if o.fn in c.get("fns", [c["fn"]]) or o.fn == c["fn"].split(".")[-1] or True]
            res = solve.discharge(obs, timeout_ms=4000, seed=seed, fallback=False)
            bad = [obligation_id(mod.PROP, o) for o, r in zip(obs, res) if r["verdict"] != "unsat"]
            refuted = [obligation_id(mod.PROP, o) for o, r in zip(obs, res) if r["verdict"] == "sat"]
            out.append({"canary": c["name"], "killed": bool(bad or und), "not_proved": bad[:6], "refuted": refuted[:6], "undecided": und[:3]})
        except LookupError as e:
            # the snippet the canary rewrites is gone: the function under contract changed (spec drift), not a soundness failure
            out.append({"canary": c["name"], "killed": True, "skipped": "snippet not found: " + str(e)[:200]})
        except Exception as e:
            out.append({"canary": c["name"], "killed": False, "error": repr(e)[:300]})
        finally:
            source.reset()
    return out


# ------------------------------------------------------------------ main
def main(mod, tier, seed, replay=None):
    t0 = time.time()
    prop = mod.PROP
    # VERIF_EVIDENCE_DIR: where a run against a deliberately changed tree (tools/try_patch.sh, tools/seeded_matrix.sh) puts
    # its evidence, so that evidence/ always describes a run on /repo itself
    evdir = os.environ.get("VERIF_EVIDENCE_DIR") or os.path.join(VERIF, "evidence")
    os.makedirs(evdir, exist_ok=True)
    evidence_path = os.path.join(evdir, f"{prop}.json")
    known = [k for k in _load_known() if k.get("property") == prop]
    violations, known_hits, undecided_msgs = [], [], []
    cross = None
    if tier == "thorough":
        from . import crosscheck
        n_cc, pr_cc = crosscheck.run()
        cross = {"model_evaluations": n_cc, "disagreements": len(pr_cc)}
        if pr_cc:
            print(f"CHECKER-UNSOUND property={prop}: builtin model disagrees with CPython: {pr_cc[:3]}")
            return 3
    battery_last = bool(os.environ.get("PYVC_BATTERY_LAST"))   # retry mode of ./check after the process died: proof pass first
    battery = None if battery_last else run_battery(mod, tier, seed)
    try:
        results, info, undecided = verify(mod, tier, seed, fast=bool(battery and battery.get("failures") and any(not any(k.get("status") == "known" and k.get("kind") == "native" and k["match"] in f.get("key", "") for k in known) for f in battery["failures"])))
    except Exception:
        traceback.print_exc()
        print(f"CHECKER-CRASH property={prop}")
        return 3
    if battery_last:
        battery = run_battery(mod, tier, seed)
    undecided_msgs.extend(undecided)
    # clause coverage
    names = {r["id"] for r in results}
    for clause in getattr(mod, "EXPECTED_CLAUSES", []):
        if not any(clause in n for n in names):
            undecided_msgs.append(f"clause coverage: no obligation generated for `{clause}` (function or loop no longer reached?)")
    if not results:
        undecided_msgs.append("zero obligations generated")
    failed = [r for r in results if r["verdict"] != "proved"]
    grounded = {}
    if failed:
        # (also when a native failing input is in hand: the refutation names the broken obligation next to the input)
        refute_grounded.only_fns = sorted({r["fn"] for r in failed if r["verdict"] == "unknown" and r.get("fn")}) or None
        grounded = refute_grounded(mod, [r["id"] for r in failed if r["verdict"] == "unknown"], seed, scopes=(2, 3))
        for r in failed:
            if r["id"] in grounded:
                r["verdict"] = "refuted"
                r["backend"] = f"z3 grounded scope {grounded[r['id']][0]}"
                r["model"] = grounded[r["id"]][1]
    bat_fail = battery["failures"] if battery else []
    if battery and battery.get("error"):
        undecided_msgs.append("battery: " + battery["error"])
    def _known_ob(rid):
        return any(k.get("status") == "known" and k.get("kind", "obligation") == "obligation" and k["match"] in rid for k in known)
    canaries = run_canaries(mod, tier, seed) if not [r for r in failed if not _known_ob(r["id"])] else []
    # a canary whose anchor text is gone (a re-spelled line) is recorded as skipped; the vacuity guard needs at least ONE canary
    # that could be applied - if none can, the run is UNDECIDED
    if canaries and all(c.get("skipped") for c in canaries):
        for c in canaries:
            undecided_msgs.append(f"canary `{c['canary']}` not applicable ({c['skipped']})")
    for c in canaries:
        if not c["killed"]:
            print(f"CHECKER-UNSOUND property={prop} canary `{c['canary']}` was not detected: {c}")
            return 3

    def is_known(kind, key):
        for k in known:
            if k.get("status") == "known" and k.get("kind", "obligation") == kind and k["match"] in key:
                return k
        return None

    os.makedirs(os.path.join(VERIF, "replays", prop), exist_ok=True)

    def write_replay(name, payload):
        h = hashlib.sha256(json.dumps(payload, sort_keys=True, default=str).encode()).hexdigest()[:10]
        safe = "".join(ch if ch.isalnum() or ch in "._-" else "_" for ch in name)[:80]
        p = os.path.join(VERIF, "replays", prop, f"{safe}-{h}.json")
        json.dump(payload, open(p, "w"), indent=1, default=str)
        return p

    # native failures (bounded battery on the real code)
    for f in bat_fail:
        key = f.get("key", "")
        k = is_known("native", key)
        if k:
            known_hits.append((k, key))
            continue
        related = [r["id"] for r in failed if r["fn"] in f.get("fn", r["fn"])] or [r["id"] for r in failed]
        p = write_replay(key or "battery", {"property": prop, "found_by": "native contract battery (bounded stand-in) replayed on the real code", "case": f,
                                              "failed_obligations": related, "replay_cmd": f"./check {prop} --replay <this file>"})
        violations.append((p, f"native failing input: {f.get('what','')}", False))
    # proof-side failures
    for r in failed:
        k = is_known("obligation", r["id"])
        if k:
            known_hits.append((k, r["id"]))
            continue
        if r["verdict"] == "refuted":
            if any(v for v in violations):
                # a native failing input is already reported for this run; attach the obligation to it
                continue
            p = write_replay(r["id"], {"property": prop, "obligation": r["id"], "kind": r["kind"], "site": r["site"], "function": r["fn"],
                                       "solver": r["backend"], "verdict": "refuted", "solver_output": r["model"], "native_input": None,
                                       "note": "the verifier produced a counter-model of the verification condition; no failing native input was found by the bounded battery"})
            violations.append((p, f"obligation {r['id']} refuted", True))
        else:
            undecided_msgs.append(f"obligation {r['id']} not discharged ({r['backend']}: unknown) and not refuted at finite scope")

    # ---------------- evidence
    known_ob_ids = {key for k, key in known_hits if k.get("kind", "obligation") == "obligation"}
    # obligations that match a recorded known finding are reported apart (they are red by record, not discharged)
    counted = [r for r in results if r["id"] not in known_ob_ids]
    n_ob = len(counted)
    n_ok = sum(1 for r in counted if r["verdict"] == "proved")
    backends = {}
    for r in results:
        if r["verdict"] == "proved":
            backends[r["backend"]] = backends.get(r["backend"], 0) + 1
    samples = []
    # four written-out obligations: prefer postconditions / preserved invariants with a non-trivial goal
    pref = [r for r in results if r["kind"] in ("post", "inv-preserved", "lock-invariant", "lemma") and not z3.is_true(r["_ob"].goal) and not z3.is_false(r["_ob"].goal)] or results
    for r in pref[:: max(1, len(pref) // 4)][:4]:
        ob = r["_ob"]
        goal = str(ob.goal)
        samples.append({"id": r["id"], "kind": r["kind"], "site": r["site"], "verdict": r["verdict"], "path_condition_size": len(ob.pc), "goal": goal[:700] + ("..." if len(goal) > 700 else ""),
                        "smt2_tail": solve.to_smt2(ob.pc, ob.goal)[-600:]})
    ev = {
        "property_id": prop, "tier": tier, "seed": seed, "level": "proof",
        "coverage": {
            "obligations": n_ob, "discharged": n_ok,
            "checker_cmd": f"./check {prop} --tier {tier}",
            "trusted_base": list(getattr(mod, "TRUSTED", [])),
            "functions_under_contract": info,
            "backends": backends,
            "solver_s": round(sum(r["s"] for r in results), 3),
            "by_kind": {k: sum(1 for r in results if r["kind"] == k) for k in sorted({r["kind"] for r in results})},
            "obligation_list": [{"id": r["id"], "kind": r["kind"], "verdict": r["verdict"], "backend": r["backend"], "ms": int(r["s"] * 1000)} for r in results],
            "samples": samples,
            "canaries": canaries,
            "builtin_model_crosscheck_vs_cpython": cross,
            "vacuity_covers": getattr(verify, "cover_stats", None),
            "bounded": ({"what": "native contract battery on the real code (bounded stand-in; NOT counted under discharged)", "cases": battery.get("cases"), "distinct_nontrivial": battery.get("distinct"),
                         "scope": battery.get("scope"), "failures": len(bat_fail), "samples": battery.get("samples", [])[:3], "s": battery.get("s")} if battery else None),
            "undecided": undecided_msgs,
            "not_decided_by_this_check": list(getattr(mod, "UNDECIDED_PARTS", [])),
            "known_findings_hit": sorted({k["match"] for k, _ in known_hits}),
            "known_finding_obligations_not_counted": sorted(known_ob_ids),
        },
        "assumptions": list(getattr(mod, "ASSUMPTIONS", [])),
        "wall_s": round(time.time() - t0, 2),
        "violations": len(violations),
    }
    json.dump(ev, open(evidence_path, "w"), indent=1, default=str)
    # ---------------- verdict
    seen = set()
    for k, key in known_hits:
        if k["what"] in seen:
            continue
        seen.add(k["what"])
        print(f"KNOWN-FINDING: property={prop} {k['what']}")
    print(f"[{prop}] functions={len(info)} obligations={n_ob} proved={n_ok} battery_cases={battery.get('cases') if battery else 0} battery_failures={len(bat_fail)} canaries={[(c['canary'], c['killed']) for c in canaries]} wall={ev['wall_s']}s")
    for r in failed[:12]:
        print(f"NOT-PROVED {r['id']} verdict={r['verdict']} backend={r['backend']}")
    if violations:
        for m in undecided_msgs[:6]:
            print(f"UNDECIDED property={prop}: {m}")
        for p, what, nofail in violations[:5]:
            rel = os.path.relpath(p, VERIF)
            print(f"VIOLATION property={prop} replay={rel}" + (" no-failing-input-found" if nofail else ""))
            print(f"  {what}")
        return 1
    if undecided_msgs:
        for m in undecided_msgs[:10]:
            print(f"UNDECIDED property={prop}: {m}")
        return 2
    return 0


def replay(mod, path):
    """Re-run the native case of a replay file against the real code."""
    data = json.load(open(path))
    case = data.get("case")
    if not case:
        print(f"replay file names obligation {data.get('obligation')} ({data.get('verdict')}); no native input recorded: no-failing-input-found")
        print(data.get("solver_output", "")[:2000])
        return 1
    env = dict(os.environ)
    env["PYTHONPATH"] = source.SRC + os.pathsep + os.path.join(VERIF, "native")
    env["VERIF_REPLAY"] = json.dumps(case)
    p = subprocess.run([NATIVE_PY, os.path.join(VERIF, "native", mod.BATTERY)], env=env, capture_output=True, text=True)
    sys.stdout.write(p.stdout[-3000:])
    return 1 if "REPLAY-FAILS" in p.stdout else 0
