"""Models of Python builtins used by the verified functions (assumption E5 of DESIGN.md; each model is compared
with CPython on enumerated small arguments by `pyvc.crosscheck`)."""
from __future__ import annotations
import ast
import z3
from .sym import *


def _wb(ex, node, new):
    """write a mutated container back to the l-value it came from: node is the Call, node.func.value the l-value"""
    ex.assign(node.func.value, new)
    wt = getattr(ex, "write_through", None)
    if wt is not None:
        if isinstance(node.func.value, ast.Name) and (id(ex.scope.vars), node.func.value.id) in getattr(ex, "_stale_alias", ()):
            raise Unsupported(f"`{node.func.value.id}` was bound to a container stored in an object field that has been written since: whether the mutation reaches that field is not tracked")
        wt(node.func.value, new)
    h = getattr(ex.spec, "on_mutation", None)
    if h is not None:
        h(ex, ex.site(node.func.value), node.func.attr, node, new)


def method(ex, recv, name, args, kwargs, node):
    # ------------------------------------------------ set
    if isinstance(recv, VSet):
        if name == "add":
            _wb(ex, node, VSet(z3.Store(recv.t, recv.ety.unwrap(args[0]), True), recv.ety))
            return None
        if name == "remove":
            x = recv.ety.unwrap(args[0])
            ex.implicit_exc("KeyError", recv.t[x], ex.site(node))
            _wb(ex, node, VSet(z3.Store(recv.t, x, False), recv.ety))
            return None
        if name == "discard":
            _wb(ex, node, VSet(z3.Store(recv.t, recv.ety.unwrap(args[0]), False), recv.ety))
            return None
        if name == "copy":
            return VSet(recv.t, recv.ety)
        if name == "clear":
            _wb(ex, node, TSet(recv.ety).empty())
            return None
    # ------------------------------------------------ dict
    if isinstance(recv, VDict):
        if name == "get":
            k = args[0]
            if isinstance(k, VOpt):
                kt = recv.kty.unwrap(k.val)
                return VOpt(z3.And(k.some, recv.dom[kt]), recv.vty.wrap(recv.val[kt]))
            kt = recv.kty.unwrap(k)
            if len(args) > 1:
                raise Unsupported("dict.get with default")
            return VOpt(recv.dom[kt], recv.vty.wrap(recv.val[kt]))
        if name == "pop":
            kt = recv.kty.unwrap(args[0])
            if len(args) > 1:
                if args[1] is not None:
                    raise Unsupported("dict.pop with a non-None default")
                _wb(ex, node, recv.with_(dom=z3.Store(recv.dom, kt, False)))
                return VOpt(recv.dom[kt], recv.vty.wrap(recv.val[kt]))
            ex.implicit_exc("KeyError", recv.dom[kt], ex.site(node))
            _wb(ex, node, recv.with_(dom=z3.Store(recv.dom, kt, False)))
            return recv.vty.wrap(recv.val[kt])
        if name == "setdefault" and len(args) == 2 and recv.default is None:
            kt, vt = recv.kty.unwrap(args[0]), recv.vty.unwrap(args[1])
            had = recv.dom[kt]
            _wb(ex, node, recv.with_(dom=z3.Store(recv.dom, kt, True), val=z3.If(had, recv.val, z3.Store(recv.val, kt, vt))))
            return recv.vty.wrap(z3.If(had, recv.val[kt], vt))
        if name == "copy":
            return recv.with_()
        if name == "keys":
            return VSet(recv.dom, recv.kty)
        if name == "clear":
            _wb(ex, node, recv.with_(dom=z3.K(recv.kty.sort, z3.BoolVal(False))))
            return None
    # ------------------------------------------------ list
    if isinstance(recv, VList):
        if name == "append":
            _wb(ex, node, VList(recv.n + 1, z3.Store(recv.arr, recv.n, recv.ety.unwrap(args[0])), recv.ety))
            return None
        if name == "copy":
            return VList(recv.n, recv.arr, recv.ety)
        if name == "extend":
            other = args[0]
            if isinstance(other, VOpaque) and other.kind == "emptylist":
                return None
            if not isinstance(other, VList):
                raise Unsupported("extend with non-list")
            arr = ex.fresh_term(recv.arr.sort(), "ext")
            j = ex.fresh_term(z3.IntSort(), "j")
            ex.assume(z3.ForAll([j], arr[j] == z3.If(j < recv.n, recv.arr[j], other.arr[j - recv.n])))
            _wb(ex, node, VList(recv.n + other.n, arr, recv.ety))
            return None
        if name == "popleft":
            ex.implicit_exc("IndexError", recv.n > 0, ex.site(node))
            arr = ex.fresh_term(recv.arr.sort(), "pl")
            j = ex.fresh_term(z3.IntSort(), "j")
            ex.assume(z3.ForAll([j], arr[j] == recv.arr[j + 1]))
            _wb(ex, node, VList(recv.n - 1, arr, recv.ety))
            return recv.ety.wrap(recv.arr[0])
    if isinstance(recv, VOpaque) and recv.kind == "emptylist":
        if name == "append":
            v = args[0]
            ty = ty_of(v)
            l0 = TList(ty).empty()
            _wb(ex, node, VList(z3.IntVal(1), z3.Store(l0.arr, 0, ty.unwrap(v)), ty))
            return None
    # ------------------------------------------------ str / bytes
    if isinstance(recv, (VStr, str, bytes)):
        kind = recv.kind if isinstance(recv, VStr) else ("str" if isinstance(recv, str) else "bytes")
        ty = TStr if kind == "str" else TBytes
        t = ty.unwrap(recv)
        if name == "startswith":
            return VBool(z3.PrefixOf(ty.unwrap(args[0]), t))
        if name == "endswith":
            return VBool(z3.SuffixOf(ty.unwrap(args[0]), t))
        if name == "replace":
            a, b = ty.unwrap(args[0]), ty.unwrap(args[1])
            if len(args) == 2 and not kwargs:
                f = _replace_all()
                return VStr(f(t, a, b), kind)
            cnt = args[2] if len(args) > 2 else kwargs.get("count")
            if cnt == 1:
                # Python: replace("", x, 1) prepends; SMT-LIB str.replace with empty pattern also prepends
                r = z3.Replace(t, a, b)
                # staging (DESIGN 2.1 step 4): when the path condition already holds a decomposition t == a ++ T,
                # prove and record the consequence replace(t, a, b, 1) == b ++ T as a small lemma of its own
                for f in ex.pc:
                    if z3.is_eq(f) and f.arg(0).eq(t) and z3.is_app(f.arg(1)) and f.arg(1).decl().kind() == z3.Z3_OP_SEQ_CONCAT and f.arg(1).num_args() == 2 and f.arg(1).arg(0).eq(a):
                        ex.lemma("replace-first-on-prefix", r == z3.Concat(b, f.arg(1).arg(1)), using=[f])
                        break
                return VStr(r, kind)
            raise Unsupported("str.replace with count != 1")
        if name == "encode" and isinstance(recv, str):
            return recv.encode()
        if name == "lower" and isinstance(recv, str):
            return recv.lower()
    if isinstance(recv, (tuple, list, frozenset)) and name == "copy":
        return recv
    h = getattr(ex.world, "method", None)
    if h is not None:
        out = h(ex, recv, name, args, kwargs, node)
        if out is not NotImplemented:
            return out
    raise Unsupported(f"method {name} on {recv!r} at {ex.site(node)}")


def _replace_all():
    """Python's s.replace(a, b) (all occurrences) = SMT-LIB str.replace_all for non-empty a"""
    def f(s, a, b):
        ctx = s.ctx
        return z3.SeqRef(z3.Z3_mk_seq_replace_all(ctx.ref(), s.as_ast(), a.as_ast(), b.as_ast()), ctx)
    return f


def function(ex, dotted, args, kwargs, node):
    d = dotted.split("builtins.")[-1]
    if d == "len":
        v = args[0]
        if isinstance(v, VList):
            return VInt(v.n)
        if isinstance(v, VStr):
            return VInt(z3.Length(v.t))
        if isinstance(v, (tuple, list, str, bytes, frozenset)):
            return len(v)
        if isinstance(v, VTuple):
            return len(v.items)
        h = getattr(ex.world, "len", None)
        if h is not None:
            return h(ex, v)
        raise Unsupported(f"len of {v!r}")
    if d == "set" or d == "frozenset":
        if not args:
            return VOpaque("emptyset")
        v = args[0]
        if isinstance(v, VSet):
            return VSet(v.t, v.ety)
        if isinstance(v, VOpaque) and v.kind == "listofset":
            return v.data
        if isinstance(v, VDict):
            return VSet(v.dom, v.kty)
        if isinstance(v, (list, tuple, frozenset)):
            return frozenset(v)
        if isinstance(v, VOpaque) and v.kind == "emptylist":
            return frozenset()
        if isinstance(v, VOpt):
            raise Unsupported("set(Optional)")
        raise Unsupported(f"set({v!r})")
    if d == "list":
        v = args[0]
        if isinstance(v, VSet):
            return VOpaque("listofset", v)
        if isinstance(v, VList):
            return v
        raise Unsupported(f"list({v!r})")
    if d in ("any", "all"):
        v = args[0]
        if isinstance(v, VOpaque) and v.kind == "genexp":
            return ex.quantify_gen(v, d)
        if isinstance(v, VList) and d == "any":
            # any(list) for lists of always-truthy elements
            return VBool(v.n > 0)
        if isinstance(v, VOpaque) and v.kind == "gen_nonempty":
            return VBool(v.data)
        raise Unsupported(f"{d}({v!r})")
    if d == "bool":
        t = ex.truth(args[0])
        return t if isinstance(t, bool) else VBool(t)
    if d == "isinstance":
        h = getattr(ex.world, "isinstance", None)
        if h is None:
            raise Unsupported("isinstance needs a world hook")
        return h(ex, args[0], args[1])
    if d == "hasattr":
        h = getattr(ex.world, "hasattr", None)
        if h is None:
            raise Unsupported("hasattr needs a world hook")
        return h(ex, args[0], args[1])
    if d == "getattr":
        h = getattr(ex.world, "getattr", None)
        if h is None:
            raise Unsupported("getattr needs a world hook")
        return h(ex, args[0], args[1])
    if d == "enumerate":
        v = args[0]
        if isinstance(v, VList):
            return VOpaque("enumerate", v)
        raise Unsupported("enumerate of non-list")
    if d == "super":
        cur = getattr(ex, "_cur_cls", None) or (ex.ref.qualname.split(".")[0] if ex.ref.cls is not None else None)
        sc = ex.scope.lookup("self")
        if cur is None or sc is None:
            raise Unsupported("super() outside a method")
        return VOpaque("super", (sc.vars["self"], cur))
    if d == "str":
        h = getattr(ex.world, "str", None)
        if h is not None:
            return h(ex, args[0])
    if d == "type":
        h = getattr(ex.world, "type", None)
        if h is not None:
            return h(ex, args[0])
    if d == "object" and not args:
        return VObj("object")
    if d in EXC_PARENTS or d.split(".")[-1] in EXC_PARENTS:
        cls = d if d in EXC_PARENTS else d.split(".")[-1]
        payload = {}
        if cls == "OSError" and args:
            payload["errno"] = args[0]
        return VExc(cls, payload)
    h = getattr(ex.world, "function", None)
    if h is not None:
        out = h(ex, dotted, args, kwargs, node)
        if out is not NotImplemented:
            return out
    raise Unsupported(f"call of unknown global {dotted} at {ex.site(node)}")
