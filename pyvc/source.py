"""Extraction of the real code: every run re-parses /repo/src/watchdog and hands the *unmodified* AST of each
function under contract to the symbolic executor.  Dropped by extraction (and nothing else): docstrings, type
annotations, `# type:` comments (ast drops comments) and logger.* calls (treated as no-ops by the engine)."""
from __future__ import annotations
import ast, hashlib, os, functools

REPO = os.environ.get("VERIF_REPO", "/repo")
SRC = os.path.join(REPO, "src")


class Module:
    def __init__(self, relpath: str):
        self.relpath = relpath
        self.path = os.path.join(SRC, relpath)
        self.text = open(self.path, encoding="utf-8").read()
        self.tree = ast.parse(self.text)
        self.lines = self.text.splitlines()
        self.classes: dict[str, ast.ClassDef] = {}
        self.functions: dict[str, ast.FunctionDef] = {}
        for n in self.tree.body:
            if isinstance(n, ast.ClassDef):
                self.classes[n.name] = n
            elif isinstance(n, (ast.FunctionDef, ast.AsyncFunctionDef)):
                self.functions[n.name] = n
        self._consts = None

    def imported_constant(self, name):
        """value of a constant imported with `from watchdog.x import NAME` (followed through the package only)"""
        for n in ast.walk(self.tree):
            if isinstance(n, ast.ImportFrom) and n.module and n.module.startswith("watchdog") and n.level == 0:
                for a in n.names:
                    if (a.asname or a.name) == name:
                        rel = n.module.replace(".", "/")
                        for cand in (rel + ".py", rel + "/__init__.py"):
                            if os.path.exists(os.path.join(SRC, cand)):
                                c = module(cand).constants()
                                if a.name in c:
                                    return True, c[a.name]
        return False, None

    # ---- module/class level constants, evaluated from the real source text
    def constants(self) -> dict:
        if self._consts is not None:
            return self._consts
        ns: dict = {"reduce": functools.reduce}
        out: dict = {}

        def try_assign(stmt, prefix, scope):
            if isinstance(stmt, ast.Assign) and len(stmt.targets) == 1 and isinstance(stmt.targets[0], ast.Name):
                tgt, val = stmt.targets[0].id, stmt.value
            elif isinstance(stmt, ast.AnnAssign) and isinstance(stmt.target, ast.Name) and stmt.value is not None:
                tgt, val = stmt.target.id, stmt.value
            else:
                return
            try:
                v = eval(compile(ast.Expression(val), self.relpath, "eval"), {"__builtins__": {}}, scope)
            except Exception:
                return
            if isinstance(v, (int, str, bytes, float, bool, tuple, frozenset)) or v is None:
                scope[tgt] = v
                out[prefix + tgt] = v

        for n in self.tree.body:
            if isinstance(n, ast.ClassDef):
                cscope = dict(ns)

                class _NS:  # attribute access to class constants from later module-level code
                    pass

                holder = _NS()
                for s in n.body:
                    before = set(cscope)
                    try_assign(s, n.name + ".", cscope)
                    for k in set(cscope) - before:
                        setattr(holder, k, cscope[k])
                    for k in cscope:
                        if k in out or (n.name + "." + k) in out:
                            setattr(holder, k, cscope[k])
                ns[n.name] = holder
            else:
                try_assign(n, "", ns)
        self._consts = out
        return out


_cache: dict[str, Module] = {}


def module(relpath: str) -> Module:
    if relpath not in _cache:
        _cache[relpath] = Module(relpath)
    return _cache[relpath]


def reset():
    _cache.clear()


class FnRef:
    """A function of the real source located by qualified name, e.g. 'DirectorySnapshotDiff.__init__',
    'generate_sub_moved_events', 'Inotify.read_events._recursive_simulate'."""

    def __init__(self, relpath: str, qualname: str):
        self.relpath, self.qualname = relpath, qualname
        m = module(relpath)
        parts = qualname.split(".")
        node: ast.AST = m.tree
        cls = None
        for i, p in enumerate(parts):
            found = None
            for ch in ast.walk(node) if i and isinstance(node, (ast.FunctionDef,)) else ast.iter_child_nodes(node):
                if isinstance(ch, (ast.ClassDef, ast.FunctionDef)) and ch.name == p:
                    found = ch
                    break
            if found is None:
                raise LookupError(f"{relpath}:{qualname}: '{p}' not found (spec drift)")
            if isinstance(found, ast.ClassDef):
                cls = found
            node = found
        if not isinstance(node, ast.FunctionDef):
            raise LookupError(f"{relpath}:{qualname} is not a function")
        self.node = node
        self.cls = cls
        self.mod = m
        seg = "\n".join(m.lines[node.lineno - 1 : node.end_lineno])
        self.source = seg
        self.sha = hashlib.sha256(seg.encode()).hexdigest()[:16]
        self.lines = (node.lineno, node.end_lineno)
        self.is_property = any(isinstance(d, ast.Name) and d.id == "property" for d in node.decorator_list)
        self.is_static = any(isinstance(d, ast.Name) and d.id == "staticmethod" for d in node.decorator_list)

    def describe(self) -> dict:
        return {"file": "src/" + self.relpath, "function": self.qualname, "lines": list(self.lines), "sha256_16": self.sha}

    def body(self) -> list[ast.stmt]:
        b = self.node.body
        if b and isinstance(b[0], ast.Expr) and isinstance(b[0].value, ast.Constant) and isinstance(b[0].value.value, str):
            return b[1:]
        return b


def class_table() -> dict[str, tuple[str, ast.ClassDef]]:
    """name -> (relpath, ClassDef) for every class of the package (first definition wins)."""
    out: dict[str, tuple[str, ast.ClassDef]] = {}
    for root, _d, files in os.walk(os.path.join(SRC, "watchdog")):
        for f in sorted(files):
            if f.endswith(".py"):
                rel = os.path.relpath(os.path.join(root, f), SRC)
                try:
                    m = module(rel)
                except SyntaxError:
                    continue
                for name, node in m.classes.items():
                    out.setdefault(name, (rel, node))
    return out


def mro(name: str, table=None) -> list[str]:
    """Linearised single-inheritance-ish MRO by base-name lookup inside the package (sufficient for watchdog)."""
    table = table or class_table()
    out, todo = [], [name]
    while todo:
        n = todo.pop(0)
        if n in out or n not in table:
            continue
        out.append(n)
        for b in table[n][1].bases:
            bn = b.id if isinstance(b, ast.Name) else (b.attr if isinstance(b, ast.Attribute) else None)
            if bn:
                todo.append(bn)
    return out


def find_method(clsname: str, meth: str, table=None):
    """(relpath, 'Class.meth') of the definition reached from clsname through the package's class hierarchy."""
    table = table or class_table()
    for c in mro(clsname, table):
        rel, node = table[c]
        for s in node.body:
            if isinstance(s, ast.FunctionDef) and s.name == meth:
                return rel, f"{c}.{meth}"
    return None


def src_of(node: ast.AST) -> str:
    return ast.unparse(node)
