from __future__ import annotations
import argparse, importlib, json, os, subprocess, sys, traceback
from . import driver


def main():
    ap = argparse.ArgumentParser()
    ap.add_argument("prop")
    ap.add_argument("--tier", default=os.environ.get("VERIF_TIER", "quick"), choices=["quick", "thorough"])
    ap.add_argument("--replay")
    a = ap.parse_args()
    seed = int(os.environ.get("VERIF_SEED", "0") or 0)
    sys.path.insert(0, driver.VERIF)
    try:
        mod = importlib.import_module("specs." + a.prop.lower())
    except Exception:
        traceback.print_exc()
        print(f"CHECKER-CRASH property={a.prop}: cannot load spec")
        sys.exit(3)
    if a.replay:
        sys.exit(driver.replay(mod, a.replay))
    # last line of defence against a hang anywhere (solver worker, battery, kernel): undecided, never a verdict
    import signal
    wall = int(os.environ.get("VERIF_WALL_S", "1800" if a.tier == "quick" else "14400"))

    def _too_long(_sig, _frm):
        print(f"UNDECIDED property={a.prop}: the check did not finish within {wall}s (VERIF_WALL_S); no verdict")
        sys.stdout.flush()
        try:
            os.killpg(os.getpgid(0), signal.SIGTERM) if os.getpgid(0) == os.getpid() else None
        finally:
            os._exit(2)
    signal.signal(signal.SIGALRM, _too_long)
    signal.alarm(wall)
    try:
        rc = driver.main(mod, a.tier, seed)
    except Exception:
        traceback.print_exc()
        print(f"CHECKER-CRASH property={a.prop}")
        rc = 3
    sys.exit(rc)


if __name__ == "__main__":
    main()
