"""Finite-scope grounded mode (counterexample search only, never proof).

When SCOPE = n, spec worlds create their uninterpreted sorts as enumerations of n elements (see `usort`).  The
spec-level quantifiers over those finite sorts are then expanded by `ground()` itself (not left to MBQI), so that
z3 decides a quantifier-free (or Int-only quantified) instance and returns a concrete model of pc ∧ ¬goal."""
from __future__ import annotations
import itertools
import z3

SCOPE = None
_enum_cache: dict = {}


def usort(name: str):
    """An uninterpreted sort, or its finite stand-in in grounded mode."""
    if SCOPE is None:
        return z3.DeclareSort(name)
    key = (name, SCOPE)
    if key not in _enum_cache:
        _enum_cache[key] = z3.EnumSort(f"{name}_fin{SCOPE}", [f"{name.lower()}{i}" for i in range(SCOPE)])[0]
    return _enum_cache[key]


def _consts(srt, depth=0):
    if srt.kind() == z3.Z3_BOOL_SORT:
        return [z3.BoolVal(False), z3.BoolVal(True)]
    if srt.kind() == z3.Z3_DATATYPE_SORT:
        out = []
        for i in range(srt.num_constructors()):
            c = srt.constructor(i)
            if c.arity() == 0:
                out.append(c())
            else:
                doms = [_consts(c.domain(j), depth + 1) for j in range(c.arity())]
                if any(d is None for d in doms):
                    return None
                for a in itertools.product(*doms):
                    out.append(c(*a))
                if len(out) > 200:
                    return None
        return out
    return None


def ground(f, budget=[0]):
    if z3.is_quantifier(f):
        doms = [_consts(f.var_sort(i)) for i in range(f.num_vars())]
        if all(d is not None for d in doms):
            n = 1
            for d in doms:
                n *= len(d)
            if n <= 4096:
                insts = [ground(z3.substitute_vars(f.body(), *reversed(c))) for c in itertools.product(*doms)]
                return z3.And(*insts) if f.is_forall() else z3.Or(*insts)
        # partially groundable or Int-quantified: leave to the solver, but ground inside
        return f
    if z3.is_app(f) and f.num_args() > 0:
        ch = [ground(a) for a in f.children()]
        return f.decl()(*ch)
    return f


def _model_text(m):
    try:
        return "\n".join(f"{d.name()} = {m[d]}" for d in m.decls() if "!" not in d.name() or d.arity() == 0)[:6000]
    except Exception:
        return ""


def check(ob, timeout_ms=20000):
    s = z3.Solver()
    s.set("timeout", timeout_ms)
    try:
        gpc = [ground(p) for p in ob.pc]
        ngoal = z3.Not(ground(ob.goal))
        for p in gpc:
            s.add(p)
        s.add(ngoal)
    except z3.Z3Exception as e:
        return ("unknown", str(e))
    r = s.check()
    if r == z3.sat:
        return ("sat", _model_text(s.model()))
    if r == z3.unknown:
        try:
            m = _candidate_then_validate(gpc, ngoal, timeout_ms)
        except z3.Z3Exception:
            m = None
        if m is not None:
            return ("sat", "(finite instantiation of the integer-quantified assumptions, model validated against the full assumptions)\n" + _model_text(m))
    return (str(r), "")


# ---------------------------------------------------------------------------------------------------------------
# Integer-quantified assumptions (list invariants: forall i. 0 <= i < n => ...) make z3 answer `unknown` instead of
# `sat`.  Candidate: replace every such assumption by finitely many instances (a WEAKER assumption, so a model of it
# need not be a model of the original); validation: interpret each original assumption in the candidate model (every
# symbol replaced by its value / function graph) and let the solver confirm it is valid there.  Only a validated model
# counts as a refutation.
INT_RANGE = range(-1, 6)


def _int_forall(f):
    return z3.is_quantifier(f) and f.is_forall() and all(f.var_sort(i).kind() == z3.Z3_INT_SORT for i in range(f.num_vars()))


def _instantiate(f):
    """(weakened formula, was anything weakened)"""
    if _int_forall(f) and len(INT_RANGE) ** f.num_vars() <= 2000:
        insts = [z3.substitute_vars(f.body(), *reversed([z3.IntVal(v) for v in c])) for c in itertools.product(INT_RANGE, repeat=f.num_vars())]
        return z3.And(*insts), True
    if z3.is_and(f):
        parts = [_instantiate(c) for c in f.children()]
        return z3.And(*[p for p, _ in parts]), any(w for _, w in parts)
    return f, False


def _array_definitions(gpc):
    """assumptions of the form  forall j. c[j] == rhs(j)  (c an uninterpreted array constant that does not occur in rhs):
    the generator's way of defining a shifted / spliced list.  A finitely instantiated candidate fixes c only at the
    instantiated points; the definition itself tells what c is everywhere."""
    out = {}
    for p in gpc:
        for f in (p.children() if z3.is_and(p) else [p]):
            if not (_int_forall(f) and f.num_vars() == 1):
                continue
            b = f.body()
            if not (z3.is_eq(b) and z3.is_select(b.arg(0))):
                continue
            sel, rhs = b.arg(0), b.arg(1)
            c, idx = sel.arg(0), sel.arg(1)
            if z3.is_const(c) and c.decl().kind() == z3.Z3_OP_UNINTERPRETED and z3.is_var(idx) and z3.get_var_index(idx) == 0 and not _occurs(c, rhs):
                out[c.get_id()] = (c, rhs)
    return out


def _occurs(c, t):
    todo, seen = [t], set()
    while todo:
        x = todo.pop()
        if x.get_id() in seen:
            continue
        seen.add(x.get_id())
        if z3.eq(x, c):
            return True
        todo.extend(x.children())
    return False


def _interpretation(m, defs):
    funs, consts = [], []
    defined = {k for k in defs}
    for d in m.decls():
        if d.arity() == 0:
            if d().get_id() in defined:
                continue
            consts.append((d(), m.eval(d(), model_completion=True)))
        else:
            fi = m[d]
            if not isinstance(fi, z3.FuncInterp):
                return None
            body = fi.else_value()
            for i in range(fi.num_entries()):
                e = fi.entry(i)
                cond = z3.And(*[z3.Var(j, d.domain(j)) == e.arg_value(j) for j in range(d.arity())])
                body = z3.If(cond, e.value(), body)
            funs.append((d, body))

    def base(f):
        g = z3.substitute_funs(f, *funs) if funs else f
        return z3.substitute(g, *consts) if consts else g
    # defined arrays: c := lambda j. rhs(j), rhs interpreted (definitions may refer to other defined arrays: iterate)
    lam = {}
    pending = dict(defs)
    for _round in range(len(pending) + 1):
        for k, (c, rhs) in list(pending.items()):
            if any(_occurs(c2, rhs) for k2, (c2, _r) in pending.items() if k2 != k):
                continue
            j = z3.Int("def_j")
            body = z3.substitute_vars(rhs, j)
            body = z3.substitute(body, *[(cc, ll) for cc, ll in lam.values()]) if lam else body
            lam[k] = (c, z3.Lambda([j], base(body)))
            del pending[k]
    if pending:
        return None

    def interp(f):
        g = z3.substitute(f, *[(cc, ll) for cc, ll in lam.values()]) if lam else f
        return base(g)
    return interp


def _interpret(f, m):
    it = _interpretation(m, {})
    return None if it is None else it(f)


def _candidate_then_validate(gpc, ngoal, timeout_ms):
    weak, touched = [], []
    for p in gpc:
        w, was = _instantiate(p)
        weak.append(w)
        if was:
            touched.append(p)
    if not touched:
        return None
    s = z3.Solver()
    s.set("timeout", min(timeout_ms, 8000))
    s.add(*weak)
    s.add(ngoal)
    if s.check() != z3.sat:
        return None
    m = s.model()
    interp = _interpretation(m, _array_definitions(gpc))
    if interp is None:
        return None
    # every assumption (not only the weakened ones: defined arrays were re-read from their definitions) and the negated
    # goal must be valid in the interpretation
    for p in list(gpc) + [ngoal]:
        v = z3.Solver()
        v.set("timeout", 4000)
        v.add(z3.Not(interp(p)))
        if v.check() != z3.unsat:
            return None      # not a model of the original assumptions (or could not be confirmed): no refutation
    return m
_named_enums: dict = {}


def enum_sort(name, values):
    """z3 forbids re-declaring an enumeration sort: cache by (name, values)."""
    key = (name, tuple(values))
    if key not in _named_enums:
        n = name if not any(k[0] == name for k in _named_enums) else f"{name}_{len(_named_enums)}"
        _named_enums[key] = z3.EnumSort(n, list(values))
    return _named_enums[key]
