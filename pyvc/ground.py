"""Finite-scope grounded mode (counterexample search only, never proof).

When SCOPE = n, spec worlds create their uninterpreted sorts as enumerations of n elements (see `usort`).  The
spec-level quantifiers over those finite sorts are then expanded by `ground()` itself (not left to MBQI), so that
z3 decides a quantifier-free (or Int-only quantified) instance and returns a concrete model of pc ∧ ¬goal."""
from __future__ import annotations
import itertools
import z3

SCOPE = None
_enum_cache: dict = {}


def usort(name: str):
    """An uninterpreted sort, or its finite stand-in in grounded mode."""
    if SCOPE is None:
        return z3.DeclareSort(name)
    key = (name, SCOPE)
    if key not in _enum_cache:
        _enum_cache[key] = z3.EnumSort(f"{name}_fin{SCOPE}", [f"{name.lower()}{i}" for i in range(SCOPE)])[0]
    return _enum_cache[key]


def _consts(srt, depth=0):
    if srt.kind() == z3.Z3_BOOL_SORT:
        return [z3.BoolVal(False), z3.BoolVal(True)]
    if srt.kind() == z3.Z3_DATATYPE_SORT:
        out = []
        for i in range(srt.num_constructors()):
            c = srt.constructor(i)
            if c.arity() == 0:
                out.append(c())
            else:
                doms = [_consts(c.domain(j), depth + 1) for j in range(c.arity())]
                if any(d is None for d in doms):
                    return None
                for a in itertools.product(*doms):
                    out.append(c(*a))
                if len(out) > 200:
                    return None
        return out
    return None


def ground(f, budget=[0]):
    if z3.is_quantifier(f):
        doms = [_consts(f.var_sort(i)) for i in range(f.num_vars())]
        if all(d is not None for d in doms):
            n = 1
            for d in doms:
                n *= len(d)
            if n <= 4096:
                insts = [ground(z3.substitute_vars(f.body(), *reversed(c))) for c in itertools.product(*doms)]
                return z3.And(*insts) if f.is_forall() else z3.Or(*insts)
        # partially groundable or Int-quantified: leave to the solver, but ground inside
        return f
    if z3.is_app(f) and f.num_args() > 0:
        ch = [ground(a) for a in f.children()]
        return f.decl()(*ch)
    return f


def check(ob, timeout_ms=20000):
    s = z3.Solver()
    s.set("timeout", timeout_ms)
    try:
        for p in ob.pc:
            s.add(ground(p))
        s.add(z3.Not(ground(ob.goal)))
    except z3.Z3Exception as e:
        return ("unknown", str(e))
    r = s.check()
    if r == z3.sat:
        try:
            m = s.model()
            txt = "\n".join(f"{d.name()} = {m[d]}" for d in m.decls() if "!" not in d.name() or d.arity() == 0)[:6000]
        except Exception:
            txt = ""
        return ("sat", txt)
    return (str(r), "")


_named_enums: dict = {}


def enum_sort(name, values):
    """z3 forbids re-declaring an enumeration sort: cache by (name, values)."""
    key = (name, tuple(values))
    if key not in _named_enums:
        n = name if not any(k[0] == name for k in _named_enums) else f"{name}_{len(_named_enums)}"
        _named_enums[key] = z3.EnumSort(n, list(values))
    return _named_enums[key]
