"""Cross-check of the builtin models (assumption E5) against CPython on enumerated small arguments.

For each modelled operation a concrete argument tuple is turned into z3 terms, the *model* (the same code the
symbolic executor uses) is applied, the resulting term is evaluated by z3 and compared with what CPython computes.
Second part ("engine snippets"): small functions (pyvc/snippets_src.py) are run by CPython and by the symbolic executor on
the same concrete arguments (negative subscripts, short-circuit operators in test and in value position, try/except/else/
finally, dict / set / list statements, calls between functions); the executor must have exactly one feasible path per input
and that path's outcome (value or exception class) must be CPython's.
A disagreement is a checker defect (exit 3), never a verdict about watchdog.  Run by `./check <id> --tier thorough`
(once per run) and by `python3-vt -m pyvc.crosscheck`."""
from __future__ import annotations
import ast, itertools, sys
import z3
from .sym import *
from . import builtins_model


class _Spec:
    qualname = "crosscheck"
    implicit = {"KeyError": "fork", "IndexError": "fork"}
    var_types = {}


class _Ex:
    """the minimum of engine.Ex that builtins_model needs, with concrete write-back capture"""

    def __init__(self):
        self.pc, self.written, self.spec, self.world = [], None, _Spec(), None
        self._n = 0

    def assign(self, node, new):
        self.written = new

    def site(self, n):
        return "site"

    def fresh_term(self, sort, hint="v"):
        self._n += 1
        return z3.Const(f"cc_{hint}{self._n}", sort)

    def assume(self, f):
        self.pc.append(f)

    def oblige(self, *a, **k):
        pass

    def implicit_exc(self, cls, ok, site):
        self.pc.append(("exc", cls, ok))

    def lemma(self, name, f, using=None):
        self.pc.append(f)


def _set_term(vals, universe=range(4)):
    t = z3.K(z3.IntSort(), z3.BoolVal(False))
    for v in vals:
        t = z3.Store(t, v, True)
    return VSet(t, TInt)


def _eval_set(v, ex, universe=range(4)):
    s = z3.Solver()
    for p in ex.pc:
        if not isinstance(p, tuple):
            s.add(p)
    assert s.check() == z3.sat
    m = s.model()
    return {u for u in universe if z3.is_true(m.eval(v.t[u], model_completion=True))}


def _list_term(vals):
    arr = z3.K(z3.IntSort(), z3.IntVal(-99))
    for i, v in enumerate(vals):
        arr = z3.Store(arr, i, v)
    return VList(z3.IntVal(len(vals)), arr, TInt)


def _eval_list(v, ex):
    s = z3.Solver()
    for p in ex.pc:
        if isinstance(p, tuple):
            continue
        if z3.is_quantifier(p) and p.is_forall() and p.num_vars() == 1:
            for i in range(-1, 10):   # concrete lists are short: ground the index quantifier
                s.add(z3.substitute_vars(p.body(), z3.IntVal(i)))
        else:
            s.add(p)
    assert s.check() == z3.sat
    m = s.model()
    n = m.eval(v.n, model_completion=True).as_long()
    return [m.eval(v.arr[i], model_completion=True).as_long() for i in range(n)]


def _raised(ex):
    """did the model say the operation raises (its `ok` condition evaluates to false)?"""
    for p in ex.pc:
        if isinstance(p, tuple):
            if z3.is_false(z3.simplify(p[2])):
                return p[1]
    return None



# ---------------------------------------------------------------------------------------------------------------------
# engine snippets: whole statements / expressions through the real symbolic executor vs CPython
def _snippet_cases():
    lists = [[], [4], [4, 5], [4, 5, 4]]
    ints = [-1, 0, 1, 2, 5]
    dicts = [{}, {1: 5}, {1: 5, 2: 6}]
    sets = [set(), {1}, {1, 2}]
    L, I, D, S, T = "list", "int", "dict", "set", "str"
    strs = ["", "a", "a/b", "a/a/b", "ab"]
    sig = {"neg_load": (L,), "neg_load2": (L,), "neg_store": (L, I), "neg_del": (L,), "idx_load": (L, I), "idx_store": (L, I, I), "idx_del": (L, I), "guarded_last": (L, I), "guarded_or": (L, I),
           "append_then_last": (L, I), "chain": (I, I, I), "tern": (I, I), "aug": (I, I), "bool_or": (I, I), "bool_and": (I, I), "not_in": (L, I), "is_none": (I,), "swap": (I, I), "nested_if": (I, I),
           "try_index": (L, I), "try_finally": (L, I), "dict_get": (D, I), "dict_sub": (D, I), "dict_try": (D, I), "dict_pop": (D, I), "dict_pop_default": (D, I), "dict_del": (D, I), "dict_store": (D, I, I),
           "set_ops": (S, I), "set_remove": (S, I), "try_else": (D, I), "nested_try": (D, L, I), "or_value": (I, I), "and_chain_value": (I, I, I), "early_return": (L, I), "cmp_mix": (I, I),
           "calls_helper": (L, I), "unpack_pair": (I, I), "while_free_swap_store": (L,),
           "str_prefix": (T, T), "str_replace_once": (T, T, T), "str_eq_chain": (T, T), "str_len_slice": (T,), "str_guard": (T, T)}
    dom = {L: lists, I: ints, D: dicts, S: sets, T: strs}
    for name, kinds in sig.items():
        for args in itertools.product(*[dom[k] for k in kinds]):
            if kinds.count(I) == 3 and len({abs(a) for a in args}) > 2 and name == "chain" and args[0] > 2:
                continue
            yield name, kinds, args


def _sym_arg(ex, kind, val, hint):
    """a symbolic value of the executor pinned to the concrete `val` by assumptions (so the executor works on terms, not on
    python constants it could fold)"""
    if kind == "int":
        t = ex.fresh_term(z3.IntSort(), hint)
        ex.assume(t == val)
        return VInt(t)
    if kind == "str":
        t = ex.fresh_term(z3.StringSort(), hint)
        ex.assume(t == z3.StringVal(val))
        return VStr(t, "str")
    if kind == "list":
        n, arr = ex.fresh_term(z3.IntSort(), hint + "n"), ex.fresh_term(z3.ArraySort(z3.IntSort(), z3.IntSort()), hint + "a")
        ex.assume(n == len(val))
        for i, v in enumerate(val):
            ex.assume(arr[i] == v)
        return VList(n, arr, TInt)
    if kind == "dict":
        dom, vals = ex.fresh_term(z3.ArraySort(z3.IntSort(), z3.BoolSort()), hint + "d"), ex.fresh_term(z3.ArraySort(z3.IntSort(), z3.IntSort()), hint + "v")
        k = z3.Int("cc_k")
        ex.assume(z3.ForAll([k], dom[k] == z3.Or([k == a for a in val] + [z3.BoolVal(False)])))
        for a, b in val.items():
            ex.assume(vals[a] == b)
        return VDict(dom, vals, TInt, TInt)
    if kind == "set":
        t = ex.fresh_term(z3.ArraySort(z3.IntSort(), z3.BoolSort()), hint + "s")
        k = z3.Int("cc_k")
        ex.assume(z3.ForAll([k], t[k] == z3.Or([k == a for a in val] + [z3.BoolVal(False)])))
        return VSet(t, TInt)
    raise AssertionError(kind)


def _concretize(v, m, pc):
    """python value of an executor value under the model m"""
    ev = lambda t: m.eval(t, model_completion=True)
    if v is None or isinstance(v, (bool, int)):
        return v
    if isinstance(v, VBool):
        from .engine import _is_qf
        if _is_qf(v.t):
            return z3.is_true(ev(v.t))
        # a quantified truth value (membership in a list): decided by the solver under the (pinned) path condition
        verdicts = []
        for f in (v.t, z3.Not(v.t)):
            sv = z3.Solver()
            sv.set("timeout", 20000)
            _add_grounded(sv, pc)
            sv.add(f)
            verdicts.append(sv.check())
        if verdicts == [z3.sat, z3.unsat]:
            return True
        if verdicts == [z3.unsat, z3.sat]:
            return False
        raise Unsupported(f"truth value undetermined by the pinned input: {verdicts}")
    if isinstance(v, VInt):
        return ev(v.t).as_long()
    if isinstance(v, VStr):
        return ev(v.t).as_string()
    if isinstance(v, str):
        return v
    if isinstance(v, VOpt):
        return _concretize(v.val, m, pc) if z3.is_true(ev(v.some)) else None
    if isinstance(v, VTuple):
        return tuple(_concretize(x, m, pc) for x in v.items)
    if isinstance(v, tuple):
        return tuple(_concretize(x, m, pc) for x in v)
    if isinstance(v, VList):
        n = ev(v.n).as_long()
        return [ev(v.arr[i]).as_long() for i in range(n)]
    raise Unsupported(f"result {v!r}")


def _add_grounded(sv, fs):
    """concrete containers are short: a universally quantified index/key fact is instantiated over a small range instead of
    being handed to the solver as a quantifier (which makes `check` answer unknown)"""
    for p in fs:
        if z3.is_quantifier(p) and p.is_forall() and p.num_vars() == 1:
            for i in range(-3, 10):
                sv.add(z3.substitute_vars(p.body(), z3.IntVal(i)))
        else:
            sv.add(p)


def run_snippets():
    import os, copy
    from . import engine, snippets_src
    path = os.path.join(os.path.dirname(os.path.abspath(__file__)), "snippets_src.py")
    problems, n, unsupported = [], 0, {}
    for name, kinds, args in _snippet_cases():
        fn = getattr(snippets_src, name)
        try:
            want = ("ret", fn(*copy.deepcopy(args)))
        except (IndexError, KeyError) as e:
            want = ("raise", type(e).__name__)
        params = list(fn.__code__.co_varnames[: fn.__code__.co_argcount])
        outcomes = []

        class S(engine.FnSpec):
            relpath, qualname, prop = path, name, "crosscheck"
            implicit = {"KeyError": "fork", "IndexError": "fork"}
            var_types = {}

            def setup(self, ex):
                return {p: _sym_arg(ex, k, a, p) for p, k, a in zip(params, kinds, args)}

            def post(self, ex, result):
                outcomes.append((list(ex.pc), ("ret", result), len(ex.obligations)))

            def post_raise(self, ex, exc, site):
                outcomes.append((list(ex.pc), ("raise", exc.cls), len(ex.obligations)))

        n += 1
        try:
            ex = engine.Ex(S(), None)
            obs = ex.run()
        except Unsupported as e:
            unsupported[name] = str(e)[:120]
            continue
        live = []
        for pc, out, nob in outcomes:
            sv = z3.Solver()
            sv.set("timeout", 20000)
            _add_grounded(sv, pc)
            if sv.check() == z3.sat:
                live.append((pc, out, sv.model()))
        if len(live) != 1:
            problems.append(f"snippet {name}{args}: {len(live)} feasible paths in the executor for one concrete input ({[o for _, o, _ in live]})")
            continue
        pc, out, m = live[0]
        # a safety obligation of this path that is false under the path condition = the executor says the statement raises
        got = out
        for ob in obs:
            if ob.kind == "safety":
                sv = z3.Solver()
                sv.set("timeout", 20000)
                _add_grounded(sv, ob.pc)
                sv.add(z3.Not(ob.goal))
                if sv.check() == z3.sat and all(any(q.get_id() == p.get_id() for q in pc) for p in ob.pc):
                    got = ("raise", ob.name.split("[")[0].replace("no-", ""))
                    break
        try:
            if got[0] == "ret":
                got = ("ret", _concretize(got[1], m, pc))
        except Unsupported as e:
            unsupported[name] = str(e)[:120]
            continue
        norm = lambda x: (x[0], tuple(x[1]) if isinstance(x[1], (list, tuple)) else x[1])
        if norm(got) != norm(want):
            problems.append(f"snippet {name}{args}: executor {got}, CPython {want}")
    return n, problems, unsupported

_node = ast.parse("x.m()").body[0].value


def run():
    problems, n = [], 0
    U = range(4)
    subsets = [set(c) for k in range(4) for c in itertools.combinations(U, k)]
    # ---- sets
    for s0 in subsets:
        for x in U:
            for name in ("add", "remove", "discard"):
                n += 1
                ex = _Ex()
                try:
                    builtins_model.method(ex, _set_term(s0), name, [x], {}, _node)
                    exc = _raised(ex)
                except Exception as e:
                    problems.append(f"set.{name} model crashed: {e!r}")
                    continue
                py = set(s0)
                try:
                    getattr(py, name)(x)
                    pexc = None
                except KeyError:
                    pexc = "KeyError"
                if exc != pexc:
                    problems.append(f"{s0}.{name}({x}): model raises {exc}, CPython {pexc}")
                elif exc is None and _eval_set(ex.written, ex) != py:
                    problems.append(f"{s0}.{name}({x}): model {_eval_set(ex.written, ex)}, CPython {py}")
    # ---- dict.setdefault
    for d0 in ({}, {1: 5}, {1: 5, 2: 6}):
        for k in (1, 2, 3):
            n += 1
            ex = _Ex()
            dom, val = z3.K(z3.IntSort(), z3.BoolVal(False)), z3.K(z3.IntSort(), z3.IntVal(-9))
            for a, b in d0.items():
                dom, val = z3.Store(dom, a, True), z3.Store(val, a, b)
            r = builtins_model.method(ex, VDict(dom, val, TInt, TInt), "setdefault", [k, 7], {}, _node)
            py = dict(d0)
            pr = py.setdefault(k, 7)
            sv = z3.Solver()
            sv.check()
            m = sv.model()
            got_r = m.eval(TInt.unwrap(r), model_completion=True).as_long()
            got_d = {u: m.eval(ex.written.val[u], model_completion=True).as_long() for u in range(5) if z3.is_true(m.eval(ex.written.dom[u], model_completion=True))}
            if got_r != pr or got_d != py:
                problems.append(f"{d0}.setdefault({k}, 7): model returns {got_r} / {got_d}, CPython {pr} / {py}")
    # ---- lists / deque
    lists = [list(c) for k in range(4) for c in itertools.product(range(3), repeat=k)]
    for l0 in lists:
        for name, args in (("append", [7]), ("popleft", []), ("copy", [])):
            n += 1
            ex = _Ex()
            r = builtins_model.method(ex, _list_term(l0), name, args, {}, _node)
            exc = _raised(ex)
            import collections
            py = collections.deque(l0)
            try:
                pr = getattr(py, name)(*args)
                pexc = None
            except IndexError:
                pexc = "IndexError"
            if exc != pexc:
                problems.append(f"deque{l0}.{name}: model raises {exc}, CPython {pexc}")
            elif exc is None and name != "copy" and _eval_list(ex.written, ex) != list(py):
                problems.append(f"deque{l0}.{name}: model {_eval_list(ex.written, ex)}, CPython {list(py)}")
        for other in lists[:8]:
            n += 1
            ex = _Ex()
            builtins_model.method(ex, _list_term(l0), "extend", [_list_term(other)], {}, _node)
            if _eval_list(ex.written, ex) != l0 + other:
                problems.append(f"{l0}.extend({other}): model {_eval_list(ex.written, ex)}")
    # ---- strings: startswith / replace(count=1) / replace (all)
    words = ["", "a", "b", "ab", "ba", "aa", "aab", "aba", "a/a", "a/ab"]
    for s0, a, b in itertools.product(words, ["", "a", "ab", "a/"], ["", "b", "ba"]):
        for name, args in (("startswith", [a]), ("replace", [a, b, 1]), ("replace", [a, b])):
            if name == "replace" and len(args) == 2 and a == "":
                continue  # excluded by precondition (empty directory path)
            n += 1
            ex = _Ex()
            r = builtins_model.method(ex, VStr(z3.StringVal(s0)), name, list(args), {}, _node)
            py = getattr(s0, name)(*args)
            got = z3.simplify(r.t)
            if name == "startswith":
                if z3.is_true(got) != py:
                    problems.append(f"{s0!r}.startswith({a!r}): model {got}, CPython {py}")
            else:
                sv = z3.Solver()
                sv.add(z3.Const("out", z3.StringSort()) == r.t)
                if sv.check() != z3.sat or sv.model()[z3.Const("out", z3.StringSort())].as_string() != py:
                    val = sv.model()[z3.Const("out", z3.StringSort())] if sv.check() == z3.sat else "?"
                    problems.append(f"{s0!r}.replace{tuple(args)}: model {val}, CPython {py!r}")
    # ---- whole statements / expressions through the executor itself
    n_s, pr_s, _unsupported = run_snippets()
    return n + n_s, problems + pr_s


if __name__ == "__main__":
    n, pr = run()
    print(f"crosscheck: {n} model evaluations, {len(pr)} disagreements")
    for p in pr[:10]:
        print("  ", p)
    sys.exit(3 if pr else 0)
