"""Cross-check of the builtin models (assumption E5) against CPython on enumerated small arguments.

For each modelled operation a concrete argument tuple is turned into z3 terms, the *model* (the same code the
symbolic executor uses) is applied, the resulting term is evaluated by z3 and compared with what CPython computes.
A disagreement is a checker defect (exit 3), never a verdict about watchdog.  Run by `./check <id> --tier thorough`
(once per run) and by `python3-vt -m pyvc.crosscheck`."""
from __future__ import annotations
import ast, itertools, sys
import z3
from .sym import *
from . import builtins_model


class _Spec:
    qualname = "crosscheck"
    implicit = {"KeyError": "fork", "IndexError": "fork"}
    var_types = {}


class _Ex:
    """the minimum of engine.Ex that builtins_model needs, with concrete write-back capture"""

    def __init__(self):
        self.pc, self.written, self.spec, self.world = [], None, _Spec(), None
        self._n = 0

    def assign(self, node, new):
        self.written = new

    def site(self, n):
        return "site"

    def fresh_term(self, sort, hint="v"):
        self._n += 1
        return z3.Const(f"cc_{hint}{self._n}", sort)

    def assume(self, f):
        self.pc.append(f)

    def oblige(self, *a, **k):
        pass

    def implicit_exc(self, cls, ok, site):
        self.pc.append(("exc", cls, ok))

    def lemma(self, name, f, using=None):
        self.pc.append(f)


def _set_term(vals, universe=range(4)):
    t = z3.K(z3.IntSort(), z3.BoolVal(False))
    for v in vals:
        t = z3.Store(t, v, True)
    return VSet(t, TInt)


def _eval_set(v, ex, universe=range(4)):
    s = z3.Solver()
    for p in ex.pc:
        if not isinstance(p, tuple):
            s.add(p)
    assert s.check() == z3.sat
    m = s.model()
    return {u for u in universe if z3.is_true(m.eval(v.t[u], model_completion=True))}


def _list_term(vals):
    arr = z3.K(z3.IntSort(), z3.IntVal(-99))
    for i, v in enumerate(vals):
        arr = z3.Store(arr, i, v)
    return VList(z3.IntVal(len(vals)), arr, TInt)


def _eval_list(v, ex):
    s = z3.Solver()
    for p in ex.pc:
        if isinstance(p, tuple):
            continue
        if z3.is_quantifier(p) and p.is_forall() and p.num_vars() == 1:
            for i in range(-1, 10):   # concrete lists are short: ground the index quantifier
                s.add(z3.substitute_vars(p.body(), z3.IntVal(i)))
        else:
            s.add(p)
    assert s.check() == z3.sat
    m = s.model()
    n = m.eval(v.n, model_completion=True).as_long()
    return [m.eval(v.arr[i], model_completion=True).as_long() for i in range(n)]


def _raised(ex):
    """did the model say the operation raises (its `ok` condition evaluates to false)?"""
    for p in ex.pc:
        if isinstance(p, tuple):
            if z3.is_false(z3.simplify(p[2])):
                return p[1]
    return None


_node = ast.parse("x.m()").body[0].value


def run():
    problems, n = [], 0
    U = range(4)
    subsets = [set(c) for k in range(4) for c in itertools.combinations(U, k)]
    # ---- sets
    for s0 in subsets:
        for x in U:
            for name in ("add", "remove", "discard"):
                n += 1
                ex = _Ex()
                try:
                    builtins_model.method(ex, _set_term(s0), name, [x], {}, _node)
                    exc = _raised(ex)
                except Exception as e:
                    problems.append(f"set.{name} model crashed: {e!r}")
                    continue
                py = set(s0)
                try:
                    getattr(py, name)(x)
                    pexc = None
                except KeyError:
                    pexc = "KeyError"
                if exc != pexc:
                    problems.append(f"{s0}.{name}({x}): model raises {exc}, CPython {pexc}")
                elif exc is None and _eval_set(ex.written, ex) != py:
                    problems.append(f"{s0}.{name}({x}): model {_eval_set(ex.written, ex)}, CPython {py}")
    # ---- dict.setdefault
    for d0 in ({}, {1: 5}, {1: 5, 2: 6}):
        for k in (1, 2, 3):
            n += 1
            ex = _Ex()
            dom, val = z3.K(z3.IntSort(), z3.BoolVal(False)), z3.K(z3.IntSort(), z3.IntVal(-9))
            for a, b in d0.items():
                dom, val = z3.Store(dom, a, True), z3.Store(val, a, b)
            r = builtins_model.method(ex, VDict(dom, val, TInt, TInt), "setdefault", [k, 7], {}, _node)
            py = dict(d0)
            pr = py.setdefault(k, 7)
            sv = z3.Solver()
            sv.check()
            m = sv.model()
            got_r = m.eval(TInt.unwrap(r), model_completion=True).as_long()
            got_d = {u: m.eval(ex.written.val[u], model_completion=True).as_long() for u in range(5) if z3.is_true(m.eval(ex.written.dom[u], model_completion=True))}
            if got_r != pr or got_d != py:
                problems.append(f"{d0}.setdefault({k}, 7): model returns {got_r} / {got_d}, CPython {pr} / {py}")
    # ---- lists / deque
    lists = [list(c) for k in range(4) for c in itertools.product(range(3), repeat=k)]
    for l0 in lists:
        for name, args in (("append", [7]), ("popleft", []), ("copy", [])):
            n += 1
            ex = _Ex()
            r = builtins_model.method(ex, _list_term(l0), name, args, {}, _node)
            exc = _raised(ex)
            import collections
            py = collections.deque(l0)
            try:
                pr = getattr(py, name)(*args)
                pexc = None
            except IndexError:
                pexc = "IndexError"
            if exc != pexc:
                problems.append(f"deque{l0}.{name}: model raises {exc}, CPython {pexc}")
            elif exc is None and name != "copy" and _eval_list(ex.written, ex) != list(py):
                problems.append(f"deque{l0}.{name}: model {_eval_list(ex.written, ex)}, CPython {list(py)}")
        for other in lists[:8]:
            n += 1
            ex = _Ex()
            builtins_model.method(ex, _list_term(l0), "extend", [_list_term(other)], {}, _node)
            if _eval_list(ex.written, ex) != l0 + other:
                problems.append(f"{l0}.extend({other}): model {_eval_list(ex.written, ex)}")
    # ---- strings: startswith / replace(count=1) / replace (all)
    words = ["", "a", "b", "ab", "ba", "aa", "aab", "aba", "a/a", "a/ab"]
    for s0, a, b in itertools.product(words, ["", "a", "ab", "a/"], ["", "b", "ba"]):
        for name, args in (("startswith", [a]), ("replace", [a, b, 1]), ("replace", [a, b])):
            if name == "replace" and len(args) == 2 and a == "":
                continue  # excluded by precondition (empty directory path)
            n += 1
            ex = _Ex()
            r = builtins_model.method(ex, VStr(z3.StringVal(s0)), name, list(args), {}, _node)
            py = getattr(s0, name)(*args)
            got = z3.simplify(r.t)
            if name == "startswith":
                if z3.is_true(got) != py:
                    problems.append(f"{s0!r}.startswith({a!r}): model {got}, CPython {py}")
            else:
                sv = z3.Solver()
                sv.add(z3.Const("out", z3.StringSort()) == r.t)
                if sv.check() != z3.sat or sv.model()[z3.Const("out", z3.StringSort())].as_string() != py:
                    val = sv.model()[z3.Const("out", z3.StringSort())] if sv.check() == z3.sat else "?"
                    problems.append(f"{s0!r}.replace{tuple(args)}: model {val}, CPython {py!r}")
    return n, problems


if __name__ == "__main__":
    n, pr = run()
    print(f"crosscheck: {n} model evaluations, {len(pr)} disagreements")
    for p in pr[:10]:
        print("  ", p)
    sys.exit(3 if pr else 0)
