"""Discharge of obligations.  One SMT query per obligation: pc ∧ ¬goal must be unsat.
z3 (python API, in a worker process, fixed seed) first; anything not `unsat` is exported to SMT-LIB and handed to
/usr/bin/cvc5 (--strings-exp) and z3-new as second opinions.  Verdicts: proved / refuted (a model exists) /
unknown.  `unknown` is never turned into a violation by this module."""
from __future__ import annotations
import os, subprocess, sys, time, multiprocessing as mp
import z3

QUICK_MS = int(os.environ.get("PYVC_Z3_MS", "20000"))


def to_smt2(pc, goal, logic=None):
    s = z3.Solver()
    for p in pc:
        s.add(p)
    s.add(z3.Not(goal))
    txt = s.to_smt2()
    # z3's printer may emit an uninterpreted sort after a datatype that mentions it: hoist the sort declarations
    lines = txt.split("\n")
    sorts = [l for l in lines if l.startswith("(declare-sort ")]
    if sorts:
        rest = [l for l in lines if not l.startswith("(declare-sort ")]
        k = next((i for i, l in enumerate(rest) if l.startswith("(declare-") or l.startswith("(assert")), len(rest))
        lines = rest[:k] + sorts + rest[k:]
        txt = "\n".join(lines)
    return txt


def _z3_check(smt2: str, timeout_ms: int, seed: int, want_model: bool):
    s = z3.Solver()
    s.set("timeout", timeout_ms)
    s.set("random_seed", seed)
    try:
        s.from_string(smt2)
    except z3.Z3Exception as e:
        return "error", str(e)[:300], 0.0
    t = time.time()
    r = s.check()
    dt = time.time() - t
    if r == z3.unsat:
        return "unsat", "", dt
    if r == z3.sat:
        m = ""
        if want_model:
            try:
                m = str(s.model())[:4000]
            except Exception:
                m = ""
        return "sat", m, dt
    return "unknown", s.reason_unknown(), dt


def _run_cli(cmd, smt2, timeout_s):
    t = time.time()
    try:
        p = subprocess.run(cmd, input=smt2, capture_output=True, text=True, timeout=timeout_s + 5)
        out = p.stdout.strip().splitlines()
        r = out[0].strip() if out else "unknown"
        if r not in ("sat", "unsat", "unknown"):
            r = "unknown"
        return r, "\n".join(out[1:])[:4000], time.time() - t
    except subprocess.TimeoutExpired:
        return "unknown", "timeout", time.time() - t
    except FileNotFoundError:
        return "unknown", "solver missing", time.time() - t


_OBS = []


def _z3_direct(ob, timeout_ms, seed):
    """in the forked worker the parent's z3 terms are available as-is: no SMT-LIB round trip"""
    s = z3.Solver()
    s.set("timeout", timeout_ms)
    s.set("random_seed", seed)
    s.add(*ob.pc)
    s.add(z3.Not(ob.goal))
    t = time.time()
    r = s.check()
    dt = time.time() - t
    if r == z3.unsat:
        return "unsat", "", dt
    if r == z3.sat:
        try:
            m = str(s.model())[:4000]
        except Exception:
            m = ""
        return "sat", m, dt
    return "unknown", s.reason_unknown(), dt


def _work(job):
    idx, timeout_ms, seed, fallback = job
    ob = _OBS[idx]
    res = {"idx": idx, "tries": []}
    r, info, dt = _z3_direct(ob, timeout_ms, seed)
    res["tries"].append({"backend": "z3-%s(py)" % z3.get_version_string(), "result": r, "s": round(dt, 3)})
    verdict, model, backend = r, info, "z3"
    if r not in ("unsat", "sat") and fallback:
        # second opinions
        smt2 = to_smt2(ob.pc, ob.goal)
        s2 = smt2 if "(check-sat)" in smt2 else smt2 + "\n(check-sat)\n"
        tsec = max(5, min(10, timeout_ms // 1000))
        r2, info2, dt2 = _run_cli(["/usr/bin/cvc5", "--strings-exp", "--lang=smt2", f"--tlimit={tsec*1000}", "-"], s2, tsec)
        res["tries"].append({"backend": "cvc5-1.0.3", "result": r2, "s": round(dt2, 3)})
        if r2 in ("unsat", "sat"):
            verdict, model, backend = r2, info2, "cvc5"
        else:
            r3, info3, dt3 = _run_cli(["/usr/bin/z3", f"-T:{tsec}", "-in"], s2, tsec)
            res["tries"].append({"backend": "z3-4.8.12", "result": r3, "s": round(dt3, 3)})
            if r3 in ("unsat", "sat"):
                verdict, model, backend = r3, info3, "z3-4.8.12"
    res.update(verdict=verdict, model=model if verdict == "sat" else (info if verdict == "unknown" else ""), backend=backend,
               s=round(sum(t["s"] for t in res["tries"]), 3))
    return res


def _pool_run(jobs, procs):
    """Forked worker pool with a watchdog.  A worker forked while a z3 timer thread of the parent held a lock can hang for
    ever (fork + threads); no result for longer than any job may take => the pool is killed and the open jobs are run again
    in a fresh pool, then - if that hangs too - reported as `unknown` (undecided, never a verdict)."""
    import multiprocessing as _mp
    ctx = _mp.get_context("fork")
    todo = {j[0]: j for j in jobs}
    done = {}
    for attempt in (1, 2):
        if not todo:
            break
        pend = list(todo.values())
        # a job may use its z3 budget plus two CLI fallbacks of <= 10 s each
        idle_limit = max(j[1] for j in pend) / 1000.0 + 30 + 60
        pool = ctx.Pool(min(procs, len(pend)))
        try:
            it = pool.imap_unordered(_work, pend, chunksize=1)   # chunksize 1: the iterator supports next(timeout)
            while len(done) < len(jobs) and todo:
                try:
                    r = it.next(timeout=idle_limit)
                except StopIteration:
                    break
                except _mp.TimeoutError:
                    sys.stderr.write(f"solve: no result from the worker pool for {idle_limit:.0f}s ({len(todo)} jobs open), attempt {attempt}: pool killed\n")
                    break
                done[r["idx"]] = r
                todo.pop(r["idx"], None)
        finally:
            pool.terminate()
            pool.join()
    for idx in todo:
        done[idx] = {"idx": idx, "tries": [{"backend": "worker-pool", "result": "unknown", "s": 0.0}], "verdict": "unknown", "model": "solver worker hung twice", "backend": "none", "s": 0.0}
    return list(done.values())


def discharge(obligations, timeout_ms=None, seed=0, procs=None, confirm=False, fallback=True):
    """obligations: list of engine.Obligation.  Returns list of result dicts aligned with the input."""
    global _OBS
    timeout_ms = timeout_ms or QUICK_MS
    _OBS = list(obligations)
    jobs = []
    for i, ob in enumerate(obligations):
        t = timeout_ms
        fb = fallback
        h = getattr(ob, "hints", None)
        if isinstance(h, dict) and h.get("timeout_ms"):
            t = min(t, h["timeout_ms"])
            fb = fallback and not h.get("no_fallback")
        jobs.append((i, t, seed, fb))
    procs = procs or min(16, max(1, len(jobs)))
    if len(jobs) <= 2 or procs == 1:
        out = [_work(j) for j in jobs]
    else:
        out = _pool_run(jobs, procs)
    out.sort(key=lambda r: r["idx"])
    if confirm:
        for r, ob in zip(out, obligations):
            if r["verdict"] == "unsat":
                s2 = to_smt2(ob.pc, ob.goal) + "\n"
                r2, _i, dt = _run_cli(["/usr/bin/cvc5", "--strings-exp", "--lang=smt2", "--tlimit=20000", "-"], s2 if "(check-sat)" in s2 else s2 + "(check-sat)\n", 20)
                r["confirm"] = {"backend": "cvc5-1.0.3", "result": r2, "s": round(dt, 3)}
    return out
