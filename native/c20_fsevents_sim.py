"""C20 demo (FSEvents translation layer).

Drives FSEventsEmitter.queue_events directly with native FSEvents batches that a
documented-semantics simulator would render for small operation histories carried
out on a real scratch directory, then replays the normalized stream on a model of
the initial tree and compares with the real final tree.

exit 0 = property holds, exit 1 = property violated.
"""

from __future__ import annotations

import os
import queue
import shutil
import sys
import tempfile
import types

# --------------------------------------------------------------------------
# Shim for the macOS-only C extension `_watchdog_fsevents`.
# --------------------------------------------------------------------------
F_ROOT_CHANGED = 0x20
F_CREATED = 0x100
F_REMOVED = 0x200
F_INODE_META = 0x400
F_RENAMED = 0x800
F_MODIFIED = 0x1000
F_FINDER_INFO = 0x2000
F_CHOWN = 0x4000
F_XATTR = 0x8000
F_IS_FILE = 0x10000
F_IS_DIR = 0x20000
F_IS_SYMLINK = 0x40000


class NativeEvent:
    def __init__(self, path, inode, flags, event_id):
        self.path = path
        self.inode = inode
        self.flags = flags
        self.event_id = event_id

    def _f(bit):  # noqa: N805
        return property(lambda self: bool(self.flags & bit))

    is_root_changed = _f(F_ROOT_CHANGED)
    is_created = _f(F_CREATED)
    is_removed = _f(F_REMOVED)
    is_inode_meta_mod = _f(F_INODE_META)
    is_renamed = _f(F_RENAMED)
    is_modified = _f(F_MODIFIED)
    is_item_finder_info_modified = _f(F_FINDER_INFO)
    is_owner_change = _f(F_CHOWN)
    is_xattr_mod = _f(F_XATTR)
    is_file = _f(F_IS_FILE)
    is_directory = _f(F_IS_DIR)
    is_symlink = _f(F_IS_SYMLINK)

    def __repr__(self):
        return f"NativeEvent({self.path!r}, inode={self.inode}, flags={self.flags:#x})"


shim = types.ModuleType("_watchdog_fsevents")
shim.NativeEvent = NativeEvent
shim.add_watch = lambda *a, **k: None
shim.remove_watch = lambda *a, **k: None
shim.read_events = lambda *a, **k: None
shim.stop = lambda *a, **k: None
sys.modules["_watchdog_fsevents"] = shim

from watchdog.events import (  # noqa: E402
    DirCreatedEvent,
    DirDeletedEvent,
    DirMovedEvent,
    FileCreatedEvent,
    FileDeletedEvent,
    FileMovedEvent,
)
from watchdog.observers.api import ObservedWatch  # noqa: E402
from watchdog.observers.fsevents import FSEventsEmitter  # noqa: E402


# --------------------------------------------------------------------------
# Helpers
# --------------------------------------------------------------------------
def snapshot(root):
    tree = {}
    for dirpath, dirnames, filenames in os.walk(root):
        for d in dirnames:
            tree[os.path.join(dirpath, d)] = "d"
        for f in filenames:
            tree[os.path.join(dirpath, f)] = "f"
    return tree


def touch(path, data=b"x"):
    with open(path, "wb") as fh:
        fh.write(data)


def ino(path):
    return os.stat(path).st_ino


def replay(model, events, root, problems, label):
    """Replay created/deleted/moved events on `model` (path -> kind)."""
    model = dict(model)

    def subtree(p):
        pre = p + os.sep
        return [q for q in model if q.startswith(pre)]

    for ev in events:
        if isinstance(ev, (FileCreatedEvent, DirCreatedEvent)):
            if ev.src_path in model:
                problems.append(f"{label}: created event for a path that already exists in the replay: {ev!r}")
            model[ev.src_path] = "d" if ev.is_directory else "f"
        elif isinstance(ev, (FileDeletedEvent, DirDeletedEvent)):
            if ev.src_path not in model:
                problems.append(f"{label}: deleted event for a path that does not exist in the replay: {ev!r}")
            for q in subtree(ev.src_path):
                del model[q]
            model.pop(ev.src_path, None)
        elif isinstance(ev, (FileMovedEvent, DirMovedEvent)):
            if ev.src_path in model:
                kind = model.pop(ev.src_path)
                model[ev.dest_path] = kind
                for q in subtree(ev.src_path):
                    model[ev.dest_path + q[len(ev.src_path) :]] = model.pop(q)
            elif ev.dest_path in model:
                pass  # synthetic descendant event of an already replayed directory move
            else:
                problems.append(f"{label}: moved event with unknown source: {ev!r}")
    return model


class Scenario:
    def __init__(self, label):
        self.label = label
        self.base = os.path.realpath(tempfile.mkdtemp(prefix="c20_fsev_"))
        self.root = os.path.join(self.base, "root")
        self.outside = os.path.join(self.base, "outside")
        os.mkdir(self.root)
        os.mkdir(self.outside)
        self._eid = 0

    def start(self, recursive=True, bytes_watch=False):
        self.initial = snapshot(self.root)
        self.q = queue.Queue()
        self.bytes_watch = bytes_watch
        self.errors = []
        self.emitter = FSEventsEmitter(self.q, ObservedWatch(os.fsencode(self.root) if bytes_watch else self.root, recursive=recursive))
        # items that existed before the stream started are known to the emitter
        # only through later events; nothing to do here.

    def ev(self, relpath, inode, flags):
        self._eid += 1
        return NativeEvent(os.path.join(self.root, relpath), inode, flags, self._eid)

    def deliver(self, *batches):
        for batch in batches:
            try:
                self.emitter.queue_events(1.0, list(batch))
            except Exception as e:  # noqa: BLE001  (the native callback would log and drop the rest of the batch)
                self.errors.append(f"queue_events raised {type(e).__name__}: {e}")

    def result(self):
        out = []
        while not self.q.empty():
            out.append(self.q.get()[0])
        if getattr(self, "bytes_watch", False):
            # a watch given as bytes delivers bytes paths, every one of them; compared after decoding
            self.type_errors = [repr(e) for e in out if not isinstance(e.src_path, bytes) or (e.dest_path and not isinstance(e.dest_path, bytes))]
            out = [type(e)(os.fsdecode(e.src_path), os.fsdecode(e.dest_path), is_synthetic=e.is_synthetic) if e.dest_path else type(e)(os.fsdecode(e.src_path), is_synthetic=e.is_synthetic) for e in out]
        return out

    def check(self, problems, expect=None):
        events = self.result()
        for msg in getattr(self, "errors", []):
            problems.append(f"{self.label}: {msg}")
        if getattr(self, "type_errors", None):
            problems.append(f"{self.label}: a watch given as bytes delivered str paths: {self.type_errors[:2]}")
        final_model = replay(self.initial, events, self.root, problems, self.label)
        actual = snapshot(self.root)
        if final_model != actual:
            extra = sorted(set(final_model) - set(actual))
            missing = sorted(set(actual) - set(final_model))
            wrong = sorted(p for p in set(actual) & set(final_model) if actual[p] != final_model[p])
            problems.append(
                f"{self.label}: replay does not reproduce final tree "
                f"(stale={extra}, missing={missing}, wrong-kind={wrong}); stream={events}"
            )
        if expect is not None:
            expect(events, problems)
        shutil.rmtree(self.base, ignore_errors=True)


def main():
    problems = []

    # S1: rename of a file inside the watched tree.
    s = Scenario("S1 rename file inside")
    touch(os.path.join(s.root, "a"))
    s.start()
    i = ino(os.path.join(s.root, "a"))
    os.rename(os.path.join(s.root, "a"), os.path.join(s.root, "b"))
    s.deliver([s.ev("a", i, F_RENAMED | F_IS_FILE), s.ev("b", i, F_RENAMED | F_IS_FILE)])

    def exp1(events, problems, s=s):
        moved = [e for e in events if isinstance(e, FileMovedEvent)]
        if len(moved) != 1 or (moved[0].src_path, moved[0].dest_path) != (
            os.path.join(s.root, "a"),
            os.path.join(s.root, "b"),
        ):
            problems.append(f"S1: expected exactly one FileMovedEvent a->b, got {events}")

    s.check(problems, exp1)

    # S2: rename of a directory with descendants inside a recursive watch.
    s = Scenario("S2 rename dir inside")
    os.makedirs(os.path.join(s.root, "d", "s"))
    touch(os.path.join(s.root, "d", "x"))
    touch(os.path.join(s.root, "d", "s", "y"))
    s.start()
    i = ino(os.path.join(s.root, "d"))
    os.rename(os.path.join(s.root, "d"), os.path.join(s.root, "e"))
    s.deliver([s.ev("d", i, F_RENAMED | F_IS_DIR), s.ev("e", i, F_RENAMED | F_IS_DIR)])

    def exp2(events, problems, s=s):
        moved = {(e.src_path, e.dest_path) for e in events if isinstance(e, (FileMovedEvent, DirMovedEvent))}
        want = {
            (os.path.join(s.root, "d" + t), os.path.join(s.root, "e" + t))
            for t in ("", os.sep + "x", os.sep + "s", os.sep + "s" + os.sep + "y")
        }
        if moved != want:
            problems.append(f"S2: moved events {sorted(moved)} != expected {sorted(want)}")

    s.check(problems, exp2)

    # S3: move into the watched tree -> created.
    s = Scenario("S3 move in")
    touch(os.path.join(s.outside, "f"))
    s.start()
    i = ino(os.path.join(s.outside, "f"))
    os.rename(os.path.join(s.outside, "f"), os.path.join(s.root, "f"))
    s.deliver([s.ev("f", i, F_RENAMED | F_IS_FILE)])
    s.check(problems)

    # S4: move out of the watched tree -> deleted.
    s = Scenario("S4 move out")
    touch(os.path.join(s.root, "a"))
    s.start()
    i = ino(os.path.join(s.root, "a"))
    os.rename(os.path.join(s.root, "a"), os.path.join(s.outside, "a"))
    s.deliver([s.ev("a", i, F_RENAMED | F_IS_FILE)])
    s.check(problems)

    # S5: a directory is moved out of the watched tree and a *different* item is
    # created at the same path before the notification batch is processed.
    # FSEvents never coalesces events of different items at one path, so the
    # batch holds two events for root/d: (old inode, renamed) and (new inode, created).
    for cut in (False, True):
        s = Scenario(f"S5 move dir out, re-create file at same path (batch cut={cut})")
        os.mkdir(os.path.join(s.root, "d"))
        touch(os.path.join(s.root, "d", "x"))
        s.start()
        i_old = ino(os.path.join(s.root, "d"))
        os.rename(os.path.join(s.root, "d"), os.path.join(s.outside, "d"))
        touch(os.path.join(s.root, "d"))
        i_new = ino(os.path.join(s.root, "d"))
        assert i_old != i_new
        e1 = s.ev("d", i_old, F_RENAMED | F_IS_DIR)
        e2 = s.ev("d", i_new, F_CREATED | F_IS_FILE)
        if cut:
            s.deliver([e1], [e2])
        else:
            s.deliver([e1, e2])
        s.check(problems)

    # S6: same with a file replaced by another file at the same path.
    s = Scenario("S6 move file out, re-create file at same path")
    touch(os.path.join(s.root, "a"), b"old")
    s.start()
    i_old = ino(os.path.join(s.root, "a"))
    os.rename(os.path.join(s.root, "a"), os.path.join(s.outside, "a"))
    touch(os.path.join(s.root, "a"), b"new")
    i_new = ino(os.path.join(s.root, "a"))
    assert i_old != i_new
    s.deliver([s.ev("a", i_old, F_RENAMED | F_IS_FILE), s.ev("a", i_new, F_CREATED | F_MODIFIED | F_IS_FILE)])
    s.check(problems)

    # S7/S8: rename inside the tree and removal of the new name in the same batch: the destination's native event carries
    # the coalesced flags renamed|removed (per item and path) and is paired with the source's event by inode
    for isdir in (False, True):
        s = Scenario(f"S7 rename {'dir' if isdir else 'file'} a->b then remove b, one batch")
        if isdir:
            os.mkdir(os.path.join(s.root, "a"))
        else:
            touch(os.path.join(s.root, "a"))
        s.start()
        i = ino(os.path.join(s.root, "a"))
        os.rename(os.path.join(s.root, "a"), os.path.join(s.root, "b"))
        (os.rmdir if isdir else os.unlink)(os.path.join(s.root, "b"))
        kind = F_IS_DIR if isdir else F_IS_FILE
        s.deliver([s.ev("a", i, F_RENAMED | kind), s.ev("b", i, F_RENAMED | F_REMOVED | kind)])
        s.check(problems)

    # S9: rename and modification of the new name in one batch (renamed|modified on the destination)
    s = Scenario("S9 rename file a->b then modify b, one batch")
    touch(os.path.join(s.root, "a"))
    s.start()
    i = ino(os.path.join(s.root, "a"))
    os.rename(os.path.join(s.root, "a"), os.path.join(s.root, "b"))
    touch(os.path.join(s.root, "b"), b"more")
    s.deliver([s.ev("a", i, F_RENAMED | F_IS_FILE), s.ev("b", i, F_RENAMED | F_MODIFIED | F_IS_FILE)])

    def exp9(events, problems, s=s):
        bad = [e for e in events if not e.src_path.startswith(s.root) or (getattr(e, "dest_path", "") and not e.dest_path.startswith(s.root))]
        mods = [e for e in events if type(e).__name__ == "FileModifiedEvent" and e.src_path != os.path.join(s.root, "b")]
        if bad or mods:
            problems.append(f"S9: modification of the renamed file reported for the wrong path: {events}")

    s.check(problems, exp9)

    # S10: the delete arrives in a later batch (control: must behave like S7)
    s = Scenario("S10 rename file a->b, remove b in the next batch")
    touch(os.path.join(s.root, "a"))
    s.start()
    i = ino(os.path.join(s.root, "a"))
    os.rename(os.path.join(s.root, "a"), os.path.join(s.root, "b"))
    os.unlink(os.path.join(s.root, "b"))
    s.deliver([s.ev("a", i, F_RENAMED | F_IS_FILE), s.ev("b", i, F_RENAMED | F_IS_FILE)], [s.ev("b", i, F_REMOVED | F_IS_FILE)])
    s.check(problems)

    # S11: an inode number is re-used: f created (batch 1); f written and removed - one coalesced created|modified|removed
    # event (batch 2); a NEW file g is created and happens to get the freed inode number (batch 3): g's creation is a real one
    s = Scenario("S11 create, coalesced create|modify|remove, new file with the re-used inode number")
    s.start()
    touch(os.path.join(s.root, "f"))
    i = ino(os.path.join(s.root, "f"))
    s.deliver([s.ev("f", i, F_CREATED | F_IS_FILE)])
    os.unlink(os.path.join(s.root, "f"))
    s.deliver([s.ev("f", i, F_CREATED | F_MODIFIED | F_REMOVED | F_IS_FILE)])
    touch(os.path.join(s.root, "g"))
    real_stat = os.stat

    class _St:
        def __init__(self, st, ino_):
            self._st, self.st_ino = st, ino_

        def __getattr__(self, n):
            return getattr(self._st, n)

    def fake_stat(path, *a, **k):
        st = real_stat(path, *a, **k)
        return _St(st, i) if os.fspath(path) == os.path.join(s.root, "g") else st
    os.stat = fake_stat
    try:
        s.deliver([s.ev("g", i, F_CREATED | F_IS_FILE)])
    finally:
        os.stat = real_stat
    s.check(problems)

    # S13: the same re-use after a PLAIN removal (its own event, own batch), for a file and for a directory, also with a write
    # in between: the new item's creation is real and must be reported - replay must reproduce the tree
    for kind, wrote in (("file", False), ("file", True), ("dir", False)):
        s = Scenario(f"S13 create, {'write, ' if wrote else ''}remove (own event), new {kind} with the re-used inode number")
        s.start()
        fl = F_IS_FILE if kind == "file" else F_IS_DIR
        pf, pg = os.path.join(s.root, "f"), os.path.join(s.root, "g")
        (touch(pf) if kind == "file" else os.mkdir(pf))
        i = ino(pf)
        s.deliver([s.ev("f", i, F_CREATED | fl)])
        if wrote:
            touch(pf, b"more")
            s.deliver([s.ev("f", i, F_MODIFIED | fl)])
        (os.unlink(pf) if kind == "file" else os.rmdir(pf))
        s.deliver([s.ev("f", i, F_REMOVED | fl)])
        (touch(pg) if kind == "file" else os.mkdir(pg))
        real_stat = os.stat

        def fake_stat13(path, *a, _pg=pg, _i=i, **k):
            st = real_stat(path, *a, **k)
            return _St(st, _i) if os.fspath(path) == _pg else st
        os.stat = fake_stat13
        try:
            s.deliver([s.ev("g", i, F_CREATED | fl)])
            if kind == "file":
                os.stat = real_stat
                os.rename(pg, os.path.join(s.root, "h"))
                s.deliver([s.ev("g", i, F_RENAMED | fl), s.ev("h", i, F_RENAMED | fl)])
        finally:
            os.stat = real_stat
        s.check(problems)

    # S14: the same stream contract for a watch whose path was given as bytes: a directory with descendants renamed inside the
    # tree plus a creation in the same batch - one moved event + synthetic descendants, everything as bytes, replay = tree
    for bw in (False, True):
        s = Scenario(f"S14 rename a populated directory + create, {'bytes' if bw else 'str'} watch path")
        os.makedirs(os.path.join(s.root, "d", "sub"))
        touch(os.path.join(s.root, "d", "x"))
        touch(os.path.join(s.root, "d", "sub", "y"))
        s.start(bytes_watch=bw)
        idd = ino(os.path.join(s.root, "d"))
        os.rename(os.path.join(s.root, "d"), os.path.join(s.root, "e"))
        touch(os.path.join(s.root, "f"))
        i_f = ino(os.path.join(s.root, "f"))
        s.deliver([s.ev("d", idd, F_RENAMED | F_IS_DIR), s.ev("e", idd, F_RENAMED | F_IS_DIR), s.ev("f", i_f, F_CREATED | F_IS_FILE)])

        def exp14(events, problems, s=s):
            dm = [(e.src_path, e.dest_path, e.is_synthetic) for e in events if isinstance(e, DirMovedEvent)]
            fm = sorted((e.src_path, e.dest_path) for e in events if isinstance(e, FileMovedEvent) and e.is_synthetic)
            R = lambda *p: os.path.join(s.root, *p)
            if (R("d"), R("e"), False) not in dm or (R("d", "sub"), R("e", "sub"), True) not in dm or fm != sorted([(R("d", "x"), R("e", "x")), (R("d", "sub", "y"), R("e", "sub", "y"))]):
                problems.append(f"{s.label}: one moved event for the directory plus one synthetic moved event per descendant expected; directory moves {dm}, synthetic file moves {fm}")
            if not [e for e in events if isinstance(e, FileCreatedEvent) and e.src_path == R("f")]:
                problems.append(f"{s.label}: the creation later in the same batch was not reported")
        s.check(problems, exp14)

    # S12: two renames whose halves interleave in one batch (per-item coalescing moves the destination of the first behind
    # the second rename): each is one moved event with both paths
    for order in ("dest-last", "src-first"):
        s = Scenario(f"S12 interleaved renames in one batch ({order})")
        touch(os.path.join(s.root, "x.txt"))
        os.mkdir(os.path.join(s.root, "d"))
        s.start()
        ix, idd = ino(os.path.join(s.root, "x.txt")), ino(os.path.join(s.root, "d"))
        os.rename(os.path.join(s.root, "x.txt"), os.path.join(s.root, "y.txt"))
        os.rename(os.path.join(s.root, "d"), os.path.join(s.root, "e"))
        touch(os.path.join(s.root, "y.txt"), b"more")
        if order == "dest-last":
            batch = [s.ev("x.txt", ix, F_RENAMED | F_IS_FILE), s.ev("d", idd, F_RENAMED | F_IS_DIR), s.ev("e", idd, F_RENAMED | F_IS_DIR), s.ev("y.txt", ix, F_RENAMED | F_MODIFIED | F_IS_FILE)]
        else:
            batch = [s.ev("x.txt", ix, F_RENAMED | F_MODIFIED | F_IS_FILE), s.ev("d", idd, F_RENAMED | F_IS_DIR), s.ev("y.txt", ix, F_RENAMED | F_IS_FILE), s.ev("e", idd, F_RENAMED | F_IS_DIR)]
        s.deliver(batch)

        def exp12(events, problems, s=s, order=order):
            fm = [(e.src_path, e.dest_path) for e in events if isinstance(e, FileMovedEvent)]
            dm = [(e.src_path, e.dest_path) for e in events if isinstance(e, DirMovedEvent)]
            if fm != [(os.path.join(s.root, "x.txt"), os.path.join(s.root, "y.txt"))] or dm != [(os.path.join(s.root, "d"), os.path.join(s.root, "e"))]:
                problems.append(f"S12 ({order}): each rename inside the tree must be one moved event with both paths; file moves {fm}, directory moves {dm}; stream={events}")

        s.check(problems, exp12)

    if problems:
        print("C20 VIOLATED:")
        for p in problems:
            print("  -", p)
        return 1
    print("C20 holds on all scenarios")
    return 0


if __name__ == "__main__":
    sys.exit(main())
