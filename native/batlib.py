"""Helpers for the native contract batteries (run under /venv/bin/python against /repo/src).
A battery is a *bounded stand-in*: it evaluates the executable form of a property's top-level contract on the
real code over an exhaustive small scope.  Its numbers are reported under `bounded`, never as proof."""
import json, os, sys, random

TIER = os.environ.get("VERIF_TIER", "quick")
SEED = int(os.environ.get("VERIF_SEED", "0") or 0)
REPLAY = json.loads(os.environ["VERIF_REPLAY"]) if os.environ.get("VERIF_REPLAY") else None
rng = random.Random(SEED)


class Battery:
    def __init__(self, scope):
        self.scope = scope
        self.cases = 0
        self.distinct = set()
        self.failures = []
        self.samples = []

    def case(self, sig, nontrivial=True, desc=None):
        self.cases += 1
        if nontrivial:
            self.distinct.add(sig if isinstance(sig, (str, int)) else repr(sig))
        if len(self.samples) < 3 and nontrivial and self.cases % 97 == 1:
            d = desc if desc is not None else sig
            self.samples.append(d if isinstance(d, (str, int, list, dict)) else repr(d))

    def fail(self, key, what, case, fn=""):
        if len(self.failures) < 25:
            self.failures.append({"key": key, "what": what, "case": case, "fn": fn})

    def finish(self):
        out = {"cases": self.cases, "distinct": len(self.distinct), "failures": self.failures, "samples": self.samples[:3], "scope": self.scope}
        print("BATTERY-JSON " + json.dumps(out, default=repr))


def replay_result(failed: bool, detail=""):
    print(("REPLAY-FAILS " if failed else "REPLAY-PASSES ") + str(detail)[:1500])
    sys.exit(0)
