"""C09 battery [bounded]: all pairs of flat trees over a small universe through the injectable stat/listdir,
compared with an oracle written from the property statement (not from the code)."""
import itertools, os, stat as statmod, sys
from batlib import Battery, TIER, REPLAY, rng, replay_result
from watchdog.utils.dirsnapshot import DirectorySnapshot, DirectorySnapshotDiff, EmptyDirectorySnapshot

ROOT = "/r"


class St:
    def __init__(self, ino, dev, mtime, size, isdir):
        self.st_ino, self.st_dev, self.st_mtime, self.st_size = ino, dev, mtime, size
        self.st_mode = (statmod.S_IFDIR if isdir else statmod.S_IFREG) | 0o644


class Ent:
    def __init__(self, name):
        self.name = name
        # a custom listdir (PollingObserverVFS) may hand out entries whose .path lies in a backing store: the snapshot's paths
        # are built from the directory being listed and the entry's NAME
        self.path = "/backing-store/" + name


def build(tree, recursive=True):
    """tree: {path: (ino, dev, mtime, size, isdir)} including ROOT"""
    def st(p):
        if p not in tree:
            raise FileNotFoundError(p)
        return St(*tree[p])

    def ls(p):
        if p not in tree:
            raise FileNotFoundError(p)
        if not tree[p][4]:
            raise NotADirectoryError(p)
        pre = p + "/"
        return [Ent(q[len(pre):]) for q in sorted(tree) if q.startswith(pre) and "/" not in q[len(pre):]]
    return DirectorySnapshot(ROOT, recursive=recursive, stat=st, listdir=ls)


def expected(ref, snap, ignore_device=False):
    ident = (lambda t, p: t[p][0]) if ignore_device else (lambda t, p: (t[p][0], t[p][1]))
    ids_ref = {ident(ref, p): p for p in ref}
    ids_snap = {ident(snap, p): p for p in snap}
    moved = {(p, ids_snap[ident(ref, p)]) for p in ref if ident(ref, p) in ids_snap and ids_snap[ident(ref, p)] != p}
    created = {q for q in snap if ident(snap, q) not in ids_ref}
    deleted = {p for p in ref if ident(ref, p) not in ids_snap}
    ch = lambda a, b: ref[a][2] != snap[b][2] or ref[a][3] != snap[b][3]
    modified = {p for p in ref if p in snap and ident(ref, p) == ident(snap, p) and ch(p, p)} | {p for (p, q) in moved if ch(p, q)}
    return {
        "dirs_created": {p for p in created if snap[p][4]}, "files_created": {p for p in created if not snap[p][4]},
        "dirs_deleted": {p for p in deleted if ref[p][4]}, "files_deleted": {p for p in deleted if not ref[p][4]},
        "dirs_modified": {p for p in modified if ref[p][4]}, "files_modified": {p for p in modified if not ref[p][4]},
        "dirs_moved": {m for m in moved if ref[m[0]][4]}, "files_moved": {m for m in moved if not ref[m[0]][4]},
    }


LISTS = ["dirs_created", "files_created", "dirs_deleted", "files_deleted", "dirs_modified", "files_modified", "dirs_moved", "files_moved"]


def check_pair(ref, snap, ignore_device=False, via_sub=False, recursive=True):
    # the trees are one level deep: a non-recursive snapshot lists exactly the same entries, and must classify them the same
    a, b = build(ref, recursive), build(snap, recursive)
    d = (b - a) if via_sub else DirectorySnapshotDiff(a, b, ignore_device=ignore_device)
    exp = expected(ref, snap, ignore_device)
    problems = []
    for l in LISTS:
        got = getattr(d, l)
        gs = set(map(tuple, got)) if "moved" in l else set(got)
        if len(got) != len(gs):
            problems.append(f"{l} has duplicates: {got}")
        if gs != exp[l]:
            problems.append(f"{l}: got {sorted(gs)} expected {sorted(exp[l])}")
    if not ignore_device:
        moved = set(map(tuple, d.dirs_moved)) | set(map(tuple, d.files_moved))
        lhs = (set(ref) - set(d.dirs_deleted) - set(d.files_deleted) - {m[0] for m in moved}) | set(d.dirs_created) | set(d.files_created) | {m[1] for m in moved}
        if lhs != set(snap):
            problems.append(f"path-set law: {sorted(lhs)} != {sorted(snap)}")
    return problems


def snapshots(names, inos, mtimes, kinds=(False, True)):
    root = {ROOT: (100, 1, 0, 0, True)}
    out = []
    for k in range(len(names) + 1):
        for sub in itertools.combinations(names, k):
            for ii in itertools.permutations(inos, k):
                for kk in itertools.product(kinds, repeat=k):
                    for mm in itertools.product(mtimes, repeat=k):
                        t = dict(root)
                        for n, i, kd, m in zip(sub, ii, kk, mm):
                            t[ROOT + "/" + n] = (i, 1, m[0], m[1], kd)   # m = (mtime, size): size may change under an unchanged mtime
                        out.append(t)
    return out


def main():
    if REPLAY is not None:
        ref = {k: tuple(v) for k, v in REPLAY["ref"].items()}
        snap = {k: tuple(v) for k, v in REPLAY["snap"].items()}
        pr = check_pair(ref, snap, REPLAY.get("ignore_device", False), REPLAY.get("via_sub", False), REPLAY.get("recursive", True))
        replay_result(bool(pr), pr)
    bat = Battery({"names": 2 if TIER == "quick" else 3, "inodes": 3, "(mtime,size)": 3, "kinds": 2, "pairs": "16000 random of 64009 (quick) / all 2-name + 60000 random 3-name (thorough)"})
    MS = [(0, 0), (1, 0), (0, 1)]
    snaps = snapshots(["a", "b"], [1, 2, 3], MS)
    pairs = itertools.product(snaps, snaps)
    if TIER != "thorough":
        allp = list(pairs)
        rng.shuffle(allp)
        pairs = allp[:16000]
    if TIER == "thorough":
        big = snapshots(["a", "b", "ab"], [1, 2, 3], MS)
        pairs = itertools.chain(pairs, ((rng.choice(big), rng.choice(big)) for _ in range(60000)))
    n = 0
    for ref, snap in pairs:
        n += 1
        via_sub = (n % 7 == 0)
        pr = check_pair(ref, snap, False, via_sub)
        sig = (tuple(sorted(ref.items())), tuple(sorted(snap.items())))
        bat.case(hash(sig), nontrivial=(ref != snap), desc={"ref": {k: list(v) for k, v in ref.items()}, "snap": {k: list(v) for k, v in snap.items()}})
        if pr:
            bat.fail("C09.diff-laws", pr[0], {"ref": ref, "snap": snap, "ignore_device": False, "via_sub": via_sub, "problems": pr[:3]}, "DirectorySnapshotDiff.__init__")
        if n % 3 == 0:
            bat.case(hash((sig, "non-recursive")))
            pr = check_pair(ref, snap, False, False, False)
            if pr:
                bat.fail("C09.diff-laws(non-recursive snapshots)", pr[0], {"ref": ref, "snap": snap, "ignore_device": False, "via_sub": False, "recursive": False, "problems": pr[:3]}, "DirectorySnapshot.walk")
        if n % 5 == 0:
            # law 7: pure device change with ignore_device
            snap2 = {p: (v[0], 2, v[2], v[3], v[4]) for p, v in ref.items()}
            d = DirectorySnapshotDiff(build(ref), build(snap2), ignore_device=True)
            bat.case(hash((sig[0], "dev")))
            if any(getattr(d, l) for l in LISTS):
                bat.fail("C09.ignore-device", "pure st_dev change reported as a change", {"ref": ref, "snap": snap2, "ignore_device": True}, "DirectorySnapshotDiff.__init__")
            pr = check_pair(ref, snap, True)
            if pr:
                bat.fail("C09.diff-laws-ignore-device", pr[0], {"ref": ref, "snap": snap, "ignore_device": True, "problems": pr[:3]}, "DirectorySnapshotDiff.__init__")
    # the root's own identity takes part in the change (mv r r_old; mv r_old/a r  and the reverse): the second snapshot's
    # root carries the inode of a directory of the first, or the other way round
    k = 0
    for ref, snap in (allp if TIER != "thorough" else list(itertools.product(snaps, snaps)))[:: 7]:
        dref = [p for p, v in ref.items() if v[4] and p != ROOT]
        if not dref:
            continue
        for swap_in_snap in (True, False):
            a, b = dict(ref), dict(snap)
            tgt, other = (b, a) if swap_in_snap else (a, b)
            donor = other[dref[0]] if dref[0] in other and other[dref[0]][4] else None
            if donor is None:
                continue
            tgt[ROOT] = (donor[0], 1, tgt[ROOT][2], 0, True)
            if len({v[0] for v in tgt.values()}) != len(tgt):
                continue        # inodes are unique within one snapshot
            k += 1
            bat.case(hash(("rootid", tuple(sorted(a.items())), tuple(sorted(b.items())))), desc={"ref": {q: list(v) for q, v in a.items()}, "snap": {q: list(v) for q, v in b.items()}, "note": "root identity moves"})
            pr = check_pair(a, b, False, False)
            if pr:
                bat.fail("C09.diff-laws(root identity takes part)", pr[0], {"ref": a, "snap": b, "ignore_device": False, "via_sub": False, "problems": pr[:3]}, "DirectorySnapshot.__init__")
    # empty snapshot as reference: everything is created
    for snap in snaps[:: max(1, len(snaps) // 40)]:
        d = DirectorySnapshotDiff(EmptyDirectorySnapshot(), build(snap))
        bat.case(hash(("empty", tuple(sorted(snap.items())))))
        if set(d.files_created) | set(d.dirs_created) != set(snap) or d.files_deleted or d.dirs_deleted or d.files_moved or d.dirs_moved or d.files_modified or d.dirs_modified:
            bat.fail("C09.empty-ref", "diff against EmptyDirectorySnapshot is not 'everything created'", {"snap": snap}, "EmptyDirectorySnapshot")
    bat.finish()


main()
