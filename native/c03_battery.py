"""C03/C19 battery [bounded]: canned native records (every event bit x IN_ISDIR) and rename pairs through the real
InotifyEmitter / InotifyFullEmitter.queue_events with str, bytes and pathlib roots on a real scratch tree (so the
synthetic sub-event generators walk something); oracle: the statement's translation table + path type/name rules."""
import itertools, os, pathlib, queue, shutil, sys, tempfile
from batlib import Battery, TIER, REPLAY, rng, replay_result
import watchdog.events as E
from watchdog.observers.api import ObservedWatch, EventQueue
from watchdog.observers.inotify import InotifyEmitter, InotifyFullEmitter
from watchdog.observers.inotify_c import InotifyEvent, InotifyConstants as C
sys.path.insert(0, os.path.join(os.path.dirname(os.path.abspath(__file__)), ".."))
from specs import inotify_table as T

WHICH = os.environ.get("C03_BATTERY_PROP", "C03")


class Stub:
    def __init__(self, items):
        self.items = list(items)

    def read_event(self):
        return self.items.pop(0) if self.items else None


def descendants(top):
    out = []
    for root, dirs, files in os.walk(top):
        for d in dirs:
            out.append((os.path.join(root, d), True))
        for f in files:
            out.append((os.path.join(root, f), False))
    return out


def run_case(base, rootkind, recursive, full, shape, kind, isdir, at_root, variant="bad"):
    """returns problems"""
    rootb = os.fsencode(os.path.join(base, "r\udcff" if False else "r"))
    nameb = b"d\xff" if isdir else b"f\xff"       # undecodable byte in the entry name
    if variant == "nfd":
        nameb = "e\u0301x".encode() if not isdir else "d\u1100\u1161".encode()  # valid UTF-8 that is not NFC-normalised
    name2b = b"e\xff"
    native = rootb if at_root else rootb + b"/" + nameb
    native2 = rootb + b"/" + name2b
    wpath = {"str": os.fsdecode(rootb), "bytes": rootb, "pathlib": pathlib.Path(os.fsdecode(rootb))}[rootkind]
    w = ObservedWatch(wpath, recursive=recursive)
    q = queue.Queue()  # a plain queue: observe everything offered, without the coalescing of EventQueue (C16)
    em = (InotifyFullEmitter if full else InotifyEmitter)(q, w)
    stopped = []
    em.stop = lambda: stopped.append(1)
    mask = T.ABI[kind] | (C.IN_ISDIR if isdir else 0)
    if shape == "pair":
        item = (InotifyEvent(1, C.IN_MOVED_FROM | (C.IN_ISDIR if isdir else 0), 7, nameb, native), InotifyEvent(1, C.IN_MOVED_TO | (C.IN_ISDIR if isdir else 0), 7, name2b, native2))
    else:
        item = InotifyEvent(1, mask, 0, b"" if at_root else nameb, native)
    em._inotify = Stub([item])
    em.queue_events(0)
    got = []
    while True:
        try:
            got.append(q.get_nowait()[0])
        except queue.Empty:
            break
    want_bytes = rootkind == "bytes"
    dec = (lambda b: b) if want_bytes else os.fsdecode
    empty = ""
    problems = []
    # ---- expected by the table
    if shape == "pair":
        rows = T.pair(isdir, recursive)
        vals = {"src": dec(native), "dst": dec(native2), "src_parent": os.path.dirname(dec(native)), "dst_parent": os.path.dirname(dec(native2)), "": empty}
    else:
        rows = T.single(kind, isdir, full, recursive, at_root)
        vals = {"path": dec(native), "parent": os.path.dirname(dec(native)), "": empty}
    exp = []
    for r in rows:
        if len(r) == 3:
            exp.append(getattr(E, r[0])(vals[r[1]], vals[r[2]]))
        elif r[0] == "SUB_CREATED":
            for p, d in descendants(dec(native)):
                exp.append((E.DirCreatedEvent if d else E.FileCreatedEvent)(p, is_synthetic=True))
        elif r[0] == "SUB_MOVED":
            for p, d in descendants(dec(native2)):
                exp.append((E.DirMovedEvent if d else E.FileMovedEvent)(dec(native) + p[len(dec(native2)):], p, is_synthetic=True))
    if WHICH == "C03":
        if got != exp:
            problems.append(f"{shape} {kind}{'|ISDIR' if isdir else ''} recursive={recursive} full={full} root={at_root} [{rootkind}]: got {got} expected {exp}")
        if bool(stopped) != any(r == ("STOP",) for r in rows):
            problems.append(f"{shape} {kind} root={at_root}: stop() called={bool(stopped)}")
    else:
        ty = bytes if want_bytes else str
        for ev in got:
            for pth in (ev.src_path, ev.dest_path):
                if pth and not isinstance(pth, ty):
                    problems.append(f"{shape} {kind} [{rootkind}]: event path {pth!r} is {type(pth).__name__}, watch path type is {ty.__name__}")
        natives = {native, native2, os.path.dirname(native), os.path.dirname(native2)} | {os.fsencode(p) for p, _ in descendants(dec(native2 if shape == 'pair' else native))} if True else set()
        for ev in got:
            for pth in (ev.src_path, ev.dest_path):
                if pth and os.fsencode(pth) not in natives and not ev.is_synthetic:
                    problems.append(f"{shape} {kind} [{rootkind}]: fsencode({pth!r}) does not name the native entry")
    return problems


def phantom():
    """C03 known finding: a watched directory moved out of the tree keeps its kernel watch and its old path in the
    map: a later change inside it is reported under a path that no longer exists in the watched scope"""
    import select
    from watchdog.observers.inotify_c import Inotify
    b = tempfile.mkdtemp(prefix="c03p")
    out = []
    try:
        root, outside = os.path.join(b, "root"), os.path.join(b, "out")
        os.makedirs(os.path.join(root, "d"))
        os.mkdir(outside)
        ino = Inotify(root.encode(), recursive=True)

        def drain():
            evs = []
            while True:
                p = select.poll()
                p.register(ino._inotify_fd, select.POLLIN)
                if not p.poll(20):
                    return evs
                evs.extend(ino.read_events())
        os.rename(os.path.join(root, "d"), os.path.join(outside, "d"))
        drain()
        open(os.path.join(outside, "d", "f"), "w").close()
        ph = [e.src_path for e in drain() if e.is_create]
        ino.close()
        if ph:
            out.append(f"after `mv root/d out/d`, `touch out/d/f` is reported as a creation of {ph[0]!r} (an entry that does not exist in the watched tree)")
    finally:
        shutil.rmtree(b, ignore_errors=True)
    return out


def main():
    base = tempfile.mkdtemp(prefix="c03b")
    try:
        r = os.path.join(os.fsencode(base), b"r")
        os.makedirs(r + b"/d\xff/sub")
        open(r + b"/d\xff/sub/x", "w").close()
        open(r + b"/d\xff/y\xfe", "w").close()
        os.makedirs(r + b"/e\xff/k")
        open(r + b"/e\xff/k/z", "w").close()
        open(r + b"/f\xff", "w").close()
        if REPLAY is not None and REPLAY.get("kind") == "sub":
            import c14_battery
            pr = c14_battery.run_case(tuple((tuple(r), k) for r, k in REPLAY["tree"]), REPLAY["new"], REPLAY["old"], "rel", "str")
            replay_result(bool(pr), pr[:2])
        if REPLAY is not None and REPLAY.get("kind") == "e2e":
            import c03_e2e
            pr = c03_e2e.burst(REPLAY["rootkind"], REPLAY.get("which", "rename")) if REPLAY["op"] == "burst" else c03_e2e.run_op(REPLAY["op"], REPLAY["recursive"], REPLAY.get("split", False))
            replay_result(bool(pr), pr[:2])
        if REPLAY is not None and REPLAY.get("kind") == "history":
            import c03_e2e
            pr = c03_e2e.history(REPLAY["name"], REPLAY.get("rootkind", "str"))
            replay_result(bool(pr), pr[:2])
        if REPLAY is not None and REPLAY.get("kind") == "phantom":
            pr = phantom()
            replay_result(bool(pr), pr[:2])
        if REPLAY is not None:
            c = REPLAY
            pr = run_case(base, c["rootkind"], c["recursive"], c["full"], c["shape"], c["kind"], c["isdir"], c["at_root"], c.get("variant", "bad"))
            replay_result(bool(pr), pr[:2])
        bat = Battery({"event bits": len(T.KINDS), "IN_ISDIR": 2, "recursive": 2, "full emitter": 2, "root types": ["str", "bytes", "pathlib"], "names": "contain bytes that are not valid UTF-8", "shapes": ["single", "single at root", "rename pair"]})
        for rootkind, recursive, full in itertools.product(("str", "bytes", "pathlib"), (False, True), (False, True)):
            cases = [("pair", "IN_MOVED_TO", d, False) for d in (False, True)]
            for kind in T.KINDS:
                for d in (False, True):
                    cases.append(("single", kind, d, False))
                cases.append(("single", kind, True, True))
            for shape, kind, isdir, at_root in cases:
                for variant in ("bad", "nfd"):
                    if variant == "nfd" and (at_root or shape == "pair" and isdir):
                        continue
                    bat.case((rootkind, recursive, full, shape, kind, isdir, at_root, variant))
                    pr = run_case(base, rootkind, recursive, full, shape, kind, isdir, at_root, variant)
                    if pr:
                        bat.fail(f"{WHICH}.translation", pr[0], {"rootkind": rootkind, "recursive": recursive, "full": full, "shape": shape, "kind": kind, "isdir": isdir, "at_root": at_root, "variant": variant, "problems": pr[:2]}, "InotifyEmitter.queue_events")
        # several operations read as one batch (soundness of names), and the collision trees of the synthetic sub-event
        # generators (C14): both are about the entry's exact name, so they run for C03 and for C19
        import c03_e2e, c14_battery
        for rk, which in [(r, w) for r in ("str", "bytes") for w in c03_e2e.BURSTS]:
            bat.case(("e2e-burst", rk, which))
            pr = c03_e2e.burst(rk, which)
            if pr:
                bat.fail(f"{WHICH}.burst-soundness", pr[0], {"kind": "e2e", "op": "burst", "which": which, "rootkind": rk, "recursive": True, "problems": pr[:2]}, "Inotify.read_events")
        n = 0
        for tree in c14_battery.trees(3)[::9]:
            for new, old in (("a", "b"), ("b", "ab"), ("a", "")):
                n += 1
                bat.case(("sub-events", n))
                pr = c14_battery.run_case(tree, new, old, "rel", "str")
                if pr:
                    bat.fail(f"{WHICH}.synthetic-sub-events", pr[0], {"kind": "sub", "tree": [[list(r), k] for r, k in tree], "new": new, "old": old}, "generate_sub_moved_events")
        if WHICH in ("C03", "C19"):
            # one operation at a time, end to end through the real emitter and kernel (+ probes of every directory afterwards);
            # for C19 (exact names) the directory renames / arrivals under a recursive watch only
            import c03_e2e
            for name in c03_e2e.names():
                if WHICH == "C19" and "directory" not in name:
                    continue
                for recursive in ((True, False) if WHICH == "C03" else (True,)):
                    for split in ((False, True) if (WHICH == "C03" and recursive and name.startswith("rename")) else (False,)):
                        bat.case(("e2e", name, recursive, split))
                        pr = c03_e2e.run_op(name, recursive, split)
                        if pr:
                            bat.fail(f"{WHICH}.per-operation-contract", pr[0], {"kind": "e2e", "op": name, "recursive": recursive, "split": split, "problems": pr[:2]}, "InotifyEmitter.queue_events")
        if WHICH in ("C03", "C19"):
            import c03_e2e
            for name in c03_e2e.HISTORIES:
                for rk in ("str",):
                    bat.case(("history", name, rk))
                    pr = c03_e2e.history(name, rk)
                    if pr:
                        bat.fail(f"{WHICH}.history-paths", pr[0], {"kind": "history", "name": name, "rootkind": rk, "problems": pr[:2]}, "Inotify.read_events")
        if WHICH == "C03":
            bat.case("phantom-after-move-out")
            pr = phantom()
            if pr:
                bat.fail("C03.phantom-events-after-move-out", pr[0], {"kind": "phantom"}, "Inotify.read_events")
        bat.finish()
    finally:
        shutil.rmtree(base, ignore_errors=True)


main()
