"""C02 / C07 battery [bounded]: operation histories on a real scratch tree, driven synchronously through a real
Inotify object (no observer threads: after each operation the reader is drained with read_events(), which is the
pacing condition of the statement).  After every history each existing directory is probed: a file created in it
must be reported under its real current path (C02); no call may raise (C07).  Histories: all sequences of length
<= L over {mkdir, rmdir, rename inside, move out, move in, touch} on a small name universe + the compositions named
in the property texts + ENOSPC / ENOENT injected at inotify_add_watch."""
import ctypes, errno, itertools, os, shutil, sys, tempfile
from batlib import Battery, TIER, REPLAY, rng, replay_result
import watchdog.observers.inotify_c as ic
from watchdog.observers.inotify_c import Inotify, InotifyConstants as C

WHICH = os.environ.get("C02_BATTERY_PROP", "C02")
NAMES = ["a", "b"]


SMALL = [False]   # True: every read_events() call gets a buffer that holds exactly one record (names < 16 bytes), i.e. the
                  # reader wakes between any two records - in particular between the two halves of a rename


def drain(ino):
    """read until nothing is pending (poll with zero timeout first, so the call never blocks)"""
    import select
    out = []
    for _ in range(400 if SMALL[0] else 50):
        p = select.poll()
        p.register(ino._inotify_fd, select.POLLIN)
        if not p.poll(1):
            break
        out.extend(ino.read_events(event_buffer_size=32) if SMALL[0] else ino.read_events())
    return out


def apply(op, root, out):
    k = op[0]
    R = lambda n: os.path.join(root, n)
    O = lambda n: os.path.join(out, n)
    try:
        if k == "mkdir":
            os.mkdir(R(op[1]))
        elif k == "mkdir2":
            os.mkdir(R(op[1] + "/" + op[2]))
        elif k == "rmdir":
            os.rmdir(R(op[1]))
        elif k == "mkdirp":
            # mkdir -p: the child exists before the reader has seen the parent's record, so the reader's walk finds it
            os.makedirs(R(op[1] + "/" + op[2]))
        elif k == "rmdir2":
            os.rmdir(R(op[1] + "/" + op[2]))
        elif k in ("rename", "rename-split"):
            os.rename(R(op[1]), R(op[2]))
        elif k == "moveout":
            os.rename(R(op[1]), O(op[1]))
        elif k == "movein":
            os.mkdir(O("in_" + op[1])) if not os.path.exists(O("in_" + op[1])) else None
            os.makedirs(O("in_" + op[1] + "/sub"), exist_ok=True)
            os.rename(O("in_" + op[1]), R(op[1]))
        elif k == "moveback":
            # a directory that was moved out earlier (and is still watched by the kernel) returns under another name
            os.rename(O(op[1]), R(op[2]))
        elif k == "rm-moved-out":
            shutil.rmtree(O(op[1]))
        elif k == "mkabs":
            # a descendant whose path spells the directory's own absolute path again (a mirror / backup tree)
            os.makedirs(R(op[1]) + R(op[1]))
        elif k == "touch":
            open(R(op[1] + "/f"), "w").close()
        elif k == "burst":
            # a nested tree appearing at once (mkdir -p style): handled by the reader's directory walk
            os.makedirs(O("tmp_" + op[1] + "/d0/x"))
            for n in ("d1", "d2", "d3"):
                os.makedirs(O("tmp_" + op[1] + "/" + n))
                open(O("tmp_" + op[1] + "/" + n + "/f"), "w").close()
            os.rename(O("tmp_" + op[1]), O("stage"))
            shutil.copytree(O("stage"), R(op[1]))
            shutil.rmtree(O("stage"))
        return True
    except OSError:
        return False


def dirs_under(root):
    out = [root]
    for r, ds, _ in os.walk(root):
        for d in ds:
            out.append(os.path.join(r, d))
    return out


def run_history(ops, recursive=True, inject=None, small=False, batched=False):
    """batched: the reader is slow - operations the pacing condition allows back to back (a rename right after the
    directory arrived; file operations) are issued without letting the reader drain in between, so their records arrive in
    one read batch (the statement quantifies over all timings of the operations relative to the reader thread)"""
    SMALL[0] = small
    base = tempfile.mkdtemp(prefix="c02b")
    root, out = os.path.join(base, "root"), os.path.join(base, "out")
    os.mkdir(root)
    os.mkdir(out)
    os.mkdir(os.path.join(root, "pre"))
    problems, known = [], []
    failed = []
    real_add = ic.inotify_add_watch
    ino = Inotify(root.encode(), recursive=recursive)
    try:
        if inject:
            cnt = [0]

            def limited(fd, path, mask):
                cnt[0] += 1
                if cnt[0] == inject[0]:
                    failed.append(os.fsdecode(path))
                    ctypes.set_errno(inject[1])
                    return -1
                return real_add(fd, path, mask)
            ic.inotify_add_watch = limited
        moved_in = set()
        arrived = None   # top-level directory the previous operation created / renamed to / moved in
        prev_kind = None
        for op in ops:
            if batched:
                # back to back within the statement's pacing condition: "a directory may be renamed again right after it
                # arrived" (target name unused) and "file operations may follow each other without limit"; everything else
                # waits for the reader to drain
                chained = (op[0] == "rename" and arrived is not None and op[1] == arrived and not os.path.lexists(os.path.join(root, op[2]))) or (op[0] == "touch" and prev_kind == "touch")
                if not chained:
                    try:
                        drain(ino)
                    except Exception as e:
                        problems.append(f"before {op}: read_events raised {type(e).__name__}: {e}")
                        return problems, known
            SMALL[0] = small
            ok = apply(op, root, out)
            if op[0] == "rename-split":
                SMALL[0] = True    # the two halves of THIS rename are read by two read_events() calls (timing of the reader)
            prev_kind = op[0] if ok else None
            arrived = (op[1] if op[0] in ("mkdir", "movein") else op[2] if op[0] in ("rename", "rename-split", "moveback") else None) if ok else None
            if not ok:
                continue
            if op[0] == "movein":
                for d0 in dirs_under(os.path.join(root, op[1])):
                    moved_in.add(os.stat(d0).st_ino)
            if batched:
                continue
            try:
                drain(ino)
            except Exception as e:
                problems.append(f"after {op}: read_events raised {type(e).__name__}: {e}")
                return problems, known
        if batched:
            try:
                drain(ino)
            except Exception as e:
                problems.append(f"history {ops} read as one batch: read_events raised {type(e).__name__}: {e}")
                return problems, known
        ic.inotify_add_watch = real_add
        # ---- probes (a directory whose own watch the kernel refused is legitimately unwatched; its siblings are not)
        for d in dirs_under(root):
            if any(d == f or d.startswith(f + "/") for f in failed):
                continue
            deep = d != root and os.path.dirname(d) != root
            probe = os.path.join(d, "probe")
            open(probe, "w").close()
            try:
                evs = drain(ino)
            except Exception as e:
                problems.append(f"probe in {d}: read_events raised {type(e).__name__}: {e}")
                return problems, known
            hit = [e for e in evs if e.is_create and e.src_path == probe.encode()]
            wrong = [e for e in evs if e.is_create and e.name == b"probe" and e.src_path != probe.encode()]
            os.unlink(probe)
            drain(ino)
            expect = recursive or d == root
            if expect and not hit:
                anc, under_moved_in = d, False
                while anc.startswith(root) and anc != root:
                    if os.stat(anc).st_ino in moved_in:
                        under_moved_in = True
                    anc = os.path.dirname(anc)
                msg = f"history {ops}: a file created in {os.path.relpath(d, base)} was not reported" + (f" (reported as {wrong[0].src_path!r})" if wrong else "")
                problems.append(msg + (" (the directory, or an ancestor, was moved in from outside)" if under_moved_in else ""))
            if not expect and (hit or wrong) and d != root:
                problems.append(f"non-recursive watch reported a change inside {os.path.relpath(d, base)}")
            if wrong and expect:
                problems.append(f"history {ops}: change in {os.path.relpath(d, base)} reported under the stale path {wrong[0].src_path!r}")
    finally:
        ic.inotify_add_watch = real_add
        ino.close()
        try:
            drain(ino)
        except Exception:
            pass
        shutil.rmtree(base, ignore_errors=True)
    return problems, known


def present_at_start(order):
    """'present at start': a tree with symbolic links to directories next to real directories (listing order fixed by a sorted
    or reverse-sorted scandir, so 'a link listed right before a directory' is exercised either way); every real directory is
    probed under a recursive watch that does not follow links"""
    SMALL[0] = False
    base = tempfile.mkdtemp(prefix="c02s")
    root, ext = os.path.join(base, "root"), os.path.join(base, "ext")
    os.makedirs(os.path.join(ext, "x"))
    for d in ("b_dir/d_dir/e_dir", "m_dir", "z_dir/y_dir"):
        os.makedirs(os.path.join(root, d))
    for l in ("a_link", "b_dir/c_link", "b_dir/d_dir/a_link", "n_link", "z_dir/z_link"):
        os.symlink(ext, os.path.join(root, l))
    real_scandir = os.scandir

    class _Sorted:
        def __init__(self, path):
            self._it = real_scandir(path)
            self._ents = sorted(self._it, key=lambda e: e.name, reverse=(order == "reverse"))

            self._i = 0

        def __iter__(self):
            return self

        def __next__(self):
            if self._i >= len(self._ents):
                raise StopIteration
            self._i += 1
            return self._ents[self._i - 1]

        def __enter__(self):
            return self

        def __exit__(self, *a):
            self._it.close()

        def close(self):
            self._it.close()
    problems = []
    os.scandir = lambda path=".": _Sorted(path)
    try:
        ino = Inotify(root.encode(), recursive=True)
    finally:
        os.scandir = real_scandir
    try:
        for d in dirs_under(root):
            if os.path.islink(d):
                continue
            probe = os.path.join(d, "probe")
            open(probe, "w").close()
            evs = drain(ino)
            if not [e for e in evs if e.is_create and e.src_path == probe.encode()]:
                problems.append(f"tree present at start (links to directories next to directories, listing order {order}): a file created in {os.path.relpath(d, base)} was not reported")
            os.unlink(probe)
            drain(ino)
    finally:
        ino.close()
        shutil.rmtree(base, ignore_errors=True)
    return problems


def histories(L):
    ops = [("mkdir", n) for n in NAMES] + [("mkdir2", "a", "b"), ("mkdir2", "b", "a"), ("rmdir", "a"), ("rename", "a", "b"), ("rename", "b", "a"), ("rename", "pre", "a"), ("moveout", "a"), ("moveout", "b"),
                                            ("movein", "a"), ("rm-moved-out", "a"), ("touch", "a"), ("rename", "a", "a2"), ("mkdir2", "a2", "b"), ("mkdirp", "a", "b"), ("rmdir2", "a", "b")]
    return itertools.product(ops, repeat=L)


NAMED = {
    "move out, re-create and remove the name, remove the moved directory": [("mkdir", "a"), ("moveout", "a"), ("mkdir", "a"), ("rmdir", "a"), ("rm-moved-out", "a")],
    "move out, re-create, remove moved, rename, nested create": [("mkdir", "a"), ("moveout", "a"), ("mkdir", "a"), ("rm-moved-out", "a"), ("rename", "a", "b"), ("mkdir2", "b", "a")],
    "rename onto an existing empty directory, rename again": [("mkdir", "a"), ("mkdir", "b"), ("rename", "a", "b"), ("rename", "b", "a2"), ("mkdir2", "a2", "b")],
    "sibling whose name extends the renamed directory": [("mkdir", "a"), ("mkdir", "a2"), ("mkdir2", "a2", "b"), ("rename", "a", "b"), ("rename", "a2", "a")],
    "descendant path repeats the renamed directory's own path": [("mkdir", "a"), ("mkabs", "a"), ("rename", "a", "b")],
    "nested rename chain": [("mkdir", "a"), ("mkdir2", "a", "b"), ("rename", "a", "b"), ("rename", "b", "a"), ("mkdir2", "a", "a")],
    "replace an empty directory, rename again, re-create the old name and rename it": [("mkdir", "a"), ("mkdir2", "a", "b"), ("mkdir", "b"), ("rename", "a", "b"), ("rename", "b", "a2"), ("mkdir", "b"), ("rename", "b", "a")],
    "moved out and back in under another name": [("mkdir", "a"), ("mkdir2", "a", "b"), ("moveout", "a"), ("moveback", "a", "b"), ("touch", "b")],
    "moved out, back in under another name, renamed again": [("mkdir", "a"), ("moveout", "a"), ("moveback", "a", "b"), ("rename", "b", "a2"), ("mkdir2", "a2", "b")],
    "renamed, old name re-created and renamed away at once": [("mkdir", "a"), ("rename", "a", "b"), ("mkdir", "a"), ("rename", "a", "a2")],
    "rename read in two halves, old name re-created and renamed away at once": [("mkdir", "a"), ("rename-split", "a", "b"), ("mkdir", "a"), ("rename", "a", "a2")],
    "nested burst, child removed and re-created": [("mkdirp", "a", "b"), ("rmdir2", "a", "b"), ("mkdir2", "a", "b")],
    "nested burst, child removed, parent renamed, child re-created": [("mkdirp", "a", "b"), ("rmdir2", "a", "b"), ("rename", "a", "a2"), ("mkdir2", "a2", "b")],
    "nested burst, whole tree removed and re-created one by one": [("mkdirp", "a", "b"), ("rmdir2", "a", "b"), ("rmdir", "a"), ("mkdir", "a"), ("mkdir2", "a", "b")],
    "moved in, child removed and re-created": [("movein", "a"), ("rmdir2", "a", "sub"), ("mkdir2", "a", "sub")],
    "moved out, another directory moved in under the same name and renamed at once": [("mkdir", "a"), ("moveout", "a"), ("movein", "a"), ("rename", "a", "b")],
    "moved out with a child, another tree moved in under the same name, renamed at once, child renamed": [("mkdir", "a"), ("mkdir2", "a", "sub"), ("moveout", "a"), ("movein", "a"), ("rename", "a", "b"), ("rename", "b", "a2")],
    "moved in, renamed at once, old name re-used": [("movein", "a"), ("rename", "a", "b"), ("mkdir", "a"), ("rename", "a", "a2")],
}


def main():
    if REPLAY is not None and REPLAY.get("kind") == "present-at-start":
        pr = present_at_start(REPLAY["order"])
        replay_result(bool(pr), pr[:2])
    if REPLAY is not None:
        c = REPLAY
        pr, kn = run_history([tuple(o) for o in c["ops"]], c.get("recursive", True), tuple(c["inject"]) if c.get("inject") else None, c.get("small", False), c.get("batched", False))
        replay_result(bool(pr if c.get("expect") != "known" else kn), (pr or kn)[:2])
    L = 3 if TIER == "quick" else 4
    bat = Battery({"names": NAMES + ["pre", "a2"], "history length": L, "operations": "mkdir, nested mkdir, mkdir -p, rmdir, nested rmdir, rename, move out, move in, remove moved-out, touch", "pacing": "reader drained after every operation; + the same histories with one record per read_events() call; + renames right after arrival and file operations issued back to back (what the pacing condition allows), also with single renames read in two halves", "probes": "every directory of the final tree",
                   "faults": "ENOSPC/ENOENT at inotify_add_watch #1..#3 during nested creates"})
    hs = list(histories(L))
    rng.shuffle(hs)
    hs = hs[: (350 if TIER == "quick" else 6000)]
    known_seen = set()
    for name, ops in NAMED.items():
        hs.insert(0, tuple(ops))
    for ops in hs:
        for recursive in ((True, False) if len(ops) <= 3 and hash(ops) % 5 == 0 else (True,)):
            bat.case(hash((ops, recursive)), desc={"ops": [list(o) for o in ops], "recursive": recursive})
            pr, kn = run_history(list(ops), recursive)
            for m in kn:
                if "known" not in known_seen:
                    known_seen.add("known")
                    bat.fail(f"{WHICH}.moved-in-directory-not-watched", m, {"ops": [list(o) for o in ops], "recursive": recursive, "expect": "known"}, "Inotify.read_events")
            if pr:
                bat.fail(f"{WHICH}.history", pr[0], {"ops": [list(o) for o in ops], "recursive": recursive, "problems": pr[:2]}, "Inotify.read_events")
    # the same histories with the reader waking between any two records (one record per read batch)
    for ops in hs[: (60 if TIER == "quick" else 1500)]:
        bat.case(hash((ops, "one-record-per-read")), desc={"ops": [list(o) for o in ops], "recursive": True, "reads": "one record per read_events() call"})
        pr, kn = run_history(list(ops), True, None, True)
        if pr:
            bat.fail(f"{WHICH}.history(one record per read)", pr[0], {"ops": [list(o) for o in ops], "recursive": True, "small": True, "problems": pr[:2]}, "Inotify.read_events")
    # back-to-back operations within the pacing condition (mkdir immediately followed by rename; rename chains; move in + rename)
    b2b = [tuple(v) for v in NAMED.values()] + [h for h in hs if any(h[i][0] == "rename" and h[i - 1][0] in ("mkdir", "rename", "movein") and h[i - 1][-1] == h[i][1] for i in range(1, len(h)))]
    for ops in b2b[: (80 if TIER == "quick" else 1500)]:
        bat.case(hash((ops, "back-to-back")), desc={"ops": [list(o) for o in ops], "recursive": True, "timing": "rename right after arrival without draining"})
        for small in (False, True):
            pr, kn = run_history(list(ops), True, None, small, True)
            if pr:
                bat.fail(f"{WHICH}.history(back to back{', one record per read' if small else ''})", pr[0], {"ops": [list(o) for o in ops], "recursive": True, "batched": True, "small": small, "problems": pr[:2]}, "Inotify.read_events")
    for order in ("sorted", "reverse"):
        bat.case(("present-at-start", order))
        pr = present_at_start(order)
        if pr:
            bat.fail(f"{WHICH}.present-at-start", pr[0], {"kind": "present-at-start", "order": order, "problems": pr[:2]}, "Inotify._add_dir_watch")
    burst = [("mkdir", "a"), ("mkdir2", "a", "b"), ("mkdir", "b"), ("mkdir2", "b", "a"), ("touch", "a"), ("burst", "c")]
    for pos in (1, 2, 3, 4, 5, 6):
        for err in (errno.ENOSPC, errno.ENOENT):
            bat.case(("inject", pos, err))
            pr, kn = run_history(burst, True, (pos, err))
            if pr:
                bat.fail(f"{WHICH}.watch-failure-tolerated", pr[0], {"ops": [list(o) for o in burst], "inject": [pos, err], "problems": pr[:2]}, "Inotify.read_events")
    bat.finish()


if __name__ == "__main__":
    main()
