"""C17 battery [bounded]: (a) all short sequences of put(delay or not)/advance/remove/get/close on a virtual
clock against a sequential reference model; (b) scripted interleavings of a consumer with a remover/closer at the
atomic-section boundaries of get() (gated lock, parked sleep - no sleeping-and-hoping)."""
import itertools, sys, threading, time as realtime
from batlib import Battery, TIER, REPLAY, rng, replay_result
import watchdog.utils.delayed_queue as dqmod
from watchdog.utils.delayed_queue import DelayedQueue

D = 10.0


class El:
    """distinct objects that all compare equal (InotifyEvent compares by key: equal events are common)"""

    def __init__(self, name):
        self.name = name

    def __eq__(self, other):
        return isinstance(other, El)

    def __hash__(self):
        return 1

    def __repr__(self):
        return self.name


class FakeTime:
    def __init__(self):
        self.now = 1000.0
        self.sleeps = []
        self.park = None  # (event_reached, event_go) to park a sleeping thread
        self.park_time = None  # the same for the next thread that reads the clock

    def time(self):
        if self.park_time is not None:
            reached, go = self.park_time
            self.park_time = None
            reached.set()
            go.wait(5)
        return self.now

    def sleep(self, dt):
        self.sleeps.append(dt)
        if self.park is not None:
            reached, go = self.park
            self.park = None
            reached.set()
            go.wait(5)
        self.now += max(dt, 0)


def with_fake(fn):
    ft = FakeTime()
    old = dqmod.time
    dqmod.time = ft
    try:
        return fn(ft)
    finally:
        dqmod.time = old


# ---------------------------------------------------------------- (a) sequential model
def run_seq(seq):
    def body(ft):
        q = DelayedQueue(D)
        model = []  # (name, t, delay)
        names = iter("ABCDEFGH")
        out = []
        closed = False
        for op in seq:
            if op[0] == "put":
                x = next(names)
                q.put(x, delay=op[1])
                model.append((x, ft.now, op[1]))
            elif op[0] == "adv":
                ft.now += op[1]
            elif op[0] == "remove":
                k = op[1]
                target = model[k][0] if k < len(model) else None
                r = q.remove(lambda e: e == target)
                if target is None:
                    if r is not None:
                        out.append(f"remove(no match) returned {r!r}")
                else:
                    if r != target:
                        out.append(f"remove({target}) returned {r!r}")
                    model.pop(k)
            elif op[0] == "close":
                q.close()
                closed = True
            elif op[0] == "get":
                if closed:
                    r = q.get()
                    if r is not None:
                        out.append(f"get() after close returned {r!r}")
                    continue
                if not model:
                    continue  # would block
                x, t, dl = model.pop(0)
                r = q.get()
                if r != x:
                    out.append(f"get() returned {r!r}, expected the oldest element {x!r}")
                if dl and ft.now < t + D - 1e-9:
                    out.append(f"delayed element {x!r} handed out at {ft.now - t:.1f}s < delay {D}")
                if not dl and ft.sleeps and False:
                    pass
        return out
    return with_fake(body)


def seqs(L):
    ops = [("put", True), ("put", False), ("adv", D / 2), ("adv", D), ("remove", 0), ("remove", 1), ("get",), ("close",)]
    return itertools.product(ops, repeat=L)


# ---------------------------------------------------------------- (b) interleavings
class GateLock:
    """proxy over the queue's real lock: can park one named thread at its n-th acquire"""

    def __init__(self, real):
        self.real = real
        self.park_thread = None
        self.park_at = None
        self.count = {}
        self.reached = threading.Event()
        self.go = threading.Event()
        self.owner = None

    def acquire(self, *a, **k):
        me = threading.current_thread().name
        self.count[me] = self.count.get(me, 0) + 1
        if me == self.park_thread and self.count[me] == self.park_at:
            self.reached.set()
            self.go.wait(5)
        r = self.real.acquire(*a, **k)
        self.owner = me
        return r

    def release(self):
        self.owner = None
        self.real.release()
        if getattr(self, "park_after_release", None) == threading.current_thread().name and not self.reached.is_set():
            self.reached.set()
            self.go.wait(5)

    def __enter__(self):
        self.acquire()

    def __exit__(self, *a):
        self.release()


def scen_remove_head_before_pop(delayed, equal=False):
    """consumer peeked head A and released the lock; remover takes A out; consumer must not return A nor lose B"""
    def body(ft):
        q = DelayedQueue(D)
        gl = GateLock(q._lock)
        q._lock = gl
        A, B = (El("A"), El("B")) if equal else ("A", "B")
        q.put(A, delay=delayed)
        q.put(B, delay=False)
        got = []
        if delayed:
            reached, go = threading.Event(), threading.Event()
            ft.park = (reached, go)
        else:
            gl.park_thread, gl.park_at = "consumer", 1  # first acquire through q._lock is the popping section
            reached, go = gl.reached, gl.go
        t = threading.Thread(target=lambda: got.append(q.get()), name="consumer")
        t.start()
        if not reached.wait(3):
            go.set(); t.join(2)
            return ["consumer never reached the park point"]
        r = q.remove(lambda e: e is A)
        go.set()
        t.join(3)
        out = []
        if r is not A:
            out.append(f"remove returned {r!r} instead of 'A'")
        if len(got) != 1 or got[0] is not B:
            out.append(f"after A was removed while the consumer waited on it, get() returned {got!r} (expected ['B']{'; A and B are distinct objects that compare equal' if equal else ''})")
        r2 = q.remove(lambda e: True)
        if r2 is not None:
            out.append(f"queue should be empty, still holds {r2!r}")
        return out
    return with_fake(body)


def scen_get_during_remove_scan():
    """remove() finds B at index 1; a concurrent get() pops A first if (and only if) remove does not hold the lock"""
    def body(ft):
        q = DelayedQueue(D)
        for x, d in (("A", False), ("B", True), ("C", False)):
            q.put(x, delay=d)
        got = []
        started = []

        def pred(e):
            if e == "B" and not started:
                started.append(1)
                t = threading.Thread(target=lambda: got.append(q.get()), name="consumer")
                t.start()
                t.join(0.3)  # finishes only if the remover does not hold the lock
                started.append(t)
            return e == "B"
        r = q.remove(pred)
        if len(started) > 1:
            started[1].join(3)
        out = []
        if r != "B":
            out.append(f"remove returned {r!r} instead of 'B'")
        rest = []
        ft.now += 2 * D
        while True:
            x = q.remove(lambda e: True)
            if x is None:
                break
            rest.append(x)
        handed = sorted(got + ([r] if r else []) + rest)
        if handed != ["A", "B", "C"]:
            out.append(f"elements handed out {handed} (get={got}, remove={r!r}, rest={rest}): every element exactly once expected")
        return out
    return with_fake(body)


def scen_second_delayed_not_early(equal=False):
    """consumer sleeps on delayed A; B (delayed, put later) is queued; A is removed; the consumer must not hand out
    B before B's own delay has elapsed"""
    def body(ft):
        q = DelayedQueue(D)
        A, B = (El("A"), El("B")) if equal else ("A", "B")
        q.put(A, delay=True)
        ft.now += D / 2
        q.put(B, delay=True)
        tB = ft.now
        got = []
        reached, go = threading.Event(), threading.Event()
        ft.park = (reached, go)
        t = threading.Thread(target=lambda: got.append((q.get(), ft.now)), name="consumer")
        t.start()
        if not reached.wait(3):
            go.set(); t.join(2)
            return ["consumer never went to sleep on the delayed head"]
        r = q.remove(lambda e: e is A)
        go.set()
        t.join(3)
        out = []
        if r is not A:
            out.append(f"remove returned {r!r}")
        if not got or got[0][0] is not B:
            out.append(f"get() returned {got!r}, expected 'B'{' (A and B are distinct objects that compare equal)' if equal else ''}")
        elif got[0][1] < tB + D - 1e-9:
            out.append(f"delayed element B handed out {got[0][1] - tB:.1f}s after its insertion, before its delay of {D}s")
        return out
    return with_fake(body)


def scen_woken_then_removed():
    """consumer blocked on the empty queue; put(X) wakes it; remove() takes X out before the woken consumer gets the
    lock back: the consumer must wait again and return the next element"""
    def body(ft):
        q = DelayedQueue(D)
        gl = GateLock(q._lock)
        gl._is_owned = lambda: gl.owner == threading.current_thread().name
        q._lock = gl
        q._not_empty = threading.Condition(gl)
        gl.park_thread, gl.park_at = "consumer", 2   # #1 = entry of get(), #2 = re-acquire inside wait()
        got, err = [], []

        def consume():
            try:
                got.append(q.get())
            except Exception as e:  # noqa: BLE001
                err.append(repr(e))
        t = threading.Thread(target=consume, name="consumer")
        t.start()
        for _ in range(200):          # consumer inside wait(): lock released, one waiter registered
            if gl.count.get("consumer", 0) >= 1 and gl.owner is None and q._not_empty._waiters:
                break
            realtime.sleep(0.005)
        q.put("X", delay=False)
        if not gl.reached.wait(3):
            gl.go.set(); t.join(2)
            return ["consumer was not woken by put()"]
        r = q.remove(lambda e: e == "X")
        gl.go.set()
        realtime.sleep(0.05)
        out = []
        if r != "X":
            out.append(f"remove returned {r!r}")
        if err:
            out.append(f"get() raised {err[0]} after the element that woke it was removed")
        elif got:
            out.append(f"get() returned {got!r} although the queue was empty and not closed")
        q.put("Y", delay=False)
        t.join(3)
        if not err and got != ["Y"]:
            out.append(f"get() returned {got!r}, expected ['Y']")
        q.close()
        t.join(1)
        return out
    return with_fake(body)


def scen_closer_held_after_its_section():
    """consumer blocked on the empty queue; close() is held right after it left its critical section (the notify has been
    issued): the woken consumer must find the queue closed and return the end marker"""
    q = DelayedQueue(D)
    gl = GateLock(q._lock)
    gl._is_owned = lambda: gl.owner == threading.current_thread().name
    q._lock = gl
    q._not_empty = threading.Condition(gl)
    got = []
    t = threading.Thread(target=lambda: got.append(q.get()), name="consumer")
    t.start()
    for _ in range(200):
        if gl.count.get("consumer", 0) >= 1 and gl.owner is None and q._not_empty._waiters:
            break
        realtime.sleep(0.005)
    gl.park_after_release = "closer"
    c = threading.Thread(target=q.close, name="closer")
    c.start()
    gl.reached.wait(2)
    t.join(1.0)                       # the consumer was notified: it re-checks its predicate now
    stuck = t.is_alive()
    gl.go.set()
    c.join(2)
    t.join(0.5)
    out = []
    if stuck and t.is_alive():
        out.append("close() returned but the consumer woken by its notify waits again for ever (the closed flag was not set when it looked)")
        with q._not_empty:
            q._closed = True
            q._not_empty.notify_all()
        t.join(1)
    elif got != [None]:
        out.append(f"get() returned {got!r} after close()")
    return out


def scen_remove_from_the_middle(equal):
    """remove() takes one element out of the middle: it is handed out once (by remove), the rest keeps its FIFO order,
    each element exactly once - also when the elements compare equal (distinct objects put in the same clock tick)"""
    def body(ft):
        q = DelayedQueue(D)
        els = [El(n) for n in "ABCD"] if equal else list("ABCD")
        for e in els:
            q.put(e, delay=False)
        target = els[2]
        r = q.remove(lambda e: e is target)
        rest = []
        for _ in range(3):
            rest.append(q.get())
        out = []
        if r is not target:
            out.append(f"remove(is C) returned {r!r}")
        want = [els[0], els[1], els[3]]
        if len(rest) != 3 or any(a is not b for a, b in zip(rest, want)):
            out.append(f"after removing C from [A, B, C, D]{' (all four compare equal)' if equal else ''}, get() handed out {rest!r}, expected [A, B, D] in that order (by identity)")
        return out
    return with_fake(body)


def scen_close_before_the_delay_sleep():
    """the consumer has picked a delayed head and left the critical section; close() lands before it starts to wait out the
    delay (it is parked at its first clock reading): whatever it returns then, the delayed element is never handed out before
    its delay has elapsed"""
    def body(ft):
        q = DelayedQueue(D)
        q.put("x", delay=True)
        t0 = ft.now
        reached, go = threading.Event(), threading.Event()
        ft.park_time = (reached, go)
        got, when = [], []

        def cons():
            got.append(q.get())
            when.append(ft.now)
        t = threading.Thread(target=cons, name="consumer")
        t.start()
        if not reached.wait(2):
            go.set()
            t.join(1)
            return []      # get() does not read the clock after picking the head: nothing to interleave here
        q.close()
        go.set()
        t.join(3)
        out = []
        if t.is_alive():
            out.append("get() did not return within 3 s after close() landed between its head peek and its delay sleep")
        elif got and got[0] == "x" and when[0] - t0 < D:
            out.append(f"close() landed between the consumer's head peek and its delay sleep: the delayed element was handed out {when[0] - t0:.2f}s after it was put, before its delay of {D}s had elapsed")
        return out
    return with_fake(body)


def scen_close_unblocks():
    q = DelayedQueue(0.1)
    got = []
    t = threading.Thread(target=lambda: got.append(q.get()))
    t.start()
    realtime.sleep(0.05)
    q.close()
    t.join(2)
    out = []
    if t.is_alive():
        out.append("get() still blocked 2s after close()")
    elif got != [None]:
        out.append(f"get() returned {got!r} after close()")
    if q.get() is not None:
        out.append("later get() after close() did not return the end marker")
    return out


SCEN = {"remove-head-nodelay": lambda: scen_remove_head_before_pop(False), "remove-head-delayed": lambda: scen_remove_head_before_pop(True),
        "get-during-remove-scan": scen_get_during_remove_scan, "second-delayed-not-early": scen_second_delayed_not_early, "close-unblocks": scen_close_unblocks,
        "remove-head-nodelay-equal-elements": lambda: scen_remove_head_before_pop(False, True), "remove-head-delayed-equal-elements": lambda: scen_remove_head_before_pop(True, True),
        "second-delayed-not-early-equal-elements": lambda: scen_second_delayed_not_early(True), "woken-then-removed": scen_woken_then_removed, "closer-held-after-its-section": scen_closer_held_after_its_section,
        "close-before-the-delay-sleep": scen_close_before_the_delay_sleep, "remove-from-the-middle": lambda: scen_remove_from_the_middle(False), "remove-from-the-middle-equal-elements": lambda: scen_remove_from_the_middle(True)}


def main():
    if REPLAY is not None:
        c = REPLAY
        pr = run_seq([tuple(o) for o in c["seq"]]) if c["kind"] == "seq" else SCEN[c["name"]]()
        replay_result(bool(pr), pr[:3])
    L = 4 if TIER == "quick" else 5
    bat = Battery({"sequence length": L, "ops": "put(delay)/put/advance D/2/advance D/remove(0|1)/get/close", "virtual clock": True, "interleavings": sorted(SCEN)})
    for seq in seqs(L):
        bat.case(hash(seq), nontrivial=any(o[0] == "get" for o in seq), desc=[list(o) for o in seq])
        pr = run_seq(seq)
        if pr:
            bat.fail("C17.sequential", pr[0], {"kind": "seq", "seq": [list(o) for o in seq], "problems": pr[:3]}, "DelayedQueue")
    for name, fn in SCEN.items():
        bat.case(("scenario", name))
        pr = fn()
        if pr:
            bat.fail("C17.interleaving:" + name, pr[0], {"kind": "scen", "name": name, "problems": pr[:3]}, "DelayedQueue.get")
    bat.finish()


if __name__ == "__main__":
    main()
