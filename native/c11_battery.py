"""C11 battery [bounded]: for every singleton filter of the 13-class lattice (+ pairs), recursive or not, normal and
full emitter: a canned native history is passed through a mini kernel that delivers a record only if its bit is in
the mask computed by the real get_event_mask_from_filter (and, for records inside a directory created during the
history, only if the record that announced that directory was delivered to a recursive watch); the filtered stream
must equal the isinstance-slice of the unfiltered stream."""
import atexit, itertools, os, queue, shutil, sys, tempfile
from batlib import Battery, TIER, REPLAY, rng, replay_result
import watchdog.events as E
from watchdog.observers.api import ObservedWatch, EventQueue
from watchdog.observers.inotify import InotifyEmitter, InotifyFullEmitter
from watchdog.observers.inotify_c import InotifyEvent, InotifyConstants as C

LATTICE = [E.FileSystemEvent, E.FileSystemMovedEvent, E.FileDeletedEvent, E.FileModifiedEvent, E.FileCreatedEvent, E.FileMovedEvent, E.FileClosedEvent, E.FileClosedNoWriteEvent, E.FileOpenedEvent,
           E.DirDeletedEvent, E.DirModifiedEvent, E.DirCreatedEvent, E.DirMovedEvent]
# a real tree, so that the events the emitters synthesise by walking a created / moved-in / renamed directory exist:
# d (created), e (moved in) and d2 (rename target of d) all have contents on disk while the history is replayed
_TMP = tempfile.mkdtemp(prefix="c11root")
atexit.register(shutil.rmtree, _TMP, True)
ROOT = os.fsencode(_TMP)
for _d, _files in (("d", ["x0"]), ("d/s", ["x1"]), ("e", ["y0"]), ("e/s", ["z"]), ("d2", ["x"]), ("d2/s", ["w"])):
    os.makedirs(os.path.join(_TMP, _d), exist_ok=True)
    for _f in _files:
        open(os.path.join(_TMP, _d, _f), "w").close()


def rec(bit, name, isdir=False, cookie=0, inside=None):
    """inside: name of the directory (created during the history) this record happens in"""
    mask = bit | (C.IN_ISDIR if isdir else 0)
    base = ROOT if inside is None else ROOT + b"/" + inside
    return {"mask": mask, "bit": bit, "name": name, "path": base + b"/" + name, "cookie": cookie, "inside": inside, "isdir": isdir}


def history():
    H = []
    H.append(rec(C.IN_CREATE, b"f"))
    H.append(rec(C.IN_OPEN, b"f"))
    H.append(rec(C.IN_MODIFY, b"f"))
    H.append(rec(C.IN_CLOSE_WRITE, b"f"))
    H.append(rec(C.IN_ATTRIB, b"f"))
    H.append(rec(C.IN_CLOSE_NOWRITE, b"f"))
    H.append(rec(C.IN_MOVED_FROM, b"f", cookie=11))
    H.append(rec(C.IN_MOVED_TO, b"g", cookie=11))
    H.append(rec(C.IN_MOVED_FROM, b"g", cookie=12))          # move out (no partner)
    H.append(rec(C.IN_MOVED_TO, b"h", cookie=13))            # move in
    H.append(rec(C.IN_DELETE, b"h"))
    H.append(rec(C.IN_CREATE, b"d", isdir=True))             # new directory ...
    H.append(rec(C.IN_CREATE, b"x", inside=b"d"))            # ... and changes inside it
    H.append(rec(C.IN_MODIFY, b"x", inside=b"d"))
    H.append(rec(C.IN_MOVED_TO, b"e", isdir=True, cookie=14))  # directory moved in ...
    H.append(rec(C.IN_DELETE, b"y", inside=b"e"))
    H.append(rec(C.IN_MOVED_FROM, b"d", isdir=True, cookie=15))
    H.append(rec(C.IN_MOVED_TO, b"d2", isdir=True, cookie=15))
    H.append(rec(C.IN_MOVED_FROM, b"d2", isdir=True, cookie=16))  # directory moved out
    H.append(rec(C.IN_DELETE, b"e", isdir=True))
    H.append({"mask": C.IN_DELETE_SELF, "bit": C.IN_DELETE_SELF, "name": b"", "path": ROOT, "cookie": 0, "inside": None, "isdir": False})   # the root itself goes last
    return H


def deliver(H, mask, recursive):
    """mini kernel + buffer pairing: returns the items read_event() would hand to the emitter"""
    followed = set()
    out = []
    pending = {}
    for r in H:
        if r["inside"] is not None:
            if not recursive or r["inside"] not in followed:
                continue
        if mask is not None and not (r["bit"] & mask):
            continue
        ev = InotifyEvent(1, r["mask"], r["cookie"], r["name"], r["path"])
        if r["isdir"] and r["bit"] in (C.IN_CREATE, C.IN_MOVED_TO) and recursive:
            followed.add(r["name"])
        if r["bit"] == C.IN_MOVED_FROM:
            pending[r["cookie"]] = len(out)
            out.append(ev)
        elif r["bit"] == C.IN_MOVED_TO and r["cookie"] in pending:
            i = pending.pop(r["cookie"])
            out[i] = (out[i], ev)
            if r["isdir"] and recursive:
                followed.add(r["name"])
        else:
            out.append(ev)
    return out


class Stub:
    def __init__(self, items):
        self.items = list(items)

    def read_event(self):
        return self.items.pop(0) if self.items else None

    def close(self):
        pass


def run(filt, recursive, full):
    cls = InotifyFullEmitter if full else InotifyEmitter
    H = history()
    streams = []
    for f in (None, filt):
        q = EventQueue()
        w = ObservedWatch(os.fsdecode(ROOT), recursive=recursive, event_filter=f)
        em = cls(q, w, event_filter=f)
        mask = em.get_event_mask_from_filter()
        items = deliver(H, mask, recursive)
        em._inotify = Stub(items)
        for _ in range(len(items) + 1):
            em.queue_events(0)
        evs = []
        while True:
            try:
                evs.append(q.get_nowait()[0])
            except queue.Empty:
                break
        streams.append(evs)
    unf, fil = streams
    want = [e for e in unf if any(isinstance(e, c) for c in filt)]

    def collapse(s):
        out = []
        for e in s:
            if not out or out[-1] != e:
                out.append(e)
        return out
    if collapse(fil) != collapse(want):
        missing = [e for e in collapse(want) if e not in fil]
        extra = [e for e in collapse(fil) if e not in want]
        return [f"filter={[c.__name__ for c in filt]} recursive={recursive} full={full}: missing {missing[:2]} extra {extra[:2]}"]
    return []


def two_filters_one_path(f1, f2):
    """the same directory scheduled twice on one observer with different filters: every handler gets the slice of
    its own filter (observe_at: two handlers on the same root, compare the sequences)"""
    from watchdog.observers.api import BaseObserver, EventEmitter

    class Em(EventEmitter):
        def queue_events(self, timeout):
            pass

    class Collect(E.FileSystemEventHandler):
        def __init__(self):
            self.got = []

        def dispatch(self, event):
            self.got.append(event)
    obs = BaseObserver(Em)
    hs = [Collect(), Collect()]
    for h, f in zip(hs, (f1, f2)):
        obs.schedule(h, "/c11-two-filters", recursive=True, event_filter=f)
    stream = [E.FileCreatedEvent("/c11-two-filters/a"), E.FileModifiedEvent("/c11-two-filters/a"), E.FileMovedEvent("/c11-two-filters/a", "/c11-two-filters/b"), E.FileDeletedEvent("/c11-two-filters/b"),
              E.DirCreatedEvent("/c11-two-filters/d"), E.DirModifiedEvent("/c11-two-filters"), E.DirMovedEvent("/c11-two-filters/d", "/c11-two-filters/e"), E.DirDeletedEvent("/c11-two-filters/e"),
              E.FileOpenedEvent("/c11-two-filters/c"), E.FileClosedEvent("/c11-two-filters/c"), E.FileClosedNoWriteEvent("/c11-two-filters/c")]
    for em in list(obs.emitters):
        for e in stream:
            em.queue_event(e)
    while not obs.event_queue.empty():
        obs.dispatch_events(obs.event_queue)
    out = []
    for i, (h, f) in enumerate(zip(hs, (f1, f2))):
        want = [e for e in stream if f is None or any(isinstance(e, c) for c in f)]
        if h.got != want:
            missing = [e for e in want if e not in h.got]
            extra = [e for e in h.got if e not in want]
            out.append(f"same path scheduled with filters {[c.__name__ for c in f1] if f1 else None} and {[c.__name__ for c in f2] if f2 else None}: handler #{i + 1} missing {missing[:2]} extra {extra[:2]}")
    return out


def rename_read_in_two_halves(filt):
    """a rename inside the tree whose two native records are read by two successive reads, the emitter thread running in
    between (real kernel, real emitters; one record per read): what the filtered watch delivers is the unfiltered watch's
    stream restricted to the filter - in particular no deletion / creation that the unfiltered watch reports as one move"""
    import queue as _q, shutil, tempfile, time
    import c03_e2e
    from watchdog.observers.inotify import InotifyEmitter
    from watchdog.observers.api import ObservedWatch
    base = tempfile.mkdtemp(prefix="c11r")
    out = []
    try:
        open(os.path.join(base, "a"), "w").close()
        with c03_e2e.OneRecordPerRead():
            qs = [_q.Queue(), _q.Queue()]
            ems = [InotifyEmitter(qs[0], ObservedWatch(base, recursive=True)), InotifyEmitter(qs[1], ObservedWatch(base, recursive=True, event_filter=filt), event_filter=filt)]
            for em in ems:
                em.start()
            try:
                time.sleep(0.2)
                os.rename(os.path.join(base, "a"), os.path.join(base, "b"))
                time.sleep(1.3)          # longer than the pairing delay
                streams = []
                for q in qs:
                    evs = []
                    while True:
                        try:
                            evs.append(q.get_nowait()[0])
                        except _q.Empty:
                            break
                    streams.append(evs)
            finally:
                for em in ems:
                    em.stop()
                for em in ems:
                    em.join(3)
        want = [e for e in streams[0] if any(isinstance(e, c) for c in filt)]
        if streams[1] != want:
            out.append(f"rename a -> b read in two halves, filter {[c.__name__ for c in filt]}: the filtered watch delivered {streams[1]}, the unfiltered stream restricted to the filter is {want} (unfiltered: {streams[0]})")
    except Exception as e:  # noqa: BLE001
        out.append(f"rename read in two halves, filter {[c.__name__ for c in filt]}: {type(e).__name__}: {e}")
    finally:
        shutil.rmtree(base, ignore_errors=True)
    return out


def symlinked_root():
    """the watched root is a symbolic link to a directory (follow_symlink left at its default): a filtered watch must not
    deliver what the unfiltered watch on the same root does not"""
    import time
    base = tempfile.mkdtemp(prefix="c11sym")
    out = []
    try:
        real, link = os.path.join(base, "real"), os.path.join(base, "link")
        os.mkdir(real)
        os.symlink(real, link)
        got = {}
        for name, f in (("unfiltered", None), ("filtered", [E.FileCreatedEvent])):
            q = queue.Queue()
            em = InotifyEmitter(q, ObservedWatch(link, recursive=False, event_filter=f), event_filter=f)
            em.start()
            try:
                time.sleep(0.05)
                open(os.path.join(real, "f_" + name), "w").close()
                time.sleep(0.3)
                evs = []
                while not q.empty():
                    evs.append(q.get()[0])
                got[name] = [e for e in evs if isinstance(e, E.FileCreatedEvent)]
            finally:
                em.stop()
                em.join(2)
        if got["filtered"] and not got["unfiltered"]:
            out.append(f"watched root is a symlink: the watch filtered on FileCreatedEvent delivers {got['filtered'][0]!r}, the unfiltered watch on the same root delivers no creation at all (the filter-derived kernel mask follows the link, the default mask does not)")
    finally:
        shutil.rmtree(base, ignore_errors=True)
    return out


def main():
    if REPLAY is not None:
        c = REPLAY
        if c.get("kind") == "symlinked-root":
            pr = symlinked_root()
            replay_result(bool(pr), pr[:2])
        if c.get("kind") == "split-rename":
            pr = rename_read_in_two_halves([getattr(E, n) for n in c["filter"]])
            replay_result(bool(pr), pr[:2])
        if c.get("kind") == "two-filters":
            g = lambda ns: None if ns is None else [getattr(E, n) for n in ns]
            pr = two_filters_one_path(g(c["f1"]), g(c["f2"]))
            replay_result(bool(pr), pr[:2])
        pr = run([getattr(E, n) for n in c["filter"]], c["recursive"], c["full"])
        replay_result(bool(pr), pr[:2])
    bat = Battery({"filters": "13 singletons + all pairs" + (" + 200 random subsets" if TIER == "thorough" else ""), "recursive": [False, True], "emitters": ["normal", "full"], "history": "20 canned native records incl. renames, move in/out, new and moved-in directories"})
    filts = [[c] for c in LATTICE] + [list(p) for p in itertools.combinations(LATTICE, 2)]
    if TIER == "thorough":
        for _ in range(200):
            filts.append(rng.sample(LATTICE, rng.randint(3, 6)))
    for filt in filts:
        for recursive in (False, True):
            for full in (False, True):
                bat.case((tuple(c.__name__ for c in filt), recursive, full))
                pr = run(filt, recursive, full)
                if pr:
                    bat.fail("C11.filtered-stream", pr[0], {"filter": [c.__name__ for c in filt], "recursive": recursive, "full": full}, "InotifyEmitter.get_event_mask_from_filter")
    bat.case("symlinked-root")
    pr = symlinked_root()
    if pr:
        bat.fail("C11.symlinked-root", pr[0], {"kind": "symlinked-root"}, "Inotify.__init__")
    for filt in ([E.FileDeletedEvent], [E.FileCreatedEvent], [E.FileMovedEvent], [E.FileDeletedEvent, E.FileCreatedEvent], [E.FileSystemEvent]):
        bat.case(("split-rename", tuple(c.__name__ for c in filt)))
        pr = rename_read_in_two_halves(filt)
        if pr:
            bat.fail("C11.rename-read-in-two-halves", pr[0], {"kind": "split-rename", "filter": [c.__name__ for c in filt]}, "InotifyBuffer.run")
    singles = [None] + [[c] for c in LATTICE]
    for f1, f2 in itertools.permutations(singles, 2):
        nm = lambda f: None if f is None else [c.__name__ for c in f]
        bat.case(("two-filters", str(nm(f1)), str(nm(f2))))
        pr = two_filters_one_path(f1, f2)
        if pr:
            bat.fail("C11.two-filters-one-path", pr[0], {"kind": "two-filters", "f1": nm(f1), "f2": nm(f2)}, "BaseObserver.schedule")
    bat.finish()


main()
