"""C14 battery [bounded]: all trees of <= N entries over names {a, b, ab} (chosen to collide with the prefix being
rewritten), relative and absolute, str and bytes roots, on a real scratch directory; oracle from the statement."""
import itertools, os, shutil, sys, tempfile
from batlib import Battery, TIER, REPLAY, rng, replay_result
from watchdog.events import generate_sub_moved_events, generate_sub_created_events, DirMovedEvent, FileMovedEvent, DirCreatedEvent, FileCreatedEvent

NAMES = ["a", "b", "ab"]


def trees(max_entries):
    """sets of relative paths (dirs end with '/') closed under parents, as sorted tuples"""
    cands = []
    for n1 in NAMES:
        cands.append((n1,))
        for n2 in NAMES:
            cands.append((n1, n2))
            if max_entries >= 3:
                for n3 in NAMES[:2]:
                    cands.append((n1, n2, n3))
    out = set()
    for k in range(0, max_entries + 1):
        for combo in itertools.combinations(cands, k):
            ents = {}
            ok = True
            for c in combo:
                for i in range(1, len(c)):
                    ents[c[:i]] = "d"
            for c in combo:
                for kind in ("d", "f"):
                    pass
            # leaves: choose kinds
            leaves = [c for c in combo if c not in ents]
            if len(ents) + len(leaves) > max_entries:
                continue
            for kinds in itertools.product("df", repeat=len(leaves)):
                e = dict(ents)
                for c, kd in zip(leaves, kinds):
                    e[c] = kd
                out.add(tuple(sorted(e.items())))
    return sorted(out)


def make(base, tree):
    for rel, kind in tree:
        p = os.path.join(base, *rel)
        if kind == "d":
            os.makedirs(p, exist_ok=True)
    for rel, kind in tree:
        p = os.path.join(base, *rel)
        if kind in ("f", "p", "l", "L"):
            os.makedirs(os.path.dirname(p), exist_ok=True)
            if kind == "f":
                open(p, "w").close()
            elif kind == "L":
                os.symlink("..", p)                       # a symbolic link to a directory (its own parent): listed once, never walked through
            elif kind == "p":
                os.mkfifo(p)                              # a FIFO: not a directory, not a regular file
            else:
                os.symlink("no-such-target-c14", p)      # a dangling symlink: not a directory


def descendants(top):
    out = []
    sep = os.sep if isinstance(top, str) else os.sep.encode()
    for e in os.scandir(top):
        p = os.path.join(top, e.name)
        out.append((p, e.is_dir(follow_symlinks=False)))
        if e.is_dir(follow_symlinks=False):
            out.extend(descendants(p))
    return out


def check(src, dst, tree_desc):
    problems = []
    exp = descendants(dst)
    cap = 5 * len(exp) + 20      # a generator that walks through a link back up the tree would go on (nearly) for ever
    got = list(itertools.islice(generate_sub_moved_events(src, dst), cap))
    if len(got) >= cap:
        return [f"moved: more than {cap} events for a tree of {len(exp)} descendants (first surplus: {got[len(exp)]!r})"]
    empty = "" if isinstance(dst, str) else ""
    want = {}
    linkdirs = {p for p, _isd in exp if os.path.islink(p) and os.path.isdir(p)}   # flavour of a link to a directory: not judged
    for p, isd in exp:
        old = (src + p[len(dst):]) if src else ""
        want[p] = (DirMovedEvent if isd else FileMovedEvent, old)
    seen = {}
    for ev in got:
        if ev.dest_path in seen:
            problems.append(f"moved: two events for {ev.dest_path!r}")
        seen[ev.dest_path] = ev
        w = want.get(ev.dest_path)
        if w is None:
            problems.append(f"moved: event for a path that is not a descendant: {ev!r}")
        elif (type(ev) is not w[0] and ev.dest_path not in linkdirs) or ev.src_path != w[1] or not ev.is_synthetic:
            problems.append(f"moved: got {type(ev).__name__}({ev.src_path!r} -> {ev.dest_path!r}, synthetic={ev.is_synthetic}) expected {w[0].__name__}({w[1]!r} -> {ev.dest_path!r}, synthetic=True)")
        par = os.path.dirname(ev.dest_path)
        if par != dst and par not in seen:
            problems.append(f"moved: child {ev.dest_path!r} before its parent")
    for p in want:
        if p not in seen:
            problems.append(f"moved: no event for descendant {p!r}")
    gotc = list(itertools.islice(generate_sub_created_events(dst), cap))
    seen = {}
    for ev in gotc:
        if ev.src_path in seen:
            problems.append(f"created: two events for {ev.src_path!r}")
        seen[ev.src_path] = ev
        w = want.get(ev.src_path)
        if w is None:
            problems.append(f"created: event for non-descendant {ev!r}")
        elif (type(ev) is not (DirCreatedEvent if w[0] is DirMovedEvent else FileCreatedEvent) and ev.src_path not in linkdirs) or not ev.is_synthetic or ev.dest_path != "":
            problems.append(f"created: wrong event {ev!r}")
        par = os.path.dirname(ev.src_path)
        if par != dst and par not in seen:
            problems.append(f"created: child {ev.src_path!r} before its parent")
    for p in want:
        if p not in seen:
            problems.append(f"created: no event for descendant {p!r}")
    return problems


def run_case(tree, newname, oldname, mode, kind):
    scratch = tempfile.mkdtemp(prefix="c14b")
    cwd = os.getcwd()
    try:
        os.chdir(scratch)
        os.mkdir(newname)
        make(os.path.join(scratch, newname), tree)
        if mode == "rel":
            src, dst = oldname, newname
        else:
            src, dst = os.path.join(scratch, oldname), os.path.join(scratch, newname)
        if kind == "bytes":
            src, dst = os.fsencode(src), os.fsencode(dst)
        if oldname == "":
            src = "" if kind == "str" else ""
        return check(src, dst, tree)
    finally:
        os.chdir(cwd)
        shutil.rmtree(scratch, ignore_errors=True)


def main():
    if REPLAY is not None and REPLAY.get("kind") == "rekey":
        import c02_battery
        pr, _kn = c02_battery.run_history([tuple(o) for o in REPLAY["ops"]], True)
        replay_result(bool(pr), pr[:2])
    if REPLAY is not None:
        tree = tuple((tuple(r), k) for r, k in REPLAY["tree"])
        pr = run_case(tree, REPLAY["new"], REPLAY["old"], REPLAY["mode"], REPLAY["kind"])
        replay_result(bool(pr), pr[:3])
    N = 3 if TIER == "quick" else 4
    bat = Battery({"names": NAMES, "max_entries": N, "roots": ["relative", "absolute"], "types": ["str", "bytes"], "renames": "new in {a,b}, old in {a,b,ab,''} (old != new)"})
    ts = trees(N)
    if TIER == "quick":
        ts = ts[:: max(1, len(ts) // 150)]
    for tree in ts:
        for new in ("a", "b"):
            for old in ("a", "b", "ab", ""):
                if old == new:
                    continue
                for mode in ("rel", "abs"):
                    for kind in ("str", "bytes"):
                        if TIER == "quick" and (kind == "bytes") != (mode == "abs"):
                            continue
                        pr = run_case(tree, new, old, mode, kind)
                        bat.case(hash((tree, new, old, mode, kind)), nontrivial=bool(tree), desc={"tree": [["/".join(r), k] for r, k in tree], "new": new, "old": old, "root": mode, "type": kind})
                        if pr:
                            bat.fail("C14.sub-events", pr[0], {"tree": [[list(r), k] for r, k in tree], "new": new, "old": old, "mode": mode, "kind": kind, "problems": pr[:3]}, "generate_sub_moved_events")
    # entries that are neither regular files nor directories (FIFO, dangling symlink): file flavour, one event each
    special = [t for t in ts if any(k == "f" for _r, k in t)][:: max(1, len(ts) // 12)]
    for tree in special:
        for sub in ("p", "l", "L"):
            t2 = tuple((r, sub if k == "f" else k) for r, k in tree)
            for mode, kind in (("rel", "str"), ("abs", "bytes")):
                pr = run_case(t2, "a", "b", mode, kind)
                bat.case(hash((t2, mode, kind)), desc={"tree": [["/".join(r), k] for r, k in t2], "root": mode, "type": kind, "special": {"p": "FIFO", "l": "dangling symlink", "L": "symlink to a directory (..)"}[sub]})
                if pr:
                    bat.fail("C14.sub-events(special entries)", pr[0], {"tree": [[list(r), k] for r, k in t2], "new": "a", "old": "b", "mode": mode, "kind": kind, "problems": pr[:3]}, "generate_sub_moved_events")
    # third anchor of the property: the same prefix rewrite in the watch-path map of Inotify.read_events
    os.environ["C02_BATTERY_PROP"] = "C14"
    import c02_battery
    for name, ops in c02_battery.NAMED.items():
        bat.case(("rekey", name))
        pr, _kn = c02_battery.run_history(list(ops), True)
        if pr:
            bat.fail("C14.watch-map-rekey", pr[0], {"kind": "rekey", "ops": [list(o) for o in ops]}, "Inotify.read_events")
    bat.finish()


if __name__ == "__main__":
    main()
