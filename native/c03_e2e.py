"""C03 end-to-end [bounded]: one operation at a time on a real scratch tree through the real InotifyEmitter (real
kernel, real InotifyBuffer thread), pacing by a sentinel file; oracle = the per-operation contracts of the statement
(required events present, every delivered event explained by the operation: path, File/Dir flavour, synthetic flag).
After the operation every directory of the final tree is probed: the creation must be reported under the real path."""
import os, queue, shutil, tempfile, time
import watchdog.events as E
from watchdog.observers.api import ObservedWatch
from watchdog.observers.inotify import InotifyEmitter

NOISE = (E.FileOpenedEvent, E.FileClosedEvent, E.FileClosedNoWriteEvent, E.FileModifiedEvent)


def build(base):
    root, out = os.path.join(base, "root"), os.path.join(base, "out")
    for d in ("root/a/s", "root/ab", "out/od/ok"):
        os.makedirs(os.path.join(base, d))
    for f in ("root/a/f", "root/a/s/g", "root/ab/h", "root/x", "out/od/k", "out/od/ok/m", "out/of"):
        open(os.path.join(base, f), "w").close()
    return root, out


_SENT = [0]


def collect(q, root, timeout=10.0):
    """events up to the sentinel's creation (exclusive); the sentinel's own events are dropped (every call uses a sentinel of
    its own: late events of an earlier sentinel must not be taken for this one)"""
    _SENT[0] += 1
    sent = os.path.join(root, f"zz-sentinel-{_SENT[0]}")
    open(sent, "w").close()
    got, t0 = [], time.time()
    seen = False
    while time.time() - t0 < timeout:
        try:
            ev, _w = q.get(timeout=0.05)
        except queue.Empty:
            if seen:
                break
            continue
        if getattr(ev, "src_path", None) == sent:
            seen = True
            continue
        if "zz-sentinel-" in os.fsdecode(getattr(ev, "src_path", "") or ""):
            continue
        if seen and isinstance(ev, E.DirModifiedEvent) and ev.src_path == root:
            continue
        got.append(ev)
    os.unlink(sent)
    t1 = time.time()
    while time.time() - t1 < 0.5:   # drain the sentinel's removal
        try:
            ev, _w = q.get(timeout=0.05)
            if "zz-sentinel-" not in os.fsdecode(getattr(ev, "src_path", "") or "") and not (isinstance(ev, E.DirModifiedEvent) and ev.src_path == root):
                got.append(ev)
        except queue.Empty:
            break
    return got, seen


def walk(top):
    out = []
    for r, ds, fs in os.walk(top):
        out += [(os.path.join(r, d), True) for d in ds] + [(os.path.join(r, f), False) for f in fs]
    return out


def operations(root, out):
    R = lambda *p: os.path.join(root, *p)
    O = lambda *p: os.path.join(out, *p)
    ops = {}
    ops["create file"] = (lambda: open(R("a", "new"), "w").close(), [E.FileCreatedEvent(R("a", "new")), E.DirModifiedEvent(R("a"))], {R("a", "new"), R("a")})
    ops["mkdir"] = (lambda: os.mkdir(R("ab", "nd")), [E.DirCreatedEvent(R("ab", "nd")), E.DirModifiedEvent(R("ab"))], {R("ab", "nd"), R("ab")})
    ops["modify file"] = (lambda: open(R("x"), "a").write("1"), [E.FileModifiedEvent(R("x"))], {R("x"), root})
    ops["delete file"] = (lambda: os.unlink(R("a", "f")), [E.FileDeletedEvent(R("a", "f")), E.DirModifiedEvent(R("a"))], {R("a", "f"), R("a")})
    ops["rmdir"] = (lambda: (os.unlink(R("ab", "h")), os.rmdir(R("ab"))), [E.FileDeletedEvent(R("ab", "h")), E.DirDeletedEvent(R("ab")), E.DirModifiedEvent(root)], {R("ab", "h"), R("ab"), root})
    ops["rename file"] = (lambda: os.rename(R("x"), R("a", "x2")), [E.FileMovedEvent(R("x"), R("a", "x2")), E.DirModifiedEvent(root), E.DirModifiedEvent(R("a"))], {R("x"), R("a", "x2"), root, R("a")})
    subs = [E.FileMovedEvent(R("a", "f"), R("c", "f"), is_synthetic=True), E.DirMovedEvent(R("a", "s"), R("c", "s"), is_synthetic=True), E.FileMovedEvent(R("a", "s", "g"), R("c", "s", "g"), is_synthetic=True)]
    ops["rename directory (sibling `ab` shares its name prefix)"] = (lambda: os.rename(R("a"), R("c")), [E.DirMovedEvent(R("a"), R("c")), E.DirModifiedEvent(root)] + subs,
                                                                   {R("a"), R("c"), root} | {e.src_path for e in subs} | {e.dest_path for e in subs})
    ops["move file out"] = (lambda: os.rename(R("x"), O("x")), [E.FileDeletedEvent(R("x")), E.DirModifiedEvent(root)], {R("x"), root})
    ops["move directory out"] = (lambda: os.rename(R("a"), O("a")), [E.DirDeletedEvent(R("a")), E.DirModifiedEvent(root)], {R("a"), root})
    ops["move file in"] = (lambda: os.rename(O("of"), R("ab", "of")), [E.FileCreatedEvent(R("ab", "of")), E.DirModifiedEvent(R("ab"))], {R("ab", "of"), R("ab")})
    sc = [E.FileCreatedEvent(R("od", "k"), is_synthetic=True), E.DirCreatedEvent(R("od", "ok"), is_synthetic=True), E.FileCreatedEvent(R("od", "ok", "m"), is_synthetic=True)]
    ops["move directory in"] = (lambda: os.rename(O("od"), R("od")), [E.DirCreatedEvent(R("od")), E.DirModifiedEvent(root)] + sc, {R("od"), root} | {e.src_path for e in sc})
    back = [E.FileCreatedEvent(R("z", "f"), is_synthetic=True), E.DirCreatedEvent(R("z", "s"), is_synthetic=True), E.FileCreatedEvent(R("z", "s", "g"), is_synthetic=True)]
    ops["move directory out and back in under another name"] = (lambda: (os.rename(R("a"), O("a")), os.rename(O("a"), R("z"))), [E.DirDeletedEvent(R("a")), E.DirCreatedEvent(R("z")), E.DirModifiedEvent(root)] + back,
                                                                 {R("a"), R("z"), root} | {e.src_path for e in back})
    return ops


def nonrecursive_contract(name, required, root):
    """what a non-recursive watch owes for the same operation: only entries that are direct children of the root count;
    a rename whose other end is deeper than that is, for this watch, a move out of / into its scope"""
    child = lambda p: os.path.dirname(p) == root
    out = []
    for e in required:
        if e.is_synthetic:
            continue
        if isinstance(e, E.DirModifiedEvent):
            if e.src_path == root:
                out.append(e)
        elif isinstance(e, E.FileSystemMovedEvent):
            if child(e.src_path) and child(e.dest_path):
                out.append(e)
            elif child(e.src_path):
                out.append((E.DirDeletedEvent if e.is_directory else E.FileDeletedEvent)(e.src_path))
            elif child(e.dest_path):
                out.append((E.DirCreatedEvent if e.is_directory else E.FileCreatedEvent)(e.dest_path))
        elif child(e.src_path):
            out.append(e)
    return out


class OneRecordPerRead:
    """every os.read on an inotify descriptor hands out one record (the reader wakes between the two halves of a rename)"""

    def __enter__(self):
        import errno
        import watchdog.observers.inotify_c as ic
        self.ic, self.real = ic, ic.os.read
        real = self.real

        def read(fd, n):
            if n < 1024:
                return real(fd, n)
            time.sleep(0.05)          # ... and the consumer of the buffer gets to run between two records
            for size in range(16, 16 + 4096, 16):
                try:
                    return real(fd, size)
                except OSError as e:
                    if e.errno != errno.EINVAL:
                        raise
            return real(fd, n)
        ic.os.read = read
        return self

    def __exit__(self, *a):
        self.ic.os.read = self.real


def run_op(name, recursive, split=False):
    if split:
        with OneRecordPerRead():
            return [p + " [one record per read]" for p in run_op(name, recursive, False)]
    base = tempfile.mkdtemp(prefix="c03e")
    problems, moved_in = [], set()
    try:
        root, out = build(base)
        q = queue.Queue()
        em = InotifyEmitter(q, ObservedWatch(root, recursive=recursive))
        em.start()
        try:
            act, required, allowed = operations(root, out)[name]
            before = {p: d for p, d in walk(root)}
            act()
            got, seen = collect(q, root)
            if not seen:
                return [f"{name}: the emitter went quiet (sentinel never reported)"]
            after = {p: d for p, d in walk(root)}
            kind = dict(before)
            kind.update(after)
            kind[root] = True
            if name == "move directory in":
                moved_in = {p for p, d in after.items() if d and p.startswith(os.path.join(root, "od"))}
            req = required if recursive else nonrecursive_contract(name, required, root)
            for e in req:
                if e not in got:
                    problems.append(f"{name} (recursive={recursive}): required {e!r} missing; delivered {got[:6]}")
                    break
            for e in got:
                paths = [p for p in (e.src_path, getattr(e, "dest_path", "")) if p]
                bad = [p for p in paths if p not in allowed]
                if bad:
                    problems.append(f"{name} (recursive={recursive}): {e!r} names {bad[0]!r}, which the operation did not touch")
                    break
                if not isinstance(e, NOISE) and e.src_path in kind and e.is_directory != kind[e.src_path]:
                    problems.append(f"{name} (recursive={recursive}): {e!r} has the wrong File/Dir flavour")
                    break
                if e.is_synthetic and e not in required:
                    problems.append(f"{name} (recursive={recursive}): unexpected synthetic event {e!r}")
                    break
                if not recursive and any(os.path.dirname(p) != root and p != root for p in paths):
                    problems.append(f"{name}: non-recursive watch delivered {e!r} (deeper than the root's children)")
                    break
            # ---- probes: every directory of the final tree (directories that arrived from outside: known C02 finding)
            if not problems:
                for d in [root] + [p for p, isd in sorted(after.items()) if isd]:
                    pr = os.path.join(d, "probe")
                    open(pr, "w").close()
                    evs, seen = collect(q, root)
                    os.unlink(pr)
                    collect(q, root)
                    expect = recursive or d == root
                    hit = [e for e in evs if isinstance(e, E.FileCreatedEvent) and e.src_path == pr]
                    stray = [e for e in evs if isinstance(e, E.FileCreatedEvent) and e.src_path != pr]
                    if stray:
                        problems.append(f"after `{name}`: a file created in {os.path.relpath(d, base)} is reported as {stray[0]!r} - no such entry was created")
                        break
                    if expect and not hit:
                        problems.append(f"after `{name}`: a file created in {os.path.relpath(d, base)} is not reported (recursive={recursive})")
                        break
                    if not expect and hit:
                        problems.append(f"after `{name}`: non-recursive watch reported {hit[0]!r}")
                        break
        finally:
            em.stop()
            em.join(3)
    finally:
        shutil.rmtree(base, ignore_errors=True)
    return problems


HISTORIES = {
    # directory operations one at a time (the stream drains after each), then every directory of the final tree is probed:
    # a file created in it must be reported under its real current path, and under no other
    "rename a directory, re-create its old name, rename that too": [("rename", "a", "c"), ("mkdir", "a"), ("rename", "a", "d")],
    "rename a directory twice, re-create the first name with a child of the same name": [("rename", "a", "c"), ("rename", "c", "e"), ("mkdir", "a"), ("mkdir", "a/s"), ("rename", "a", "c")],
    "move a directory out, move another in under its name, rename it": [("moveout", "a"), ("movein", "od", "a"), ("rename", "a", "c")],
}


def history(name, rootkind="str"):
    base = tempfile.mkdtemp(prefix="c03h")
    problems = []
    try:
        root, out = build(base)
        conv = (lambda p: p) if rootkind == "str" else os.fsencode
        q = queue.Queue()
        em = InotifyEmitter(q, ObservedWatch(conv(root), recursive=True))
        em.start()
        try:
            R = lambda p: os.path.join(root, p)
            for st in HISTORIES[name]:
                if st[0] == "rename":
                    os.rename(R(st[1]), R(st[2]))
                elif st[0] == "mkdir":
                    os.mkdir(R(st[1]))
                elif st[0] == "moveout":
                    os.rename(R(st[1]), os.path.join(out, st[1]))
                elif st[0] == "movein":
                    os.rename(os.path.join(out, st[1]), R(st[2]))
                _got, seen = collect(q, conv(root))
                if not seen:
                    return [f"history `{name}`: the emitter went quiet after {st}"]
            for d in [root] + [p for p, isd in sorted(walk(root)) if isd]:
                pr = os.path.join(d, "probe")
                open(pr, "w").close()
                evs, seen = collect(q, conv(root))
                os.unlink(pr)
                collect(q, conv(root))
                hit = [e for e in evs if isinstance(e, E.FileCreatedEvent) and e.src_path == conv(pr)]
                stray = [e for e in evs if isinstance(e, E.FileCreatedEvent) and e.src_path != conv(pr)]
                if stray:
                    problems.append(f"history `{name}`: a file created in {os.path.relpath(d, base)} is reported as {stray[0].src_path!r} - an entry that does not exist")
                    break
                if not hit:
                    problems.append(f"history `{name}`: a file created in {os.path.relpath(d, base)} is not reported")
                    break
        finally:
            em.stop()
            em.join(3)
    finally:
        shutil.rmtree(base, ignore_errors=True)
    return problems


BURSTS = {
    "rename": ("touch a/x0; mv a c; touch c/n1; mkdir c/nd",
               lambda R: (open(R("a", "x0"), "w").close(), os.rename(R("a"), R("c")), open(R("c", "n1"), "w").close(), os.mkdir(R("c", "nd"))),
               lambda R: [R("a"), R("a", "x0"), R("a", "f"), R("a", "s"), R("a", "s", "g"), R("c"), R("c", "n1"), R("c", "nd"), R("c", "x0"), R("c", "f"), R("c", "s"), R("c", "s", "g")],
               lambda R, conv: [E.FileCreatedEvent(conv(R("c", "n1"))), E.DirCreatedEvent(conv(R("c", "nd"))), E.DirMovedEvent(conv(R("a")), conv(R("c")))]),
    "nested-tree": ("mkdir -p new/sub/deep; touch new/sub/b new/sub/deep/c new/t",
                    lambda R: (os.makedirs(R("new", "sub", "deep")), open(R("new", "sub", "b"), "w").close(), open(R("new", "sub", "deep", "c"), "w").close(), open(R("new", "t"), "w").close()),
                    lambda R: [R("new"), R("new", "sub"), R("new", "sub", "deep"), R("new", "sub", "b"), R("new", "sub", "deep", "c"), R("new", "t")],
                    lambda R, conv: [E.DirCreatedEvent(conv(R("new"))), E.DirCreatedEvent(conv(R("new", "sub"))), E.FileCreatedEvent(conv(R("new", "sub", "b"))), E.FileCreatedEvent(conv(R("new", "sub", "deep", "c"))), E.FileCreatedEvent(conv(R("new", "t")))]),
}


def burst(rootkind="str", which="rename"):
    """several operations while the reader is held back, so that their records arrive in one read batch.  Soundness: every
    non-synthetic event names an entry under a name it really had (a creation under the new name must not be reported under
    the old one; an entry found by walking a new tree is reported where it is); plus the events the burst certainly owes"""
    import threading
    import watchdog.observers.inotify_c as ic
    base = tempfile.mkdtemp(prefix="c03u")
    problems = []
    gate = threading.Event()
    real = ic.Inotify.read_events
    doc, act, real_paths, owed = BURSTS[which]

    def gated(self, *a, **k):
        gate.wait(5)
        return real(self, *a, **k)
    try:
        root, out = build(base)
        wroot = os.fsencode(root) if rootkind == "bytes" else root
        conv = (lambda p: os.fsencode(p)) if rootkind == "bytes" else (lambda p: p)
        q = queue.Queue()
        em = InotifyEmitter(q, ObservedWatch(wroot, recursive=True))
        ic.Inotify.read_events = gated
        em.start()
        try:
            R = lambda *p: os.path.join(root, *p)
            act(R)
            gate.set()
            sent = R("zz-sentinel")
            open(sent, "w").close()
            got, t0, seen = [], time.time(), False
            while time.time() - t0 < 10:
                try:
                    ev, _w = q.get(timeout=0.1)
                except queue.Empty:
                    if seen:
                        break
                    continue
                if ev.src_path == conv(sent):
                    seen = True
                    continue
                got.append(ev)
            if not seen:
                return [f"burst ({doc}): the emitter went quiet (sentinel never reported)"]
            ok_paths = {conv(p) for p in real_paths(R)} | {conv(root)}
            for e in got:
                if e.is_synthetic:
                    continue
                for p in (e.src_path, getattr(e, "dest_path", "")):
                    if p and p not in ok_paths:
                        problems.append(f"burst ({doc}, read as one batch): {e!r} names {p!r}, an entry that never existed under that name")
                        break
                if problems:
                    break
            for e in owed(R, conv):
                if e not in got and not problems:
                    problems.append(f"burst ({doc}): required {e!r} missing; delivered {[x for x in got if not x.is_synthetic][:8]}")
        finally:
            gate.set()
            ic.Inotify.read_events = real
            em.stop()
            em.join(3)
    finally:
        ic.Inotify.read_events = real
        shutil.rmtree(base, ignore_errors=True)
    return problems


def names():
    b = tempfile.mkdtemp(prefix="c03n")
    try:
        r, o = os.path.join(b, "root"), os.path.join(b, "out")
        return sorted(operations(r, o))
    finally:
        shutil.rmtree(b, ignore_errors=True)
