"""C05 battery [bounded]: (a) re-entrant removals inside callbacks (reference model), (b) cross-thread removal
parked right after the dispatcher's membership check (deterministic schedule, no sleeping-and-hoping: the park is
released by the remover's return or by a bounded timeout when the remover is, rightly, locked out),
(c) emitters that are slow to wind down must be dead when unschedule/unschedule_all/stop return."""
import itertools, sys, threading, time
from batlib import Battery, TIER, REPLAY, rng, replay_result
from watchdog.observers.api import BaseObserver, EventEmitter, ObservedWatch
from watchdog.events import FileSystemEventHandler, FileCreatedEvent
import importlib.util, os
spec = importlib.util.spec_from_file_location("c04b", os.path.join(os.path.dirname(__file__), "c04_battery.py"))


class NullEmitter(EventEmitter):
    def queue_events(self, timeout):
        self.stopped_event.wait(0.05)


class ParkSet(set):
    """membership test that parks the dispatcher right after answering True"""
    checked = None
    release = None

    def __contains__(self, x):
        r = set.__contains__(self, x)
        if r and self.checked is not None and not self.checked.is_set():
            self.checked.set()
            self.release.wait(0.4)
        return r


def cross_thread(kind):
    obs = BaseObserver(NullEmitter, timeout=0.05)
    calls = []
    removed_at = []

    class Hd(FileSystemEventHandler):
        def dispatch(self, ev):
            calls.append(time.monotonic())
    h = Hd()
    w = obs.schedule(h, "/w")
    ps = ParkSet(obs._handlers[w])
    ps.checked, ps.release = threading.Event(), threading.Event()
    obs._handlers[w] = ps
    obs.event_queue.put((FileCreatedEvent("/w/f"), w))
    t = threading.Thread(target=lambda: obs.dispatch_events(obs.event_queue))
    t.start()
    ps.checked.wait(2)

    def remover():
        if kind == "unschedule":
            obs.unschedule(w)
        elif kind == "remove":
            obs.remove_handler_for_watch(h, w)
        elif kind == "unschedule_all":
            obs.unschedule_all()
        else:
            obs.stop()
        removed_at.append(time.monotonic())
        ps.release.set()
    r = threading.Thread(target=remover)
    r.start()
    t.join(5)
    r.join(5)
    if kind != "stop":
        obs.stop()
    if calls and removed_at and calls[0] > removed_at[0]:
        return [f"{kind}() returned at t0 and the removed handler was called {calls[0]-removed_at[0]:.3f}s later"]
    return []


def reentrant(kind):
    """two handlers on one watch; the one served first removes (itself and) the other from inside its callback:
    once that call has returned the other handler must not be invoked for the event being dispatched nor for queued ones"""
    obs = BaseObserver(NullEmitter, timeout=0.05)
    log = []
    state = {"removed_at": None}

    class Hd(FileSystemEventHandler):
        def __init__(self, name):
            self.name = name

        def dispatch(self, ev):
            log.append((self.name, state["removed_at"] is not None))
            if state["removed_at"] is None:
                other = hs[1] if self is hs[0] else hs[0]
                if kind == "unschedule":
                    obs.unschedule(w)
                elif kind == "remove":
                    obs.remove_handler_for_watch(other, w)
                elif kind == "unschedule_all":
                    obs.unschedule_all()
                else:
                    obs.stop()
                state["removed_at"] = len(log)
                state["remover"] = self.name
    hs = [Hd("h1"), Hd("h2")]
    w = obs.schedule(hs[0], "/w")
    obs.add_handler_for_watch(hs[1], w)
    for i in range(3):
        obs.event_queue.put((FileCreatedEvent(f"/w/f{i}"), w))
    for _ in range(3):
        if obs.event_queue.empty():
            break
        try:
            obs.dispatch_events(obs.event_queue)
        except Exception as e:  # noqa: BLE001
            return [f"{kind}() from inside a callback: dispatch_events raised {type(e).__name__}: {e} (the observer thread would die)"]
    out = []
    late = [n for n, after in log if after and n != state.get("remover")]
    if late:
        out.append(f"handler {late[0]} was invoked after {kind}() - called by {state.get('remover')} from inside its callback - had returned (calls: {log})")
    if kind != "remove":
        late_self = [n for n, after in log if after and n == state.get("remover")]
        if late_self:
            out.append(f"the handler that called {kind}() on its own observer was invoked again afterwards (calls: {log})")
    return out


def second_stop_returns_early():
    """the dispatcher is inside a callback (holding the observer lock); stop() #1 waits for the lock; stop() #2 must not
    return before the removal has happened - after it returned no handler may be invoked"""
    obs = BaseObserver(NullEmitter, timeout=0.05)
    t = {"b_returned": None, "late": []}
    in_cb, b_done = threading.Event(), threading.Event()

    class Hd(FileSystemEventHandler):
        def dispatch(self, ev):
            if not in_cb.is_set():
                in_cb.set()
                b_done.wait(0.6)
            elif t["b_returned"] is not None:
                t["late"].append(time.monotonic() - t["b_returned"])
    h1, h2 = Hd(), Hd()
    w = obs.schedule(h1, "/w")
    obs.add_handler_for_watch(h2, w)
    obs.event_queue.put((FileCreatedEvent("/w/f"), w))
    d = threading.Thread(target=lambda: obs.dispatch_events(obs.event_queue))
    d.start()
    in_cb.wait(2)
    a = threading.Thread(target=obs.stop)
    a.start()
    time.sleep(0.1)

    def second():
        obs.stop()
        t["b_returned"] = time.monotonic()
        b_done.set()
    b = threading.Thread(target=second)
    b.start()
    for th in (d, a, b):
        th.join(5)
    if t["late"]:
        return [f"a second stop() returned while the first was still waiting for the observer lock, and a handler was invoked {t['late'][0]:.3f}s after it had returned"]
    return []


def stopped_before_start():
    """an emitter that was told to stop before its thread ran (unschedule() racing with start(), which starts the emitters
    without the registry lock) must not produce a single round of events when the thread is started after all"""
    rounds = []

    class Em(EventEmitter):
        def queue_events(self, timeout):
            rounds.append(time.monotonic())
            self.queue_event(FileCreatedEvent("/late"))
            self.stopped_event.wait(0.05)
    import queue as _q
    q = _q.Queue()
    em = Em(q, ObservedWatch("/w", recursive=False), timeout=0.05)
    em.stop()
    em.start()
    em.join(2)
    out = []
    if rounds or not q.empty():
        out.append(f"an emitter stopped before its thread started still ran {len(rounds)} production round(s) and queued {q.qsize()} event(s) for its (unscheduled) watch")
    if em.is_alive():
        out.append("the emitter thread did not exit")
        em.stop()
    return out


def every_emitter_of_the_watch_dies():
    """one watch scheduled twice (two handlers) before start(), then start() and unschedule(): every emitter that was ever
    created for that watch is dead and silent once unschedule() has returned"""
    made = []

    class Em(EventEmitter):
        def __init__(self, *a, **k):
            super().__init__(*a, **k)
            made.append(self)
            self.rounds_after = 0

        def queue_events(self, timeout):
            if gate["returned"]:
                self.rounds_after += 1
            self.stopped_event.wait(0.02)
    gate = {"returned": False}
    obs = BaseObserver(Em, timeout=0.02)
    w = obs.schedule(FileSystemEventHandler(), "/w")
    obs.schedule(FileSystemEventHandler(), "/w")
    obs.start()
    time.sleep(0.05)
    obs.unschedule(w)
    gate["returned"] = True
    time.sleep(0.15)
    out = []
    alive = [e for e in made if e.is_alive()]
    if alive or any(e.rounds_after for e in made):
        out.append(f"{len(made)} emitter(s) were created for one watch; after unschedule() returned {len(alive)} of them still run ({sum(e.rounds_after for e in made)} production rounds afterwards)")
    obs.stop()
    obs.join(2)
    for e in made:
        e.stop()
    return out


def slow_emitter_from_callback(kind):
    """the same guarantee when the removal is made by a handler from inside its callback (on the observer's own thread):
    when unschedule() / unschedule_all() / stop() returns to the handler the emitter thread of the removed watch is dead"""
    seen = {}

    class Slow(EventEmitter):
        def queue_events(self, timeout):
            self.stopped_event.wait()
            time.sleep(0.25)    # winding down takes a while (a final poll / blocking read)

    class H(FileSystemEventHandler):
        def on_any_event(self, event):
            if "alive" in seen:
                return
            if kind == "unschedule":
                obs.unschedule(w)
            elif kind == "unschedule_all":
                obs.unschedule_all()
            else:
                obs.stop()
            seen["alive"] = em.is_alive()
    obs = BaseObserver(Slow, timeout=0.05)
    obs.start()
    w = obs.schedule(H(), "/w")
    em = next(iter(obs.emitters))
    em.queue_event(FileCreatedEvent("/w/x"))
    deadline = time.time() + 5
    while "alive" not in seen and time.time() < deadline:
        time.sleep(0.02)
    em.join(2)
    obs.stop()
    obs.join(2)
    if "alive" not in seen:
        return [f"{kind}() called from a handler callback did not return within 5 s"]
    if seen["alive"]:
        return [f"{kind}() called from inside a handler callback returned while the emitter thread of the removed watch was still alive"]
    return []


def slow_emitter(kind):
    gate = {"returned": None}

    class Slow(EventEmitter):
        def queue_events(self, timeout):
            self.stopped_event.wait()
            # winding down takes a while (a final poll / blocking read)
            time.sleep(0.25)
            if gate["returned"] is not None:
                self.queue_event(FileCreatedEvent("/late"))
    obs = BaseObserver(Slow, timeout=0.05)
    h = FileSystemEventHandler()
    obs.start()
    w = obs.schedule(h, "/w")
    em = next(iter(obs.emitters))
    if kind == "unschedule":
        obs.unschedule(w)
    elif kind == "unschedule_all":
        obs.unschedule_all()
    else:
        obs.stop()
    gate["returned"] = time.monotonic()
    alive = em.is_alive()
    em.join(2)
    late = obs.event_queue.qsize() if kind != "stop" else 0
    obs.stop()
    obs.join(2)
    pr = []
    if alive:
        pr.append(f"{kind}() returned while the emitter thread of the removed watch was still alive")
    return pr


def main():
    if REPLAY is not None:
        c = REPLAY
        pr = cross_thread(c["op"]) if c["kind"] == "cross" else reentrant(c["op"]) if c["kind"] == "reentrant" else second_stop_returns_early() if c["kind"] == "second-stop" else stopped_before_start() if c["kind"] == "stopped-before-start" else every_emitter_of_the_watch_dies() if c["kind"] == "every-emitter" else slow_emitter_from_callback(c["op"]) if c["kind"] == "slow-callback" else slow_emitter(c["op"])
        replay_result(bool(pr), pr[:3])
    bat = Battery({"cross-thread removal": ["unschedule", "remove", "unschedule_all", "stop"], "park point": "right after the dispatcher's membership re-check", "slow emitter": ["unschedule", "unschedule_all", "stop"], "slow emitter, removal from a callback": ["unschedule", "unschedule_all", "stop"]})
    for kind in ("unschedule", "remove", "unschedule_all", "stop"):
        bat.case(("cross", kind))
        pr = cross_thread(kind)
        if pr:
            bat.fail("C05.callback-after-removal", pr[0], {"kind": "cross", "op": kind}, "BaseObserver.dispatch_events")
    for kind in ("unschedule", "remove", "unschedule_all", "stop"):
        bat.case(("reentrant", kind))
        pr = reentrant(kind)
        if pr:
            bat.fail("C05.callback-after-reentrant-removal", pr[0], {"kind": "reentrant", "op": kind}, "BaseObserver.dispatch_events")
    bat.case("every-emitter-of-the-watch-dies")
    pr = every_emitter_of_the_watch_dies()
    if pr:
        bat.fail("C05.an-emitter-of-the-unscheduled-watch-keeps-running", pr[0], {"kind": "every-emitter", "op": "unschedule"}, "BaseObserver.schedule")
    bat.case("stopped-before-start")
    pr = stopped_before_start()
    if pr:
        bat.fail("C05.emitter-stopped-before-start-still-produces", pr[0], {"kind": "stopped-before-start", "op": "unschedule"}, "EventEmitter.run")
    bat.case("second-stop")
    pr = second_stop_returns_early()
    if pr:
        bat.fail("C05.second-stop-returns-before-removal", pr[0], {"kind": "second-stop", "op": "stop"}, "BaseThread.stop")
    for kind in ("unschedule", "unschedule_all", "stop"):
        bat.case(("slow", kind))
        pr = slow_emitter(kind)
        if pr:
            bat.fail("C05.emitter-alive-after-removal", pr[0], {"kind": "slow", "op": kind}, "BaseObserver._remove_emitter")
    for kind in ("unschedule", "unschedule_all", "stop"):
        bat.case(("slow-callback", kind))
        pr = slow_emitter_from_callback(kind)
        if pr:
            bat.fail("C05.emitter-alive-after-removal-from-callback", pr[0], {"kind": "slow-callback", "op": kind}, "BaseObserver._remove_emitter")
    bat.finish()


main()
