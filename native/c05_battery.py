"""C05 battery [bounded]: (a) re-entrant removals inside callbacks (reference model), (b) cross-thread removal
parked right after the dispatcher's membership check (deterministic schedule, no sleeping-and-hoping: the park is
released by the remover's return or by a bounded timeout when the remover is, rightly, locked out),
(c) emitters that are slow to wind down must be dead when unschedule/unschedule_all/stop return."""
import itertools, sys, threading, time
from batlib import Battery, TIER, REPLAY, rng, replay_result
from watchdog.observers.api import BaseObserver, EventEmitter, ObservedWatch
from watchdog.events import FileSystemEventHandler, FileCreatedEvent
import importlib.util, os
spec = importlib.util.spec_from_file_location("c04b", os.path.join(os.path.dirname(__file__), "c04_battery.py"))


class NullEmitter(EventEmitter):
    def queue_events(self, timeout):
        self.stopped_event.wait(0.05)


class ParkSet(set):
    """membership test that parks the dispatcher right after answering True"""
    checked = None
    release = None

    def __contains__(self, x):
        r = set.__contains__(self, x)
        if r and self.checked is not None and not self.checked.is_set():
            self.checked.set()
            self.release.wait(0.4)
        return r


def cross_thread(kind):
    obs = BaseObserver(NullEmitter, timeout=0.05)
    calls = []
    removed_at = []

    class Hd(FileSystemEventHandler):
        def dispatch(self, ev):
            calls.append(time.monotonic())
    h = Hd()
    w = obs.schedule(h, "/w")
    ps = ParkSet(obs._handlers[w])
    ps.checked, ps.release = threading.Event(), threading.Event()
    obs._handlers[w] = ps
    obs.event_queue.put((FileCreatedEvent("/w/f"), w))
    t = threading.Thread(target=lambda: obs.dispatch_events(obs.event_queue))
    t.start()
    ps.checked.wait(2)

    def remover():
        if kind == "unschedule":
            obs.unschedule(w)
        elif kind == "remove":
            obs.remove_handler_for_watch(h, w)
        elif kind == "unschedule_all":
            obs.unschedule_all()
        else:
            obs.stop()
        removed_at.append(time.monotonic())
        ps.release.set()
    r = threading.Thread(target=remover)
    r.start()
    t.join(5)
    r.join(5)
    if kind != "stop":
        obs.stop()
    if calls and removed_at and calls[0] > removed_at[0]:
        return [f"{kind}() returned at t0 and the removed handler was called {calls[0]-removed_at[0]:.3f}s later"]
    return []


def slow_emitter(kind):
    gate = {"returned": None}

    class Slow(EventEmitter):
        def queue_events(self, timeout):
            self.stopped_event.wait()
            # winding down takes a while (a final poll / blocking read)
            time.sleep(0.25)
            if gate["returned"] is not None:
                self.queue_event(FileCreatedEvent("/late"))
    obs = BaseObserver(Slow, timeout=0.05)
    h = FileSystemEventHandler()
    obs.start()
    w = obs.schedule(h, "/w")
    em = next(iter(obs.emitters))
    if kind == "unschedule":
        obs.unschedule(w)
    elif kind == "unschedule_all":
        obs.unschedule_all()
    else:
        obs.stop()
    gate["returned"] = time.monotonic()
    alive = em.is_alive()
    em.join(2)
    late = obs.event_queue.qsize() if kind != "stop" else 0
    obs.stop()
    obs.join(2)
    pr = []
    if alive:
        pr.append(f"{kind}() returned while the emitter thread of the removed watch was still alive")
    return pr


def main():
    if REPLAY is not None:
        c = REPLAY
        pr = cross_thread(c["op"]) if c["kind"] == "cross" else slow_emitter(c["op"])
        replay_result(bool(pr), pr[:3])
    bat = Battery({"cross-thread removal": ["unschedule", "remove", "unschedule_all", "stop"], "park point": "right after the dispatcher's membership re-check", "slow emitter": ["unschedule", "unschedule_all", "stop"]})
    for kind in ("unschedule", "remove", "unschedule_all", "stop"):
        bat.case(("cross", kind))
        pr = cross_thread(kind)
        if pr:
            bat.fail("C05.callback-after-removal", pr[0], {"kind": "cross", "op": kind}, "BaseObserver.dispatch_events")
    for kind in ("unschedule", "unschedule_all", "stop"):
        bat.case(("slow", kind))
        pr = slow_emitter(kind)
        if pr:
            bat.fail("C05.emitter-alive-after-removal", pr[0], {"kind": "slow", "op": kind}, "BaseObserver._remove_emitter")
    bat.finish()


main()
