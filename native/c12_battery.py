"""C12 battery [bounded]: (a) descriptor/thread counts over schedule/unschedule/start/stop cycles against the real
kernel; (b) a failure injected at inotify_init and at every inotify_add_watch position of a recursive tree;
(c) close() against the reader parked at every step of its read loop, with a descriptor state machine that flags
any read/poll/write/close of a closed descriptor and any double close; (d) root deleted, reader gone, then close."""
import ctypes, errno, os, select, shutil, sys, tempfile, threading, time
from batlib import Battery, TIER, REPLAY, rng, replay_result
import watchdog.observers.inotify_c as ic
from watchdog.observers.inotify_buffer import InotifyBuffer
from watchdog.observers import Observer
from watchdog.events import FileSystemEventHandler


def nfds():
    return len(os.listdir("/proc/self/fd"))


def lib_threads():
    return sorted(t.name for t in threading.enumerate() if type(t).__module__.startswith("watchdog"))


def cycles():
    base = tempfile.mkdtemp(prefix="c12a")
    out = []
    try:
        os.makedirs(os.path.join(base, "a", "b"))
        f0, t0 = nfds(), lib_threads()
        for i in range(6):
            o = Observer()
            w = o.schedule(FileSystemEventHandler(), base, recursive=True)
            o.start()
            if i % 2:
                o.unschedule(w)
                o.schedule(FileSystemEventHandler(), base, recursive=False)
            o.stop()
            o.join(5)
        for i in range(6):
            o = Observer()
            o.start()
            w = o.schedule(FileSystemEventHandler(), base, recursive=True)
            o.unschedule(w)
            o.stop()
            o.join(5)
        time.sleep(0.1)
        if nfds() != f0:
            out.append(f"descriptor count went from {f0} to {nfds()} over 12 schedule/start/stop cycles")
        if lib_threads() != t0:
            out.append(f"library threads left behind: {lib_threads()}")
    finally:
        shutil.rmtree(base, ignore_errors=True)
    return out


def failed_schedules():
    base = tempfile.mkdtemp(prefix="c12b")
    out = []
    try:
        for d in ("a/x", "a/y", "b"):
            os.makedirs(os.path.join(base, d))
        o = Observer()
        o.start()
        f0, t0 = nfds(), lib_threads()
        for i in range(5):
            try:
                o.schedule(FileSystemEventHandler(), os.path.join(base, "missing"))
                out.append("schedule() on a missing path did not raise")
            except OSError:
                pass
        if nfds() != f0:
            out.append(f"5 failed schedule() calls on a missing path changed the descriptor count by {nfds() - f0}")
        real_add, real_init = ic.inotify_add_watch, ic.inotify_init
        for pos in range(1, 7):
            for err in (errno.ENOSPC, errno.ENOENT):
                cnt = [0]

                def limited(fd, path, mask, pos=pos, err=err):
                    cnt[0] += 1
                    if cnt[0] == pos:
                        ctypes.set_errno(err)
                        return -1
                    return real_add(fd, path, mask)
                ic.inotify_add_watch = limited
                try:
                    try:
                        w = o.schedule(FileSystemEventHandler(), base, recursive=True)
                        o.unschedule(w)
                    except OSError:
                        pass
                finally:
                    ic.inotify_add_watch = real_add
                time.sleep(0.02)
                if nfds() != f0 or lib_threads() != t0:
                    out.append(f"failure {errno.errorcode[err]} at inotify_add_watch #{pos}: descriptors {nfds() - f0:+d}, threads {lib_threads()}")

        def no_init():
            ctypes.set_errno(errno.EMFILE)
            return -1
        ic.inotify_init = no_init
        try:
            try:
                o.schedule(FileSystemEventHandler(), base)
                out.append("schedule() with failing inotify_init did not raise")
            except OSError:
                pass
        finally:
            ic.inotify_init = real_init
        if nfds() != f0:
            out.append(f"failing inotify_init changed the descriptor count by {nfds() - f0}")
        o.stop()
        o.join(5)
    finally:
        shutil.rmtree(base, ignore_errors=True)
    return out


class FdMachine:
    """open -> closed per descriptor; any later use = violation"""

    def __init__(self, fds):
        self.state = {fd: "open" for fd in fds}
        self.viol = []
        self.real = (os.close, os.read, os.write)

    def use(self, fd, what):
        if self.state.get(fd) == "closed":
            self.viol.append(f"{what} of descriptor {fd} after it was closed")

    def install(self, ino):
        m = self

        def close(fd):
            if fd in m.state:
                m.use(fd, "close")
                if m.state[fd] == "open":
                    m.state[fd] = "closed"
                    return m.real[0](fd)
                return None
            return m.real[0](fd)

        def read(fd, n):
            if fd in m.state:
                m.use(fd, "read")
                if m.state[fd] == "closed":
                    raise OSError(errno.EBADF, "closed")
            return m.real[1](fd, n)

        def write(fd, b):
            if fd in m.state:
                m.use(fd, "write")
                if m.state[fd] == "closed":
                    raise OSError(errno.EBADF, "closed")
            return m.real[2](fd, b)
        ic.os.close, ic.os.read, ic.os.write = close, read, write
        inner = ino._check_inotify_fd

        def check():
            for fd in (ino._inotify_fd, ino._kill_r):
                m.use(fd, "poll")
            if m.state[ino._inotify_fd] == "closed":
                return False
            return inner()
        ino._check_inotify_fd = check

    def uninstall(self):
        ic.os.close, ic.os.read, ic.os.write = self.real


class GateLock:
    def __init__(self, real, thread_name, park_at):
        self.real, self.thread_name, self.park_at = real, thread_name, park_at
        self.n = 0
        self.reached, self.go = threading.Event(), threading.Event()

    def _gate(self, when):
        if threading.current_thread().name == self.thread_name:
            self.n += 1
            if (when, self.n) == self.park_at or (when, (self.n + 1) // 1) == self.park_at and False:
                self.reached.set()
                self.go.wait(5)

    def __enter__(self):
        self._gate("acquire")
        self.real.acquire()

    def __exit__(self, *a):
        self.real.release()
        if threading.current_thread().name == self.thread_name and ("release", self.n) == self.park_at:
            self.reached.set()
            self.go.wait(5)

    def acquire(self, *a, **k):
        self._gate("acquire")
        return self.real.acquire(*a, **k)

    def release(self):
        self.real.release()


def close_vs_reader(park):
    base = tempfile.mkdtemp(prefix="c12c")
    out = []
    try:
        ino = ic.Inotify(base.encode())
        fds = (ino._inotify_fd, ino._kill_r, ino._kill_w)
        m = FdMachine(fds)
        m.install(ino)
        try:
            gl = GateLock(ino._lock, "reader", park)
            ino._lock = gl
            if park not in (("acquire", 1), ("release", 1)):
                open(os.path.join(base, "f"), "w").close()   # a pending event: the reader gets past poll()/read()
            res = []
            t = threading.Thread(target=lambda: res.append(ino.read_events()), name="reader")
            t.start()
            if not gl.reached.wait(2):
                out.append(f"reader never reached the park point {park}")
            ino.close()
            gl.go.set()
            t.join(3)
            if t.is_alive():
                out.append(f"close() with the reader parked at {park}: reader still blocked after 3s")
                os.write(fds[2], b"!") if m.state[fds[2]] == "open" else None
                t.join(1)
            ino.close()
            out.extend(f"park {park}: {v}" for v in m.viol)
            left = [fd for fd, s in m.state.items() if s == "open"]
            if left:
                out.append(f"close() with the reader parked at {park}: descriptors {left} never released")
        finally:
            m.uninstall()
            for fd, s in m.state.items():
                if s == "open":
                    try:
                        os.close(fd)
                    except OSError:
                        pass
    finally:
        shutil.rmtree(base, ignore_errors=True)
    return out


def close_before_first_read():
    base = tempfile.mkdtemp(prefix="c12e")
    out = []
    try:
        f0 = nfds()
        for _ in range(4):
            ino = ic.Inotify(base.encode())
            ino.close()
            r = ino.read_events()
            if r != []:
                out.append(f"read_events() after close() returned {r}")
        if nfds() != f0:
            out.append(f"Inotify(); close(); read_events() x4 changed the descriptor count by {nfds() - f0}")
    finally:
        shutil.rmtree(base, ignore_errors=True)
    return out


def root_deleted_then_close():
    out = []
    f0, t0 = nfds(), lib_threads()
    for _ in range(4):
        base = tempfile.mkdtemp(prefix="c12d")
        root = os.path.join(base, "root")
        os.mkdir(root)
        b = InotifyBuffer(root.encode(), recursive=True)
        os.rmdir(root)
        b.join(3)
        b.close()
        shutil.rmtree(base, ignore_errors=True)
    time.sleep(0.05)
    if nfds() != f0:
        out.append(f"root deleted, reader gone, then close(): descriptor count changed by {nfds() - f0} over 4 cycles")
    if lib_threads() != t0:
        out.append(f"threads left: {lib_threads()}")
    return out


def two_closers():
    """two threads close the same instance; closer A is parked right before it takes the instance lock while B closes"""
    base = tempfile.mkdtemp(prefix="c12f")
    out = []
    try:
        for reading in (False, True):
            ino = ic.Inotify(base.encode())
            fds = (ino._inotify_fd, ino._kill_r, ino._kill_w)
            m = FdMachine(fds)
            m.install(ino)
            try:
                rd = None
                if reading:
                    rd = threading.Thread(target=ino.read_events, name="reader2")
                    rd.start()
                    time.sleep(0.05)
                gl = GateLock(ino._lock, "closerA", ("acquire", 1))
                ino._lock = gl
                a = threading.Thread(target=ino.close, name="closerA")
                a.start()
                if not gl.reached.wait(2):
                    out.append("closer A never reached the instance lock")
                ino.close()
                gl.go.set()
                a.join(3)
                if rd is not None:
                    rd.join(3)
                    if rd.is_alive():
                        out.append("reader still blocked after two close() calls")
                out.extend(f"two closers (reader {'blocked in poll' if reading else 'absent'}): {v}" for v in m.viol)
                left = [fd for fd, st in m.state.items() if st == "open"]
                if left:
                    out.append(f"two closers: descriptors {left} never released")
            finally:
                m.uninstall()
                for fd, st in m.state.items():
                    if st == "open":
                        try:
                            os.close(fd)
                        except OSError:
                            pass
    finally:
        shutil.rmtree(base, ignore_errors=True)
    return out


def closer_parked_after_its_section():
    """the closing thread is held right after it released the instance lock; the reader (blocked in poll) wakes, finds the
    instance closed and releases the descriptors; whatever the closer still does afterwards must not touch them"""
    base = tempfile.mkdtemp(prefix="c12h")
    out = []
    try:
        ino = ic.Inotify(base.encode())
        fds = (ino._inotify_fd, ino._kill_r, ino._kill_w)
        m = FdMachine(fds)
        m.install(ino)
        try:
            rd = threading.Thread(target=ino.read_events, name="reader3")
            rd.start()
            time.sleep(0.1)                      # reader inside poll(), _is_reading set
            gl = GateLock(ino._lock, "closerB", ("release", 1))
            ino._lock = gl
            err = []

            def closer():
                try:
                    ino.close()
                except OSError as e:
                    err.append(repr(e))
            c = threading.Thread(target=closer, name="closerB")
            c.start()
            if not gl.reached.wait(2):
                out.append("closer never left its critical section")
            rd.join(2)                            # IN_IGNORED of the removed root watch (or the wake-up byte) ends the read
            gl.go.set()
            c.join(3)
            if rd.is_alive():
                os.write(fds[2], b"!") if m.state[fds[2]] == "open" else None
                rd.join(1)
                out.append("reader still blocked after close()")
            out.extend(f"closer held after releasing the lock: {v}" for v in m.viol)
            out.extend(f"close() raised {e}" for e in err)
            left = [fd for fd, st in m.state.items() if st == "open"]
            if left:
                out.append(f"descriptors {left} never released")
        finally:
            m.uninstall()
            for fd, st in m.state.items():
                if st == "open":
                    try:
                        os.close(fd)
                    except OSError:
                        pass
    finally:
        shutil.rmtree(base, ignore_errors=True)
    return out


def start_fails_after_construction():
    """observer.start(): the emitter has built its inotify buffer (three descriptors, a reader thread) when starting its own
    thread fails ("can't start new thread"): start() raises, and everything built for that watch is released"""
    from watchdog.observers.api import EventEmitter
    base = tempfile.mkdtemp(prefix="c12i")
    out = []
    real = threading.Thread.start
    try:
        f0, t0 = nfds(), lib_threads()

        def start(self):
            if isinstance(self, EventEmitter):
                raise RuntimeError("can't start new thread")
            return real(self)
        for _ in range(3):
            o = Observer()
            o.schedule(FileSystemEventHandler(), base, recursive=True)
            threading.Thread.start = start
            try:
                try:
                    o.start()
                    out.append("start() did not raise although the emitter thread could not be started")
                except RuntimeError:
                    pass
            finally:
                threading.Thread.start = real
            time.sleep(0.1)
            leaked = (nfds() - f0, [t for t in lib_threads() if t not in t0])
            try:
                o.stop()
            except Exception:
                pass
            if leaked[0] or leaked[1]:
                out.append(f"start() failed after the watch was constructed and returned with descriptors {leaked[0]:+d}, threads {leaked[1]} still held for that watch")
                break
        time.sleep(0.2)
        if not out and (nfds() != f0 or lib_threads() != t0):
            out.append(f"3 start() calls that failed after the watch was constructed: descriptors {nfds() - f0:+d}, threads left {lib_threads()}")
    finally:
        threading.Thread.start = real
        shutil.rmtree(base, ignore_errors=True)
    return out


def restart_cycles():
    """stop(); start(); stop() on an emitter and observer.stop(); schedule(); start(); stop(): what a start() after a stop() creates is released by the next stop()"""
    from watchdog.observers.inotify import InotifyEmitter
    from watchdog.observers.api import ObservedWatch
    from watchdog.events import FileSystemEventHandler as H
    import queue
    base = tempfile.mkdtemp(prefix="c12g")
    out = []
    try:
        f0, t0 = nfds(), lib_threads()
        for _ in range(3):
            em = InotifyEmitter(queue.Queue(), ObservedWatch(base, recursive=True))
            em.stop()
            em.start()
            em.stop()
            em.join(3)
        time.sleep(0.1)
        if nfds() != f0 or lib_threads() != t0:
            out.append(f"emitter stop(); start(); stop() x3: descriptors {nfds() - f0:+d}, threads left {lib_threads()}")
        f0, t0 = nfds(), lib_threads()
        for _ in range(3):
            o = Observer()
            o.stop()
            o.schedule(H(), base, recursive=True)
            o.start()
            o.stop()
            o.join(3)
        time.sleep(0.1)
        if nfds() != f0 or lib_threads() != t0:
            out.append(f"observer stop(); schedule(); start(); stop() x3: descriptors {nfds() - f0:+d}, threads left {lib_threads()}")
    finally:
        shutil.rmtree(base, ignore_errors=True)
    return out


PARKS = [("acquire", 1), ("release", 1), ("acquire", 2), ("release", 2), ("acquire", 3)]
SCEN = {"cycles": cycles, "failed-schedules": failed_schedules, "close-before-first-read": close_before_first_read, "root-deleted-then-close": root_deleted_then_close, "two-closers": two_closers, "restart-cycles": restart_cycles, "closer-parked-after-its-section": closer_parked_after_its_section, "start-fails-after-construction": start_fails_after_construction}
for p in PARKS:
    SCEN[f"close-vs-reader@{p[0]}{p[1]}"] = (lambda p=p: close_vs_reader(p))


def main():
    if REPLAY is not None:
        pr = SCEN[REPLAY["name"]]()
        replay_result(bool(pr), pr[:3])
    bat = Battery({"cycles": 12, "failure positions": "inotify_init + inotify_add_watch #1..#6 x {ENOSPC, ENOENT}", "reader park points": [f"{a}{n}" for a, n in PARKS], "kernel": "real inotify"})
    for name, fn in SCEN.items():
        bat.case(name)
        pr = fn()
        if pr:
            bat.fail("C12." + name, pr[0], {"name": name, "problems": pr[:3]}, name)
    bat.finish()


main()
