"""C18 battery [bounded]: (a) debouncer driven on a virtual clock (Condition replaced by a deterministic one):
event/stop sequences incl. 'event or stop before the thread first waits'; (b) AutoRestartTrick and
ShellCommandTrick over a simulated process table (Popen / kill_process replaced), sequential scenarios plus the
'stop() while a restart is in flight' interleaving parked inside kill_process."""
import itertools, sys, threading, time as realtime
from batlib import Battery, TIER, REPLAY, rng, replay_result
import watchdog.utils.event_debouncer as debmod
from watchdog.utils.event_debouncer import EventDebouncer
import watchdog.tricks as tricks
from watchdog.events import FileModifiedEvent, FileOpenedEvent


# ---------------------------------------------------------------- (a) debouncer
def late_start(d):
    gate = threading.Event()
    orig = d.run
    d.run = lambda: (gate.wait(5), orig())
    return gate


def deb_scenario(kind):
    got = []
    d = EventDebouncer(0.05, lambda evs: got.append(list(evs)))
    out = []
    if kind == "event-before-first-wait":
        g = late_start(d)
        d.start()
        d.handle_event("e1")
        g.set()
        realtime.sleep(0.4)
        if got != [["e1"]]:
            out.append(f"event handed in before the thread first waited was delivered as {got} (expected [['e1']])")
        d.stop()
        d.join(1.5)
        if d.is_alive():
            out.append("thread alive after stop()+join")
    elif kind == "stop-before-first-wait":
        g = late_start(d)
        d.start()
        d.stop()
        g.set()
        d.join(1.5)
        if d.is_alive():
            out.append("stop() before the thread first waited: thread never exits")
        if got:
            out.append(f"delivered {got} after stop()")
    elif kind == "order-and-once":
        d.start()
        for i in range(5):
            d.handle_event(f"e{i}")
        realtime.sleep(0.4)
        d.handle_event("late")
        realtime.sleep(0.4)
        d.stop()
        d.join(1.5)
        flat = [e for b in got for e in b]
        if flat != [f"e{i}" for i in range(5)] + ["late"]:
            out.append(f"delivered {got}: every event exactly once, in arrival order expected")
    elif kind == "nothing-after-stop":
        d.start()
        d.handle_event("a")
        d.stop()
        n = len(got)
        d.handle_event("b")
        realtime.sleep(0.3)
        d.join(1.5)
        if len(got) != n or any("b" in b for b in got):
            out.append(f"callback after stop(): {got}")
    return out


class VCond:
    """virtual-time Condition: timed waits expire only when the driver advances the clock"""
    clock = None

    def __init__(self):
        self._c = threading.Condition()
        self.waiters = 0

    def __enter__(self):
        return self._c.__enter__()

    def __exit__(self, *a):
        return self._c.__exit__(*a)

    def notify(self):
        self._c.notify()

    def wait(self, timeout=None):
        clk = VCond.clock
        if timeout is None:
            self.waiters += 1
            r = self._c.wait()
            self.waiters -= 1
            return r
        deadline = clk["t"] + timeout
        clk["timed"] = clk.get("timed", 0) + 1
        while True:
            self.waiters += 1
            notified = self._c.wait(0.02)
            self.waiters -= 1
            if notified:
                return True
            if clk["t"] >= deadline:
                return False


def deb_timing():
    """a batch is delivered once no further event arrived for the interval (virtual clock)"""
    clk = {"t": 0.0}
    VCond.clock = clk
    old = debmod.threading
    fake = type("T", (), {})()
    fake.Condition = VCond
    debmod.threading = fake
    # every clock the module can read is the virtual one (a debouncer that keeps a deadline of its own reads it there)
    vt = type("VT", (), {})()
    vt.time = vt.monotonic = vt.perf_counter = lambda: 1000.0 + clk["t"]
    vt.sleep = lambda dt: None
    old_time = getattr(debmod, "time", None)
    if old_time is not None:
        debmod.time = vt
    got = []
    try:
        d = EventDebouncer(10, lambda evs: got.append((clk["t"], list(evs))))
    finally:
        debmod.threading = old
    try:
        return _deb_timing_body(d, clk, got)
    finally:
        if old_time is not None:
            debmod.time = old_time


def _deb_timing_body(d, clk, got):
    d.start()
    realtime.sleep(0.1)
    out = []
    d.handle_event("f0")
    realtime.sleep(0.15)
    clk["t"] = 6
    realtime.sleep(0.1)
    d.handle_event("f1")          # inside the interval: restarts it
    realtime.sleep(0.15)
    clk["t"] = 12
    realtime.sleep(0.2)
    if got:
        out.append(f"batch {got} delivered at t=12 although the last event came at t=6 (interval 10)")
    clk["t"] = 16.5
    realtime.sleep(0.3)
    if [b for _, b in got] != [["f0", "f1"]]:
        out.append(f"expected one batch ['f0','f1'] after t=16, got {got}")
    d.stop()
    clk["t"] = 100
    d.join(2)
    if d.is_alive():
        out.append("debouncer thread did not exit")
    return out


# ---------------------------------------------------------------- (b) tricks over a process table
class Table:
    def __init__(self):
        self.next = 1000
        self.alive = set()
        self.log = []
        self.max_alive = 0
        self.hook = None
        self.stubborn = False     # children ignore every signal but SIGKILL

    def spawn(self):
        self.next += 1
        self.alive.add(self.next)
        self.max_alive = max(self.max_alive, len(self.alive))
        self.log.append(("spawn", self.next))
        return self.next


class FakePopen:
    table = None

    def __init__(self, *a, **k):
        self.pid = FakePopen.table.spawn()

    def poll(self):
        return None if self.pid in FakePopen.table.alive else 0

    def wait(self, timeout=None):
        FakePopen.table.alive.discard(self.pid)
        FakePopen.table.log.append(("waited", self.pid))
        return 0


def with_table(fn):
    t = Table()
    FakePopen.table = t
    saved = (tricks.subprocess.Popen, tricks.kill_process)

    def kill(pid, sig):
        if t.hook:
            t.hook(pid, sig)
        if pid not in t.alive:
            raise OSError(3, "no such process")
        t.log.append(("kill", pid, sig))
        if t.stubborn and int(sig) != 9:
            return
        t.alive.discard(pid)
    tricks.subprocess.Popen = FakePopen
    tricks.kill_process = kill
    try:
        return fn(t)
    finally:
        tricks.subprocess.Popen, tricks.kill_process = saved


def trick_sequential(script, self_exit, debounce, stubborn=False):
    def body(t):
        t.stubborn = stubborn
        tr = tricks.AutoRestartTrick(["cmd"], restart_on_command_exit=self_exit, debounce_interval_seconds=0.02 if debounce else 0, kill_after=0.1)
        out = []
        tr.start()
        for op in script:
            if op == "event":
                tr.on_any_event(FileModifiedEvent("/x"))
                if debounce:
                    realtime.sleep(0.15)
            elif op == "ignored-event":
                tr.on_any_event(FileOpenedEvent("/x"))
            elif op == "child-exits" and self_exit:
                for p in list(t.alive):
                    t.alive.discard(p)
                realtime.sleep(0.35)
            elif op == "stop":
                tr.stop()
            if t.max_alive > 1:
                out.append(f"after {op}: {t.max_alive} children alive at once ({t.log})")
                break
        tr.stop()
        n_before = len(t.log)
        tr.on_any_event(FileModifiedEvent("/x"))
        realtime.sleep(0.1)
        if t.alive:
            out.append(f"child alive after stop(): {t.alive}")
        if [e for e in t.log[n_before:] if e[0] == "spawn"]:
            out.append("a child was started after stop() returned")
        helpers = [th for th in threading.enumerate() if type(th).__name__ in ("ProcessWatcher", "EventDebouncer") and th.is_alive()]
        realtime.sleep(0.15)
        helpers = [th for th in helpers if th.is_alive()]
        if helpers:
            out.append(f"helper threads alive after stop(): {helpers}")
        return out
    return with_table(body)


def trick_stop_during_restart():
    """stop() arrives while a restart is parked inside kill_process (after it signalled the old child)"""
    def body(t):
        tr = tricks.AutoRestartTrick(["cmd"], restart_on_command_exit=False)
        tr.start()
        reached, go = threading.Event(), threading.Event()
        first = [True]

        def hook(pid, sig):
            if first[0] and threading.current_thread().name == "dispatcher":
                first[0] = False
                reached.set()
                go.wait(5)
        t.hook = hook
        th = threading.Thread(target=lambda: tr.on_any_event(FileModifiedEvent("/x")), name="dispatcher")
        th.start()
        reached.wait(3)
        stopper = threading.Thread(target=tr.stop)
        stopper.start()
        stopper.join(1.0)
        go.set()
        th.join(3)
        stopper.join(3)
        tr.stop()
        out = []
        if t.alive:
            out.append(f"a child is alive after stop() returned: {t.alive} ({t.log})")
        return out
    return with_table(body)


def trick_child_dies_at_once():
    """the child exits the instant it is signalled and its watcher gets to poll right then (the signalling thread is held
    for a few watcher periods): our own kill must not be taken for a spontaneous exit - one event is one restart"""
    def body(t):
        tr = tricks.AutoRestartTrick(["cmd"], restart_on_command_exit=True, kill_after=0.1)
        tr.start()
        first = [True]

        def hook(pid, sig):
            if first[0]:
                first[0] = False
                t.alive.discard(pid)          # dies at once
                t.log.append(("died-on-signal", pid))
                realtime.sleep(0.45)          # > 4 watcher poll periods
                raise OSError(3, "no such process")
        t.hook = hook
        tr.on_any_event(FileModifiedEvent("/x"))
        realtime.sleep(0.3)
        spawned = [e[1] for e in t.log if e[0] == "spawn"]
        out = []
        if tr.restart_count != 1 or len(spawned) != 2:
            out.append(f"one event, child exits at once when signalled: restart_count={tr.restart_count}, children spawned={spawned} (expected one restart, two children)")
        if t.max_alive > 1:
            out.append(f"{t.max_alive} children alive at once")
        tr.stop()
        if t.alive:
            out.append(f"children alive after stop(): {sorted(t.alive)}")
        return out
    return with_table(body)


def shell_trick(wait, drop):
    def body(t):
        tr = tricks.ShellCommandTrick("cmd", wait_for_process=wait, drop_during_process=drop)
        out = []
        tr.on_any_event(FileModifiedEvent("/a"))
        if wait and t.alive:
            out.append("wait_for_process: command still running when the handler returned")
        tr.on_any_event(FileModifiedEvent("/b"))
        spawns = [e for e in t.log if e[0] == "spawn"]
        if drop and not wait and len(spawns) != 1:
            out.append(f"drop_during_process: {len(spawns)} commands started while the first was running")
        if wait and t.max_alive > 1:
            out.append("commands overlapped although asked to wait")
        tr.on_any_event(FileOpenedEvent("/c"))
        if len([e for e in t.log if e[0] == "spawn"]) != len(spawns):
            out.append("an opened-event started a command")
        t.alive.clear()
        realtime.sleep(0.3)
        return out
    return with_table(body)


def watcher_stop_during_poll(exited_before_stop):
    """the watcher thread is inside popen.poll(); stop() is called (and the child goes away, as in _stop_process);
    a stopped watcher must not call back.  Also the end-to-end count: one event = one restart = one new child."""
    from watchdog.utils.process_watcher import ProcessWatcher
    out = []
    in_poll, go = threading.Event(), threading.Event()
    state = {"alive": True, "polls": 0}

    class P:
        def poll(self):
            state["polls"] += 1
            if state["polls"] == 1:
                in_poll.set()
                go.wait(3)
            return None if state["alive"] else 0
    calls = []
    w = ProcessWatcher(P(), lambda: calls.append(1))
    w.start()
    if not in_poll.wait(2):
        return ["watcher never polled"]
    if exited_before_stop:
        state["alive"] = False
        w.stop()
    else:
        w.stop()
        state["alive"] = False
    go.set()
    w.join(2)
    if w.is_alive():
        out.append("watcher thread did not exit after stop()")
    if calls:
        out.append(f"watcher stopped while inside poll() ({'child exited, then stop()' if exited_before_stop else 'stop(), then child exited'}) still called the termination callback {len(calls)}x")
    return out


def trick_event_while_watcher_polls():
    def body(t):
        tr = tricks.AutoRestartTrick(["cmd"], restart_on_command_exit=True, debounce_interval_seconds=0, kill_after=0.1)
        in_poll, go = threading.Event(), threading.Event()
        orig = FakePopen.poll
        first = []

        def poll(self):
            if not first and threading.current_thread() is not threading.main_thread() and self.pid == 1001:
                first.append(1)
                in_poll.set()
                go.wait(3)
            return orig(self)
        FakePopen.poll = poll
        try:
            tr.start()
            out = []
            if not in_poll.wait(2):
                out.append("watcher of the first child never polled")
            from watchdog.events import FileModifiedEvent
            tr.dispatch(FileModifiedEvent("x.py"))     # one restart: child 1001 killed, 1002 started
            go.set()
            realtime.sleep(0.35)
            spawned = [e[1] for e in t.log if e[0] == "spawn"]
            if tr.restart_count != 1 or len(spawned) != 2:
                out.append(f"one event while the first child's watcher was inside poll(): restart_count={tr.restart_count}, children spawned={spawned} (expected one restart, two children)")
            if t.max_alive > 1:
                out.append(f"{t.max_alive} children alive at once")
            tr.stop()
            if t.alive:
                out.append(f"children alive after stop(): {sorted(t.alive)}")
            return out
        finally:
            FakePopen.poll = orig
    return with_table(body)


SCEN = {"pw:stop-during-poll(stop first)": lambda: watcher_stop_during_poll(False), "pw:stop-during-poll(exit first)": lambda: watcher_stop_during_poll(True), "trick:event-while-watcher-polls": trick_event_while_watcher_polls, "trick:child-dies-at-once-on-signal": trick_child_dies_at_once,
        "deb:event-before-first-wait": lambda: deb_scenario("event-before-first-wait"), "deb:stop-before-first-wait": lambda: deb_scenario("stop-before-first-wait"),
        "deb:order-and-once": lambda: deb_scenario("order-and-once"), "deb:nothing-after-stop": lambda: deb_scenario("nothing-after-stop"), "deb:quiet-interval": deb_timing,
        "trick:stop-during-restart": trick_stop_during_restart}
for w, dr in itertools.product((False, True), repeat=2):
    SCEN[f"shell:wait={w},drop={dr}"] = (lambda w=w, dr=dr: shell_trick(w, dr))


def main():
    if REPLAY is not None:
        c = REPLAY
        pr = SCEN[c["name"]]() if c["kind"] == "scen" else trick_sequential(c["script"], c["self_exit"], c["debounce"], c.get("stubborn", False))
        replay_result(bool(pr), pr[:2])
    bat = Battery({"debouncer": [k for k in SCEN if k.startswith("deb")], "tricks": "event/ignored-event/child-exits/stop scripts of length 3 x restart_on_command_exit x debounce, simulated process table", "interleaving": "stop() during an in-flight restart"})
    for name, fn in SCEN.items():
        bat.case(name)
        pr = fn()
        if pr:
            bat.fail("C18." + name, pr[0], {"kind": "scen", "name": name, "problems": pr[:2]}, name)
    ops = ["event", "ignored-event", "child-exits", "stop"]
    scripts = list(itertools.product(ops, repeat=3 if TIER == "thorough" else 2))
    for script in scripts:
        for self_exit, debounce in ((False, False), (True, False), (False, True)):
            bat.case((script, self_exit, debounce))
            pr = trick_sequential(list(script), self_exit, debounce)
            if pr:
                bat.fail("C18.auto-restart", pr[0], {"kind": "seq", "script": list(script), "self_exit": self_exit, "debounce": debounce, "problems": pr[:2]}, "AutoRestartTrick")
    # a child that ignores the stop signal: after kill_after it is killed for good - never two children, none left after stop()
    for script in (["event", "stop"], ["event", "event"], ["stop"], ["event", "child-exits"]):
        for self_exit in (False, True):
            bat.case(("stubborn", tuple(script), self_exit))
            pr = trick_sequential(list(script), self_exit, False, True)
            if pr:
                bat.fail("C18.auto-restart(child ignores the stop signal)", pr[0], {"kind": "seq", "script": list(script), "self_exit": self_exit, "debounce": False, "stubborn": True, "problems": pr[:2]}, "AutoRestartTrick._stop_process")
    bat.finish()


if __name__ == "__main__":
    main()
