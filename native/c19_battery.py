import os, runpy
os.environ["C03_BATTERY_PROP"] = "C19"
runpy.run_path(os.path.join(os.path.dirname(os.path.abspath(__file__)), "c03_battery.py"), run_name="__main__")
