"""C13 battery [bounded]: all API call sequences up to a length over 2 paths x 2 handlers x {no filter, filter},
with an emitter construction/start failure injected at schedule calls, against a reference map model."""
import itertools, sys, threading
from batlib import Battery, TIER, REPLAY, rng, replay_result
from watchdog.observers.api import BaseObserver, EventEmitter, ObservedWatch
from watchdog.events import FileSystemEventHandler, FileCreatedEvent, FileDeletedEvent


class Boom(OSError):
    pass


class Ctl:
    fail_ctor = False
    fail_start = False


class ScriptedEmitter(EventEmitter):
    def __init__(self, q, watch, **kw):
        if Ctl.fail_ctor:
            raise Boom("ctor")
        super().__init__(q, watch, **kw)

    def on_thread_start(self):
        if Ctl.fail_start:
            raise Boom("start")

    def queue_events(self, timeout):
        self.stopped_event.wait(0.05)


class H(FileSystemEventHandler):
    def __init__(self, name):
        self.name, self.got = name, []

    def on_any_event(self, ev):
        self.got.append(ev)

    def __repr__(self):
        return self.name


PATHS = ["/p", "/q"]
FILTERS = [None, [FileCreatedEvent]]


def ops_universe():
    ops = []
    for p in range(2):
        for f in range(2):
            for h in range(2):
                ops.append(("schedule", p, f, h, None))
                ops.append(("schedule", p, f, h, "ctor"))
            ops.append(("unschedule", p, f))
            for h in range(2):
                ops.append(("add", p, f, h))
                ops.append(("remove", p, f, h))
    ops.append(("unschedule_all",))
    return ops


def run_seq(seq, alive):
    """returns list of problems"""
    problems = []
    obs = BaseObserver(ScriptedEmitter, timeout=0.05)
    hs = [H("h0"), H("h1")]
    model = {}  # key -> set of handler names ; keys of scheduled watches
    extra = {}  # handlers added to unscheduled watches via add_handler_for_watch (allowed by the API)
    if alive:
        obs.start()
    try:
        for op in seq:
            Ctl.fail_ctor = Ctl.fail_start = False
            if op[0] == "schedule":
                _, p, f, h, fail = op
                key = (PATHS[p], False, None if FILTERS[f] is None else frozenset(FILTERS[f]))
                if fail == "ctor":
                    Ctl.fail_ctor = True
                    Ctl.fail_start = True
                try:
                    obs.schedule(hs[h], PATHS[p], event_filter=FILTERS[f])
                    raised = False
                except Boom:
                    raised = True
                Ctl.fail_ctor = Ctl.fail_start = False
                will_fail = fail is not None and key not in model
                if raised != will_fail:
                    problems.append(f"{op}: raised={raised} expected={will_fail}")
                if not raised:
                    model.setdefault(key, set(extra.pop(key, set()))).add(hs[h].name)
            elif op[0] == "unschedule":
                _, p, f = op
                key = (PATHS[p], False, None if FILTERS[f] is None else frozenset(FILTERS[f]))
                w = ObservedWatch(PATHS[p], recursive=False, event_filter=FILTERS[f])
                try:
                    obs.unschedule(w)
                    raised = False
                except KeyError:
                    raised = True
                if raised != (key not in model):
                    problems.append(f"{op}: KeyError={raised} expected={key not in model}")
                model.pop(key, None)
            elif op[0] in ("add", "remove"):
                _, p, f, h = op
                key = (PATHS[p], False, None if FILTERS[f] is None else frozenset(FILTERS[f]))
                w = ObservedWatch(PATHS[p], recursive=False, event_filter=FILTERS[f])
                tgt = model[key] if key in model else extra.setdefault(key, set())
                if op[0] == "add":
                    obs.add_handler_for_watch(hs[h], w)
                    tgt.add(hs[h].name)
                else:
                    try:
                        obs.remove_handler_for_watch(hs[h], w)
                        raised = False
                    except KeyError:
                        raised = True
                    if raised != (hs[h].name not in tgt):
                        problems.append(f"{op}: KeyError={raised} expected={hs[h].name not in tgt}")
                    tgt.discard(hs[h].name)
            elif op[0] == "unschedule_all":
                obs.unschedule_all()
                model.clear()
                extra.clear()
            elif op[0] == "stop":
                # stop() = the stop flag + unschedule_all(), on EVERY call (also the second one, also on an observer that never ran)
                obs.stop()
                if alive:
                    obs.join(3)
                alive = False
                model.clear()
                extra.clear()
            # ---- compare with the reference map after every call
            ems = obs.emitters
            got_keys = sorted((e.watch.key[0], e.watch.key[2] is not None) for e in ems)
            want_keys = sorted((k[0], k[2] is not None) for k in model)
            if got_keys != want_keys:
                problems.append(f"after {op}: emitters for {got_keys}, scheduled watches {want_keys}")
            if len({id(e) for e in ems}) != len(model):
                problems.append(f"after {op}: {len(ems)} emitters for {len(model)} watches")
            for e in ems:
                if alive and not e.is_alive():
                    problems.append(f"after {op}: emitter of a scheduled watch is not running")
        # ---- marker event per scheduled watch: exactly the registered handlers receive it
        for h in hs:
            h.got.clear()
        for e in list(obs.emitters):
            mark = FileCreatedEvent("/marker" + e.watch.path)
            obs.event_queue.put((mark, e.watch))
        n = obs.event_queue.qsize()
        if not alive:
            for _ in range(n):
                obs.dispatch_events(obs.event_queue)
        else:
            obs.event_queue.join()
        for h in hs:
            want = sorted("/marker" + k[0] for k, v in model.items() if h.name in v)
            got = sorted(ev.src_path for ev in h.got)
            if got != want:
                problems.append(f"marker delivery to {h.name}: got {got} expected {want}")
    finally:
        obs.stop()
        if alive:
            obs.join(2)
    return problems


def spellings():
    """the same directory given as str, bytes and pathlib.Path: str and Path are one watch, bytes is another"""
    import pathlib
    pr = []
    obs = BaseObserver(ScriptedEmitter, timeout=0.05)
    hs = [H("hs"), H("hb"), H("hp"), H("he")]
    ws = obs.schedule(hs[0], "/p")
    wb = obs.schedule(hs[1], b"/p")
    wp = obs.schedule(hs[2], pathlib.Path("/p"))
    we = obs.schedule(hs[3], "/p", event_filter=[])
    if ws == wb or hash(ws) == hash(wb) and ws.key == wb.key:
        pr.append("a str watch and a bytes watch of the same directory compare equal")
    if ws != wp:
        pr.append("a str watch and a pathlib.Path watch of the same directory differ")
    if we == ws:
        pr.append("a watch with an empty event filter equals the unfiltered watch")
    if len(obs.emitters) != 3:
        pr.append(f"{len(obs.emitters)} emitters for the three distinct watches str/Path, bytes, str+empty filter")
    for e in obs.emitters:
        if type(e.watch.path) is bytes and e.watch != wb:
            pr.append("bytes emitter bound to a non-bytes watch")
    obs.unschedule_all()
    return pr


def concurrent_schedules():
    """two threads schedule equal watches; the first is parked inside the emitter constructor.  Equal watches share one
    emitter, every handler sees each event once, no emitter survives unschedule."""
    out = []
    in_ctor, go = threading.Event(), threading.Event()
    made = []

    class SlowEmitter(ScriptedEmitter):
        def __init__(self, q, watch, **kw):
            super().__init__(q, watch, **kw)
            made.append(self)
            if len(made) == 1:
                in_ctor.set()
                go.wait(3)
    obs = BaseObserver(SlowEmitter)
    h1, h2 = H("h1"), H("h2")
    ws = []
    a = threading.Thread(target=lambda: ws.append(obs.schedule(h1, "/p", recursive=True)))
    b = threading.Thread(target=lambda: ws.append(obs.schedule(h2, "/p", recursive=True)))
    a.start()
    if not in_ctor.wait(2):
        return ["first schedule() never reached the emitter constructor"]
    b.start()
    b.join(0.3)          # finishes only if schedule() does not hold the registry lock while it creates the emitter
    go.set()
    a.join(3)
    b.join(3)
    if len(obs.emitters) != 1 or len(made) != 1:
        out.append(f"two overlapping schedule() calls for equal watches: {len(made)} emitters created, {len(obs.emitters)} registered (equal watches share one emitter)")
    for em in made:
        em.queue_event(FileCreatedEvent("/p/x"))
    while not obs.event_queue.empty():
        obs.dispatch_events(obs.event_queue)
    for h in (h1, h2):
        if len(h.got) != 1:
            out.append(f"handler {h} received the event {len(h.got)}x")
    if ws:
        obs.unschedule(ws[0])
        if obs.emitters:
            out.append(f"unschedule() of the watch leaves {len(obs.emitters)} emitter(s) registered")
    return out


def start_failure(k):
    """three watches scheduled on a stopped observer; start() fails for the k-th emitter it starts: the failure of one watch
    does not affect the others - their emitters stay registered (and are re-used by a later schedule of the same watch)"""
    out = []
    started = []

    class Em(ScriptedEmitter):
        def on_thread_start(self):
            started.append(self)
            if len(started) == k:
                raise Boom("start")
    obs = BaseObserver(Em)
    ws = [obs.schedule(H(f"h{i}"), p, recursive=True) for i, p in enumerate(("/p", "/q", "/r"))]
    before = {e.watch: e for e in obs.emitters}
    try:
        obs.start()
        out.append("start() did not raise although an emitter failed to start")
    except Boom:
        pass
    failed = started[k - 1].watch if len(started) >= k else None
    after = {e.watch: e for e in obs.emitters}
    for w in ws:
        if w == failed:
            continue
        if after.get(w) is not before[w]:
            out.append(f"start() failed for the emitter of {failed.path}: the emitter of the unrelated watch {w.path} is gone from the observer's books ({len(after)} of 3 emitters left)")
            break
    if not out:
        for w in ws:
            if w != failed:
                n0 = len(obs.emitters)
                obs.schedule(H("again"), w.path, recursive=True)
                if len(obs.emitters) != n0:
                    out.append(f"re-scheduling {w.path} after the failed start() created a second emitter for it")
                    break
    for e in list(before.values()):
        e.stop()
    try:
        obs.stop()
    except Exception:
        pass
    return out


def main():
    if REPLAY is not None:
        if REPLAY.get("kind") == "start-failure":
            pr = start_failure(REPLAY["k"])
            replay_result(bool(pr), pr[:3])
        if REPLAY.get("kind") == "concurrent":
            pr = concurrent_schedules()
            replay_result(bool(pr), pr[:3])
        if REPLAY.get("kind") == "spellings":
            pr = spellings()
            replay_result(bool(pr), pr[:3])
        pr = run_seq([tuple(o) for o in REPLAY["seq"]], REPLAY["alive"])
        replay_result(bool(pr), pr[:3])
    L = 3 if TIER == "quick" else 4
    bat = Battery({"paths": 2, "handlers": 2, "filters": 2, "sequence length": L, "failure injection": "emitter constructor/start at every schedule position", "observer": "not started (exhaustive) and started (sampled)"})
    ops = ops_universe()
    seqs = list(itertools.product(ops, repeat=L))
    rng.shuffle(seqs)
    limit = 20000 if TIER == "quick" else 200000
    for seq in seqs[:limit]:
        bat.case(hash(seq), nontrivial=any(o[0] == "schedule" for o in seq), desc=[list(o) for o in seq])
        pr = run_seq(seq, False)
        if pr:
            bat.fail("C13.registry", pr[0], {"seq": [list(o) for o in seq], "alive": False, "problems": pr[:3]}, "BaseObserver")
    for seq in seqs[limit: limit + (300 if TIER == "quick" else 3000)]:
        bat.case(hash(("alive", seq)))
        pr = run_seq(seq, True)
        if pr:
            bat.fail("C13.registry-running", pr[0], {"seq": [list(o) for o in seq], "alive": True, "problems": pr[:3]}, "BaseObserver")
    # "... and stop calls": stop() more than once, with watches scheduled in between, on an observer that ran or never ran
    S = ("stop",)
    sch = lambda p, h: ("schedule", p, 0, h, None)
    for seq in ([sch(0, 0), S, sch(0, 1), S], [S, sch(0, 0), S], [sch(0, 0), sch(1, 1), S, S, sch(1, 0), ("add", 0, 0, 1), S], [sch(0, 0), S, sch(0, 0), ("unschedule", 0, 0), sch(1, 1), S]):
        for alive in (False, True):
            bat.case(("stops", str(seq), alive))
            pr = run_seq([tuple(o) for o in seq], alive)
            if pr:
                bat.fail("C13.registry-after-stop", pr[0], {"seq": [list(o) for o in seq], "alive": alive, "problems": pr[:3]}, "EventDispatcher.stop")
    for k in (1, 2, 3):
        bat.case(("start-failure", k))
        pr = start_failure(k)
        if pr:
            bat.fail("C13.start-failure-affects-other-watches", pr[0], {"kind": "start-failure", "k": k, "problems": pr[:3]}, "BaseObserver.start")
    bat.case("concurrent-schedules")
    pr = concurrent_schedules()
    if pr:
        bat.fail("C13.concurrent-schedule", pr[0], {"kind": "concurrent", "problems": pr[:3]}, "BaseObserver.schedule")
    bat.case("spellings")
    pr = spellings()
    if pr:
        bat.fail("C13.watch-identity", pr[0], {"kind": "spellings", "problems": pr[:3]}, "ObservedWatch")
    bat.finish()


main()
