"""C20 battery [bounded]: (a) inotify buffer encode->decode round trip for all record counts 0..4, name lengths
0..9 and paddings 1..3 (+ nameless records); (b) FILE_NOTIFY_INFORMATION buffers through winapi._parse_event_buffer
(imported on Linux behind a ctypes.WinDLL shim); (c) WindowsApiEmitter.queue_events on canned native batches over a
real scratch tree; (d) FSEventsEmitter.queue_event non-recursive filter (fake _watchdog_fsevents)."""
import ctypes, itertools, os, queue, shutil, struct, sys, tempfile, types
from batlib import Battery, TIER, REPLAY, rng, replay_result


class _FakeFn:
    def __init__(self, *a, **k):
        pass

    def __call__(self, *a, **k):
        return 0
    restype = argtypes = errcheck = None


class _FakeDLL:
    def __init__(self, *a, **k):
        pass

    def __getattr__(self, n):
        return _FakeFn()


if not hasattr(ctypes, "WinDLL"):
    ctypes.WinDLL = _FakeDLL
    ctypes.WINFUNCTYPE = ctypes.CFUNCTYPE
_m = types.ModuleType("_watchdog_fsevents")
for _n in ("add_watch", "remove_watch", "stop", "read_events", "schedule", "flags"):
    setattr(_m, _n, lambda *a, **k: None)
_m.NativeEvent = object
sys.modules.setdefault("_watchdog_fsevents", _m)

import watchdog.events as E
from watchdog.observers.api import ObservedWatch
from watchdog.observers.inotify_c import Inotify
import watchdog.observers.winapi as winapi
import watchdog.observers.read_directory_changes as rdc
import watchdog.observers.fsevents as fse


# ---------------------------------------------------------------- (a) inotify
def enc_inotify(records):
    out = b""
    for wd, mask, cookie, name, pad in records:
        body = name + b"\0" * pad if (name or pad) else b""
        out += struct.pack("iIII", wd, mask, cookie, len(body)) + body
    return out


def check_inotify(records):
    buf = enc_inotify(records)
    got = list(Inotify._parse_event_buffer(buf))
    want = [(wd, mask, cookie, name) for wd, mask, cookie, name, pad in records]
    return [] if got == want else [f"decode(encode({records})) = {got}"]


# ---------------------------------------------------------------- (b) winapi
def enc_win(records):
    """records: (action, name); NextEntryOffset chains, 0 on the last.  Field offsets/sizes are taken from the
    ctypes structure itself (DWORD is 8 bytes on Linux, 4 on Windows): the layout under test is the one the decoder
    reads on this platform."""
    F = winapi.FileNotifyInformation
    blobs = []
    for action, name in records:
        nb = name.encode("utf-16-le")
        body = bytearray(F.FileName.offset) + nb
        for fld, val in ((F.Action, action), (F.FileNameLength, len(nb)), (F.NextEntryOffset, 0)):
            body[fld.offset:fld.offset + fld.size] = int(val).to_bytes(fld.size, "little")
        while len(body) % 8:
            body += b"\0"
        blobs.append(body)
    F0 = F.NextEntryOffset
    for b in blobs[:-1]:
        b[F0.offset:F0.offset + F0.size] = len(b).to_bytes(F0.size, "little")
    return b"".join(bytes(b) for b in blobs)


def check_win(records, slack):
    buf = enc_win(records)
    raw = ctypes.create_string_buffer(buf + b"\xee" * slack, len(buf) + slack)
    try:
        got = winapi._parse_event_buffer(raw.raw, len(buf))
    except Exception as e:  # noqa: BLE001
        return [f"winapi decode({records}, {len(buf)} bytes completed, slack={slack}) raised {e!r}"]
    want = [(a, n) for a, n in records]
    return [] if got == want else [f"winapi decode({records}, slack={slack}) = {got}"]


# ---------------------------------------------------------------- (c) Windows table
def win_batch(base, batch, recursive):
    q = queue.Queue()
    em = rdc.WindowsApiEmitter(q, ObservedWatch(base, recursive=recursive))
    stopped = []
    em.stop = lambda: stopped.append(1)
    em._read_events = lambda: [winapi.WinAPINativeEvent(a, n) for a, n in batch]
    em.queue_events(0)
    got = []
    while True:
        try:
            got.append(q.get_nowait()[0])
        except queue.Empty:
            break
    return got, stopped


def descend(p):
    out = []
    for root, dirs, files in os.walk(p):
        for d in dirs:
            out.append((os.path.join(root, d), True))
        for f in files:
            out.append((os.path.join(root, f), False))
    return out


def check_win_table(base, recursive):
    A = {"ADDED": 1, "REMOVED": 2, "MODIFIED": 3, "OLD": 4, "NEW": 5, "SELF": 0xFFFE}
    pr = []
    j = lambda n: os.path.join(base, n)
    cases = [
        ([(A["ADDED"], "f")], [E.FileCreatedEvent(j("f"))]),
        ([(A["ADDED"], "d")], [E.DirCreatedEvent(j("d"))] + ([(E.DirCreatedEvent if isd else E.FileCreatedEvent)(p, is_synthetic=True) for p, isd in descend(j("d"))] if recursive else [])),
        ([(A["MODIFIED"], "f")], [E.FileModifiedEvent(j("f"))]),
        ([(A["MODIFIED"], "d")], [E.DirModifiedEvent(j("d"))]),
        ([(A["OLD"], "old"), (A["NEW"], "f")], [E.FileMovedEvent(j("old"), j("f"))]),
        ([(A["OLD"], "oldd"), (A["MODIFIED"], "f"), (A["NEW"], "d")], [E.FileModifiedEvent(j("f")), E.DirMovedEvent(j("oldd"), j("d"))] + ([(E.DirMovedEvent if isd else E.FileMovedEvent)(j("oldd") + p[len(j("d")):], p, is_synthetic=True) for p, isd in descend(j("d"))] if recursive else [])),
        ([(A["REMOVED"], "gone")], [E.FileDeletedEvent(j("gone"))]),
        ([(A["SELF"], "")], [E.DirDeletedEvent(base)]),
    ]
    # a buffer with several records = the records one after the other (nothing remembered from an earlier record of the
    # batch may swallow a later one, e.g. an entry that is removed and created again inside one buffer)
    singles = {}
    for rec in [(A["ADDED"], "d"), (A["ADDED"], "d/y"), (A["REMOVED"], "d/y"), (A["MODIFIED"], "d/y"), (A["ADDED"], "f"), (A["REMOVED"], "f"), (A["ADDED"], "d/sub"), (A["REMOVED"], "d/sub/x"), (A["ADDED"], "d/sub/x")]:
        singles[rec] = win_batch(base, [rec], recursive)[0]
    for batch in ([(A["ADDED"], "d"), (A["ADDED"], "d/y"), (A["REMOVED"], "d/y"), (A["ADDED"], "d/y")], [(A["ADDED"], "f"), (A["REMOVED"], "f"), (A["ADDED"], "f")],
                  [(A["ADDED"], "d"), (A["MODIFIED"], "d/y"), (A["ADDED"], "d/sub"), (A["REMOVED"], "d/sub/x"), (A["ADDED"], "d/sub/x")]):
        cases.append((batch, [e for rec in batch for e in singles[rec]]))
    for batch, want in cases:
        got, stopped = win_batch(base, batch, recursive)
        if got != want:
            pr.append(f"batch {batch} recursive={recursive}: got {got} expected {want}")
        if bool(stopped) != (batch[0][0] == A["SELF"]):
            pr.append(f"batch {batch}: stop() called={bool(stopped)}")
    return pr


def known_win(base):
    """the two recorded findings, reproduced natively"""
    out = []
    os.mkdir(os.path.join(base, "willgo"))
    os.rmdir(os.path.join(base, "willgo"))
    got, _ = win_batch(base, [(2, "willgo")], True)
    if got != [E.DirDeletedEvent(os.path.join(base, "willgo"))]:
        out.append(("C20.win-removed-directory-typed-as-file", f"a removed directory is reported as {got}"))
    got1, _ = win_batch(base, [(4, "a")], True)
    got2, _ = win_batch(base, [(5, "f")], True)
    if got1 + got2 != [E.FileMovedEvent(os.path.join(base, "a"), os.path.join(base, "f"))]:
        out.append(("C20.win-rename-split-across-batches", f"OLD_NAME and NEW_NAME delivered in two reads give {got1 + got2}"))
    return out


# ---------------------------------------------------------------- (d) FSEvents filter
def check_fse():
    pr = []
    root = "/abs/root"
    q = queue.Queue()
    for recursive in (False, True):
        em = fse.FSEventsEmitter.__new__(fse.FSEventsEmitter)
        em._watch = ObservedWatch(root, recursive=recursive)
        em._event_filter = None
        em._event_queue = q
        em._absolute_watch_path = root
        evs = []
        for p in (root, root + "/a", root + "/d/a", root + "/d/e/a"):
            for c in (E.FileCreatedEvent, E.DirCreatedEvent, E.FileModifiedEvent, E.DirModifiedEvent, E.FileDeletedEvent, E.DirDeletedEvent):
                evs.append(c(p))
            for c in (E.FileMovedEvent, E.DirMovedEvent):
                for dst in (root + "/b", root + "/d/b", root + "/d/e/b", "/elsewhere/x"):
                    evs.append(c(p, dst))
        for ev in evs:
            em.queue_event(ev)
            try:
                got = q.get_nowait()[0]
            except queue.Empty:
                got = None
            src = ev.src_path if ev.is_directory else os.path.dirname(ev.src_path)
            top = src == root or (isinstance(ev, E.FileSystemMovedEvent) and os.path.dirname(ev.dest_path) == root)
            if recursive and got is None:
                pr.append(f"recursive watch dropped {ev!r}")
            if not recursive and got is not None and not top:
                pr.append(f"non-recursive watch queued {ev!r} (below the root's direct children)")
            if not recursive and got is None and top:
                pr.append(f"non-recursive watch dropped {ev!r} (about the root's own entries)")
    return pr


def main():
    base = tempfile.mkdtemp(prefix="c20b")
    try:
        os.makedirs(os.path.join(base, "d", "sub"))
        open(os.path.join(base, "d", "sub", "x"), "w").close()
        open(os.path.join(base, "d", "y"), "w").close()
        open(os.path.join(base, "f"), "w").close()
        if REPLAY is not None:
            c = REPLAY
            if c["kind"] == "inotify":
                pr = check_inotify([(r[0], r[1], r[2], bytes(r[3], "latin-1"), r[4]) for r in c["records"]])
            elif c["kind"] == "win":
                pr = check_win([tuple(r) for r in c["records"]], c["slack"])
            elif c["kind"] == "wintable":
                pr = check_win_table(base, c["recursive"])
            elif c["kind"] == "fse-sim":
                import subprocess
                r = subprocess.run([sys.executable, os.path.join(os.path.dirname(os.path.abspath(__file__)), "c20_fsevents_sim.py")], capture_output=True, text=True)
                pr = [r.stdout[-300:]] if r.returncode else []
            elif c["kind"] == "known":
                pr = [w for k, w in known_win(base) if k == c["key"]]
            else:
                pr = check_fse()
            replay_result(bool(pr), pr[:2])
        bat = Battery({"inotify": "records 0..4 x name length 0..9 x padding 1..3 (+nameless)", "winapi": "records 1..4 x name length 0..5 x trailing slack", "windows table": "8 canned batches x recursive", "fsevents filter": "4 depths x 8 classes x 4 destinations x recursive"})
        shapes = [(b"", 0)] + [(bytes([97 + (i % 3)]) * n, p) for n in range(1, 10) for p in (1, 2, 3) for i in (n,)]
        for count in range(0, 5):
            combos = list(itertools.product(shapes, repeat=count))
            if len(combos) > (4000 if TIER == "quick" else 60000):
                combos = rng.sample(combos, 4000 if TIER == "quick" else 60000)
            for combo in combos:
                recs = [(i + 1, 0x100 << (i % 3), 7 * i, nm, pad) for i, (nm, pad) in enumerate(combo)]
                bat.case(hash(tuple(recs)))
                pr = check_inotify(recs)
                if pr:
                    bat.fail("C20.inotify-decoder", pr[0], {"kind": "inotify", "records": [[r[0], r[1], r[2], r[3].decode("latin-1"), r[4]] for r in recs]}, "Inotify._parse_event_buffer")
        # field ranges of struct inotify_event: __s32 wd (the kernel's queue-overflow record carries -1), __u32 mask (IN_ISDIR,
        # IN_Q_OVERFLOW, bit 31), __u32 cookie (any 32-bit value)
        extremes = [(-1, 0x4000, 0), (1, 0x40000100, 0xFFFFFFFF), (2147483647, 0x80000000, 0x80000001), (3, 0x100, 7)]
        for count in (1, 2, 3):
            for combo in itertools.product(extremes, repeat=count):
                for nm, pad in ((b"", 0), (b"n", 3)):
                    recs = [(wd, mask, ck, nm, pad) for wd, mask, ck in combo]
                    bat.case(("inotify-fields", combo, nm))
                    pr = check_inotify(recs)
                    if pr:
                        bat.fail("C20.inotify-decoder", pr[0], {"kind": "inotify", "records": [[r[0], r[1], r[2], r[3].decode("latin-1"), r[4]] for r in recs]}, "Inotify._parse_event_buffer")
        names = ["", "a", "ab", "dir\\f", "éx", "abcde"]
        bat.case("win-empty-buffer")
        pr = check_win([], 256)      # zero bytes completed; the (poisoned) rest of the buffer is there so that a decoder that reads it anyway yields garbage records instead of crashing the battery
        if pr:
            bat.fail("C20.winapi-decoder", pr[0], {"kind": "win", "records": [], "slack": 256}, "_parse_event_buffer")
        for count in range(1, 5):
            combos = list(itertools.product(names, repeat=count))
            if len(combos) > 400:
                combos = rng.sample(combos, 400)
            for combo in combos:
                recs = [(1 + (i % 5), nm) for i, nm in enumerate(combo)]
                for slack in (0, 7):
                    bat.case(hash((tuple(recs), slack)))
                    pr = check_win(recs, slack)
                    if pr:
                        bat.fail("C20.winapi-decoder", pr[0], {"kind": "win", "records": [list(r) for r in recs], "slack": slack}, "winapi._parse_event_buffer")
        for recursive in (False, True):
            bat.case(("wintable", recursive))
            pr = check_win_table(base, recursive)
            if pr:
                bat.fail("C20.windows-table", pr[0], {"kind": "wintable", "recursive": recursive, "problems": pr[:2]}, "WindowsApiEmitter.queue_events")
        for key, what in known_win(base):
            bat.fail(key, what, {"kind": "known", "key": key}, "WindowsApiEmitter.queue_events")
        # FSEventsEmitter.queue_events has no contract (not applicable: relative to Apple's flag coalescing).  Bounded
        # stand-in only: six operation histories rendered into native batches by a small documented-semantics
        # simulator (written independently of the checks), replayed against the real final tree.
        import subprocess
        sim = os.path.join(os.path.dirname(os.path.abspath(__file__)), "c20_fsevents_sim.py")
        r = subprocess.run([sys.executable, sim], capture_output=True, text=True, env=dict(os.environ), timeout=120)
        bat.case("fsevents-replay-scenarios")
        if r.returncode != 0:
            bat.fail("C20.fsevents-replay", "FSEvents scenarios: replaying the normalized stream does not reproduce the tree: " + (r.stdout + r.stderr)[-300:].replace("\n", " | "), {"kind": "fse-sim"}, "FSEventsEmitter.queue_events")
        bat.case("fsevents-filter")
        pr = check_fse()
        if pr:
            bat.fail("C20.fsevents-nonrecursive-filter", pr[0], {"kind": "fse", "problems": pr[:2]}, "FSEventsEmitter.queue_event")
        bat.finish()
    finally:
        shutil.rmtree(base, ignore_errors=True)


main()
