"""C04 battery [bounded]: single-thread re-entrant client programs (handlers that add/remove/unschedule during
callbacks) against a reference model, plus lock-discipline instrumentation: every access to the registry and every
callback must happen with the observer lock held by the current thread."""
import itertools, sys, threading, collections
from batlib import Battery, TIER, REPLAY, rng, replay_result
from watchdog.observers.api import BaseObserver, EventEmitter, ObservedWatch
from watchdog.events import FileSystemEventHandler, FileCreatedEvent, FileModifiedEvent, FileSystemEvent, DirCreatedEvent


class CheckedRLock:
    def __init__(self):
        self._l = threading.RLock()
        self.owner = None
        self.depth = 0

    def acquire(self, *a, **k):
        r = self._l.acquire(*a, **k)
        if r:
            self.owner = threading.get_ident()
            self.depth += 1
        return r

    def release(self):
        self.depth -= 1
        if self.depth == 0:
            self.owner = None
        self._l.release()

    __enter__ = acquire

    def __exit__(self, *a):
        self.release()

    def held(self):
        return self.owner == threading.get_ident() and self.depth > 0


VIOL = []


def guard(lock, what):
    if not lock.held():
        VIOL.append(what)


class GuardedDD(collections.defaultdict):
    lock = None

    def __getitem__(self, k):
        guard(self.lock, "read _handlers without the observer lock")
        return super().__getitem__(k)

    def __delitem__(self, k):
        guard(self.lock, "del _handlers[...] without the observer lock")
        return super().__delitem__(k)

    def clear(self):
        guard(self.lock, "_handlers.clear() without the observer lock")
        return super().clear()


class NullEmitter(EventEmitter):
    def queue_events(self, timeout):
        self.stopped_event.wait(0.05)


class Prog(FileSystemEventHandler):
    """handler with a scripted reaction: list of API actions executed during its first callback"""

    def __init__(self, name, obs, script, registry):
        self.name, self.obs, self.script, self.registry = name, obs, list(script), registry
        self.got = []

    def dispatch(self, event):
        guard(self.obs._lock, f"callback of {self.name} without the observer lock")
        w = self.registry["current_watch"]
        if self.name not in self.registry["model"].get(w, set()):
            VIOL.append(f"{self.name} called for watch {w} while not registered for it")
        self.got.append((event.src_path, w))
        if self.script:
            act = self.script.pop(0)
            self.registry["do"](act)


def run_program(nwatches, regs, scripts, nevents):
    """regs: list of (handler index, watch index); scripts: {handler index: [actions]}"""
    VIOL.clear()
    obs = BaseObserver(NullEmitter, timeout=0.05)
    lock = CheckedRLock()
    obs._lock = lock
    dd = GuardedDD(set)
    dd.lock = lock
    obs._handlers = dd
    registry = {"model": {}, "current_watch": None}
    watches = []
    hs = []

    def do(act):
        kind = act[0]
        if kind == "remove":
            _, h, w = act
            try:
                obs.remove_handler_for_watch(hs[h], watches[w])
            except KeyError:
                pass
            registry["model"].get(w, set()).discard(hs[h].name)
        elif kind == "add":
            _, h, w = act
            obs.add_handler_for_watch(hs[h], watches[w])
            registry["model"].setdefault(w, set()).add(hs[h].name)
        elif kind == "unschedule":
            _, w = act
            try:
                obs.unschedule(watches[w])
            except KeyError:
                pass
            registry["model"].pop(w, None)
        elif kind == "unschedule_all":
            obs.unschedule_all()
            registry["model"].clear()
    registry["do"] = do
    nh = 3
    for i in range(nh):
        hs.append(Prog(f"h{i}", obs, scripts.get(i, []), registry))
    for w in range(nwatches):
        watches.append(ObservedWatch(f"/w{w}", recursive=False))
    for h, w in regs:
        obs.schedule(hs[h], f"/w{w}")
        registry["model"].setdefault(w, set()).add(hs[h].name)
    problems = []
    # feed events round-robin; dispatch synchronously (the dispatcher thread body, one call per event)
    for n in range(nevents):
        w = n % nwatches
        ev = FileCreatedEvent(f"/w{w}/e{n}")
        before = {k: set(v) for k, v in registry["model"].items()}
        counts_before = {h.name: len(h.got) for h in hs}
        obs.event_queue.put((ev, watches[w]))
        registry["current_watch"] = w
        try:
            obs.dispatch_events(obs.event_queue)
        except Exception as e:  # noqa: BLE001  (the observer thread would die here: nothing is delivered any more)
            problems.append(f"event e{n} of watch {w}: dispatch_events raised {type(e).__name__}: {e} - the observer thread ends, every later event is lost")
            break
        for h in hs:
            new = h.got[counts_before[h.name]:]
            if len(new) > 1:
                problems.append(f"event e{n}: {h.name} called {len(new)} times")
            if new and h.name not in before.get(w, set()):
                problems.append(f"event e{n} of watch {w}: {h.name} called but was not registered when dispatch began")
            if not new and h.name in before.get(w, set()) and h.name in registry["model"].get(w, set()) and before == registry["model"]:
                problems.append(f"event e{n} of watch {w}: {h.name} stayed registered throughout but was not called")
    problems.extend(VIOL)
    obs.unschedule_all()
    return problems


def run_plain(nwatches, regs, nevents):
    """no scripts: every registered handler exactly once per event of its watch, nobody else, in queue order"""
    problems = run_program(nwatches, regs, {}, 0)
    VIOL.clear()
    obs = BaseObserver(NullEmitter, timeout=0.05)
    lock = CheckedRLock()
    obs._lock = lock
    got = collections.defaultdict(list)

    class R(FileSystemEventHandler):
        def __init__(self, n):
            self.n = n

        def dispatch(self, ev):
            guard(lock, "callback without lock")
            got[self.n].append(ev.src_path)
    hs = {}
    model = collections.defaultdict(set)
    watches = {}
    for h, w in regs:
        hs.setdefault(h, R(h))
        watches[w] = obs.schedule(hs[h], f"/w{w}")
        model[w].add(h)
    sent = collections.defaultdict(list)
    for n in range(nevents):
        w = n % nwatches
        if w not in watches:
            continue
        ev = FileModifiedEvent(f"/w{w}/e{n}")
        obs.event_queue.put((ev, watches[w]))
        for h in model[w]:
            sent[h].append(ev.src_path)
    while obs.event_queue.qsize():
        try:
            obs.dispatch_events(obs.event_queue)
        except Exception as e:  # noqa: BLE001
            problems.append(f"dispatch_events raised {type(e).__name__}: {e} - the observer thread ends, every later event is lost")
            break
    for h in hs:
        if got[h] != sent[h]:
            problems.append(f"handler {h}: got {got[h]} expected {sent[h]}")
    problems.extend(VIOL)
    obs.unschedule_all()
    return problems


def detached_handlers_stay_detached():
    """'a handler never receives an event of a watch it is not registered for': handlers detached by unschedule() /
    unschedule_all() - including a handler that was attached to a watch while it was not scheduled - receive nothing when an
    equal watch is scheduled again for another handler"""
    problems = []
    for how in ("unschedule_all", "unschedule"):
        got = {"old": [], "late": [], "new": []}

        class R(FileSystemEventHandler):
            def __init__(self, tag):
                self.tag = tag

            def dispatch(self, event):
                got[self.tag].append(event.src_path)
        obs = BaseObserver(NullEmitter, timeout=0.05)
        try:
            w = obs.schedule(R("old"), "/w0")
            obs.unschedule(w)
            obs.add_handler_for_watch(R("late"), w)          # allowed by the API: the watch is not scheduled right now
            if how == "unschedule_all":
                obs.unschedule_all()
            else:
                obs.schedule(R("old"), "/w0")
                obs.unschedule(w)
            w2 = obs.schedule(R("new"), "/w0")
            next(iter(obs.emitters)).queue_event(FileCreatedEvent("/w0/e"))
            while obs.event_queue.qsize():
                obs.dispatch_events(obs.event_queue)
            if got["old"] or got["late"] or got["new"] != ["/w0/e"]:
                problems.append(f"after {how}() and a new schedule() of an equal watch: detached handlers received {got['old'] + got['late']}, the new handler {got['new']}")
        except Exception as e:  # noqa: BLE001
            problems.append(f"{how}: {type(e).__name__}: {e}")
        finally:
            try:
                obs.unschedule_all()
            except Exception:  # noqa: BLE001
                pass
    return problems


def two_observers():
    """two observers in one process, each with a handler on an equal watch: what A's emitter queues is dispatched by A, to
    A's handler, and never reaches B's handler"""
    problems = []
    got = {"A": [], "B": []}

    class R(FileSystemEventHandler):
        def __init__(self, tag):
            self.tag = tag

        def dispatch(self, event):
            got[self.tag].append(event.src_path)
    A, B = BaseObserver(NullEmitter, timeout=0.05), BaseObserver(NullEmitter, timeout=0.05)
    wa, wb = A.schedule(R("A"), "/w0"), B.schedule(R("B"), "/w0")
    ea = next(iter(A.emitters))
    for n in range(3):
        ea.queue_event(FileCreatedEvent(f"/w0/e{n}"))
        for name, o in (("B", B), ("A", A)):     # B's dispatcher runs first
            if o.event_queue.qsize():
                try:
                    o.dispatch_events(o.event_queue)
                except Exception as e:  # noqa: BLE001
                    problems.append(f"dispatch_events of observer {name} raised {type(e).__name__}: {e}")
    want = [f"/w0/e{n}" for n in range(3)]
    if got["B"]:
        problems.append(f"observer B's handler received {got['B']}: events queued by observer A's emitter for A's watch (B's handler is not registered there)")
    if got["A"] != want:
        problems.append(f"observer A's handler received {got['A']} of the events {want} its own emitter queued")
    A.unschedule_all()
    B.unschedule_all()
    return problems


def main():
    if REPLAY is not None:
        c = REPLAY
        if c["kind"] == "detached":
            pr = detached_handlers_stay_detached()
            replay_result(bool(pr), pr[:3])
        if c["kind"] == "two-observers":
            pr = two_observers()
            replay_result(bool(pr), pr[:3])
        if c["kind"] == "queue":
            import c16_battery
            pr = c16_battery.scen_late_bookkeeping(c["variant"])
            replay_result(bool(pr), pr[:3])
        if c["kind"] == "plain":
            pr = run_plain(c["nw"], [tuple(x) for x in c["regs"]], c["nev"])
        else:
            pr = run_program(c["nw"], [tuple(x) for x in c["regs"]], {int(k): [tuple(a) for a in v] for k, v in c["scripts"].items()}, c["nev"])
        replay_result(bool(pr), pr[:3])
    bat = Battery({"watches": "1-2", "handlers": "1-3", "scripts": "one API action inside a callback (remove/add/unschedule/unschedule_all)", "events": 4, "lock instrumentation": "every _handlers access and every callback"})
    regsets = []
    for nw in (1, 2):
        pairs = [(h, w) for h in range(3) for w in range(nw)]
        for k in (1, 2, 3):
            for regs in itertools.combinations(pairs, k):
                regsets.append((nw, regs))
    for nw, regs in regsets:
        bat.case(("plain", nw, regs))
        pr = run_plain(nw, regs, 4)
        if pr:
            bat.fail("C04.plain-dispatch", pr[0], {"kind": "plain", "nw": nw, "regs": [list(r) for r in regs], "nev": 4, "problems": pr[:3]}, "BaseObserver.dispatch_events")
    acts = lambda nw: [("remove", h, w) for h in range(3) for w in range(nw)] + [("add", h, w) for h in range(3) for w in range(nw)] + [("unschedule", w) for w in range(nw)] + [("unschedule_all",)]
    progs = []
    for nw, regs in regsets:
        hs = sorted({h for h, _ in regs})
        for h in hs:
            for a in acts(nw):
                progs.append((nw, regs, {h: [a]}))
    rng.shuffle(progs)
    for nw, regs, scripts in progs[: (1500 if TIER == "quick" else 20000)]:
        bat.case(("prog", nw, regs, str(scripts)))
        pr = run_program(nw, regs, scripts, 4)
        if pr:
            bat.fail("C04.reentrant-dispatch", pr[0], {"kind": "prog", "nw": nw, "regs": [list(r) for r in regs], "scripts": {str(k): [list(a) for a in v] for k, v in scripts.items()}, "nev": 4, "problems": pr[:3]}, "BaseObserver.dispatch_events")
    bat.case("detached-handlers")
    pr = detached_handlers_stay_detached()
    if pr:
        bat.fail("C04.detached-handler-called", pr[0], {"kind": "detached", "problems": pr[:3]}, "BaseObserver.unschedule_all")
    bat.case("two-observers")
    pr = two_observers()
    if pr:
        bat.fail("C04.two-observers", pr[0], {"kind": "two-observers", "problems": pr[:3]}, "EventDispatcher.__init__")
    # ordering / no-loss of the observer's event queue is C16's contract: its interleavings are run here as well
    import c16_battery
    for v in ("consumer", "producer"):
        bat.case(("event-queue", v))
        pr = c16_battery.scen_late_bookkeeping(v)
        if pr:
            bat.fail("C04.event-queue:" + v, pr[0], {"kind": "queue", "variant": v}, "SkipRepeatsQueue.put")
    bat.finish()


main()
