"""C07 battery [bounded]: the C02 history battery read for exceptions only (any exception out of read_events is a
dead reader thread), plus root deletion end to end on both back ends."""
import os, runpy, sys, tempfile, shutil, queue, time, threading
os.environ["C02_BATTERY_PROP"] = "C07"
import batlib
_finish = batlib.Battery.finish
_captured = {}


def _no_finish(self):
    _captured["bat"] = self


batlib.Battery.finish = _no_finish
here = os.path.dirname(os.path.abspath(__file__))
if batlib.REPLAY is not None and batlib.REPLAY.get("kind") not in ("root", "stale-event"):
    batlib.Battery.finish = _finish
    runpy.run_path(os.path.join(here, "c02_battery.py"), run_name="__main__")
    sys.exit(0)


class OneRecordPerRead:
    """os.read on an inotify descriptor hands out one record per call (the reader wakes between any two records - e.g.
    between the root's IN_DELETE_SELF and the IN_IGNORED that follows it)"""

    def __init__(self):
        import watchdog.observers.inotify_c as ic
        self.ic, self.real, self.pending = ic, ic.os.read, {}

    def __enter__(self):
        import errno
        real = self.real

        def read(fd, n):
            if n < 1024:           # the wake-up pipe and other small reads
                return real(fd, n)
            # the kernel hands out as many whole records as fit: ask for 16, 32, 48 ... bytes until the first record fits
            # (EINVAL while it does not) - the rest stays in the kernel queue, so poll() keeps reporting it
            for size in range(16, 16 + 4096, 16):
                try:
                    return real(fd, size)
                except OSError as e:
                    if e.errno != errno.EINVAL:
                        raise
            return real(fd, n)
        self.ic.os.read = read
        return self

    def __exit__(self, *a):
        self.ic.os.read = self.real


def root_deleted_inotify(split=False):
    if split:
        with OneRecordPerRead():
            return root_deleted_inotify(False)
    from watchdog.observers.inotify import InotifyObserver
    from watchdog.events import FileSystemEventHandler, DirDeletedEvent
    errs = []
    old = threading.excepthook
    threading.excepthook = lambda a: errs.append(repr(a.exc_value))
    out = []
    try:
        # the watch path as the user spelled it (canonical, trailing separator, doubled separator, '.' component, bytes)
        spell = [lambda b: os.path.join(b, "root"), lambda b: os.path.join(b, "root", ""), lambda b: b + "//root", lambda b: os.path.join(b, ".", "root"), lambda b: os.fsencode(os.path.join(b, "root"))]
        for recursive, sp in [(r, f) for r in (False, True) for f in spell]:
            base = tempfile.mkdtemp(prefix="c07r")
            os.makedirs(os.path.join(base, "root", "sub"))
            root = sp(base)
            got = []

            class H(FileSystemEventHandler):
                def on_any_event(self, ev):
                    got.append(ev)
            o = InotifyObserver(timeout=0.2)
            o.schedule(H(), root, recursive=recursive)
            o.start()
            em = next(iter(o.emitters))
            shutil.rmtree(os.path.join(base, "root"))
            em.join(3)
            time.sleep(0.2)
            dels = [e for e in got if isinstance(e, DirDeletedEvent) and e.src_path == root]
            if len(dels) != 1:
                out.append(f"root deleted (watch path spelled {root!r}, recursive={recursive}): {len(dels)} DirDeletedEvent(root) delivered: {got[-3:]}")
            if em.is_alive():
                out.append(f"root deleted (watch path spelled {root!r}, recursive={recursive}): the emitter did not stop")
            o.stop()
            o.join(3)
            shutil.rmtree(base, ignore_errors=True)
        if errs:
            out.append(f"a library thread died with {errs}")
    finally:
        threading.excepthook = old
    return out


def stale_event_of_unscheduled_watch():
    """an event of watch A is still in the observer's queue when A is unscheduled; then an event of watch B: the observer
    thread must survive the stale entry and deliver B's event"""
    from watchdog.observers.api import BaseObserver, EventEmitter
    from watchdog.events import FileSystemEventHandler, FileCreatedEvent
    errs, got = [], []
    old = threading.excepthook
    threading.excepthook = lambda a: errs.append(repr(a.exc_value))

    class Em(EventEmitter):
        def queue_events(self, timeout):
            self.stopped_event.wait(0.05)

    class H(FileSystemEventHandler):
        def on_any_event(self, ev):
            got.append(ev.src_path)
    out = []
    try:
        obs = BaseObserver(Em, timeout=0.05)
        wa = obs.schedule(H(), "/c07-a")
        wb = obs.schedule(H(), "/c07-b")
        ea = next(e for e in obs.emitters if e.watch == wa)
        eb = next(e for e in obs.emitters if e.watch == wb)
        ea.queue_event(FileCreatedEvent("/c07-a/x"))
        obs.unschedule(wa)
        eb.queue_event(FileCreatedEvent("/c07-b/y"))
        obs.start()
        t0 = time.time()
        while time.time() - t0 < 3 and "/c07-b/y" not in got and obs.is_alive():
            time.sleep(0.02)
        alive = obs.is_alive()
        obs.stop()
        obs.join(3)
        if errs:
            out.append(f"the observer thread died with {errs[0]} on an event of a watch that had been unscheduled while the event was queued")
        elif "/c07-b/y" not in got or not alive:
            out.append(f"events delivered {got}, observer alive={alive}: the event of the still scheduled watch was not delivered")
    finally:
        threading.excepthook = old
    return out


def handler_changes_its_watch(action):
    """a handler changes the handler set of its own watch from inside its callback (removes itself - a one-shot handler -,
    removes another handler, adds one, unschedules the watch): the dispatcher supports all of these; the observer thread must
    survive and deliver the next event of a still scheduled watch"""
    from watchdog.observers.api import BaseObserver, EventEmitter
    from watchdog.events import FileSystemEventHandler, FileCreatedEvent
    errs, got = [], []
    old = threading.excepthook
    threading.excepthook = lambda a: errs.append(repr(a.exc_value))

    class Em(EventEmitter):
        def queue_events(self, timeout):
            self.stopped_event.wait(0.05)

    class Rec(FileSystemEventHandler):
        def on_any_event(self, ev):
            got.append(ev.src_path)

    class Act(FileSystemEventHandler):
        done = False

        def on_any_event(self, ev):
            if Act.done:
                return
            Act.done = True
            if action == "remove-self":
                obs.remove_handler_for_watch(self, wa)
            elif action == "remove-others":
                for h in others:
                    obs.remove_handler_for_watch(h, wa)
            elif action == "add":
                for _ in range(3):
                    obs.add_handler_for_watch(Rec(), wa)
            elif action == "unschedule":
                obs.unschedule(wa)
    out = []
    try:
        obs = BaseObserver(Em, timeout=0.05)
        others = [Rec(), Rec(), Rec()]
        act = Act()
        wa = obs.schedule(act, "/c07-a")
        for h in others:
            obs.add_handler_for_watch(h, wa)
        wb = obs.schedule(Rec(), "/c07-b")
        ea = next(e for e in obs.emitters if e.watch == wa)
        eb = next(e for e in obs.emitters if e.watch == wb)
        obs.start()
        ea.queue_event(FileCreatedEvent("/c07-a/x"))
        t0 = time.time()
        while time.time() - t0 < 3 and not Act.done:
            time.sleep(0.02)
        time.sleep(0.1)
        eb.queue_event(FileCreatedEvent("/c07-b/y"))
        t0 = time.time()
        while time.time() - t0 < 3 and "/c07-b/y" not in got and obs.is_alive():
            time.sleep(0.02)
        alive = obs.is_alive()
        obs.stop()
        obs.join(3)
        if errs:
            out.append(f"a handler's own `{action}` from inside its callback: the observer thread died with {errs[0]}")
        elif "/c07-b/y" not in got or not alive:
            out.append(f"after a handler's own `{action}` from inside its callback: events delivered {got}, observer alive={alive}: a later event of a scheduled watch was not delivered")
    finally:
        threading.excepthook = old
    return out


if batlib.REPLAY is not None and batlib.REPLAY.get("kind") == "handler-changes":
    pr = handler_changes_its_watch(batlib.REPLAY["action"])
    batlib.replay_result(bool(pr), pr[:2])
if batlib.REPLAY is not None and batlib.REPLAY.get("kind") == "stale-event":
    pr = stale_event_of_unscheduled_watch()
    batlib.replay_result(bool(pr), pr[:2])
if batlib.REPLAY is not None:
    pr = root_deleted_inotify(batlib.REPLAY.get("split", False))
    batlib.replay_result(bool(pr), pr[:2])
runpy.run_path(os.path.join(here, "c02_battery.py"), run_name="__main__")
bat = _captured["bat"]
bat.failures = [f for f in bat.failures if "moved-in-directory-not-watched" not in f["key"]]
bat.case("stale-event-of-unscheduled-watch")
pr = stale_event_of_unscheduled_watch()
if pr:
    bat.fail("C07.observer-thread-dies", pr[0], {"kind": "stale-event", "problems": pr[:2]}, "BaseObserver.dispatch_events")
for action in ("remove-self", "remove-others", "add", "unschedule"):
    bat.case(("handler-changes-its-watch", action))
    pr = handler_changes_its_watch(action)
    if pr:
        bat.fail("C07.observer-thread-dies(" + action + ")", pr[0], {"kind": "handler-changes", "action": action, "problems": pr[:2]}, "BaseObserver.dispatch_events")
for split in (False, True):
    bat.case(("root-deleted-inotify", split))
    pr = root_deleted_inotify(split)
    if pr:
        bat.fail("C07.root-deleted" + ("(one record per read)" if split else ""), pr[0], {"kind": "root", "split": split, "problems": pr[:2]}, "InotifyEmitter.queue_events")
batlib.Battery.finish = _finish
bat.finish()
