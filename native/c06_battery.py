"""C06 battery [bounded]: short API call sequences (start / schedule / unschedule / unschedule_all / stop, issued
from the application thread or re-entrantly from a handler callback) on the real inotify and polling observers;
every call must return and after stop()+join() every library thread must be gone (generous time-outs: a hang is
reported, timing is not asserted).  Includes stop() twice, stop() right after start(), stop() after the watched
root disappeared, and a re-entrant stop() while an emitter floods the event queue."""
import itertools, os, shutil, sys, tempfile, threading, time
from batlib import Battery, TIER, REPLAY, rng, replay_result
from watchdog.observers.inotify import InotifyObserver
from watchdog.observers.polling import PollingObserver
from watchdog.observers.api import BaseObserver, EventEmitter
from watchdog.events import FileSystemEventHandler, FileModifiedEvent


def lib_threads():
    return [t for t in threading.enumerate() if type(t).__module__.startswith("watchdog") and t.is_alive()]


def quiet_stop(t):
    """clean-up after a reported failure: ask a left-over library thread to stop, without waiting for a stop() that blocks"""
    def go():
        try:
            t.stop()
        except Exception:  # noqa: BLE001
            pass
    h = threading.Thread(target=go, daemon=True)
    h.start()
    h.join(1)


def with_deadline(fn, secs, what, out):
    t = threading.Thread(target=fn, daemon=True)
    t.start()
    t.join(secs)
    if t.is_alive():
        out.append(f"{what} did not return within {secs}s")
        return False
    return True


def run_sequence(kind, seq):
    base = tempfile.mkdtemp(prefix="c06b")
    out = []
    try:
        os.mkdir(os.path.join(base, "d"))
        before = set(lib_threads())
        o = (InotifyObserver if kind == "inotify" else PollingObserver)(timeout=0.05)
        watches = []

        class H(FileSystemEventHandler):
            def __init__(self, act):
                self.act = act

            def on_any_event(self, ev):
                if self.act:
                    a, self.act = self.act, None
                    apply_op(a)

        def apply_op(op):
            if op == "start":
                if not o.is_alive() and not getattr(o, "_started_once", False):
                    o._started_once = True
                    o.start()
            elif op.startswith("schedule"):
                act = op.split(":", 1)[1] if ":" in op else None
                watches.append(o.schedule(H(act), base, recursive=(len(watches) % 2 == 0)))
            elif op == "unschedule":
                if watches:
                    try:
                        o.unschedule(watches.pop())
                    except KeyError:
                        pass
            elif op == "unschedule_all":
                o.unschedule_all()
                watches.clear()
            elif op == "stop":
                o.stop()
            elif op == "touch":
                try:
                    open(os.path.join(base, "d", "f%d" % time.monotonic_ns()), "w").close()
                except OSError:
                    pass
                time.sleep(0.15)
            elif op == "rmroot":
                shutil.rmtree(base, ignore_errors=True)
                time.sleep(0.15)
            elif op == "movein":
                # a populated directory arrives from outside the watched tree
                src = tempfile.mkdtemp(prefix="c06in")
                try:
                    os.makedirs(os.path.join(src, "t", "sub"))
                    os.rename(os.path.join(src, "t"), os.path.join(base, "in%d" % time.monotonic_ns()))
                except OSError:
                    pass
                finally:
                    shutil.rmtree(src, ignore_errors=True)
                time.sleep(0.15)
        for op in seq:
            if not with_deadline(lambda op=op: apply_op(op), 5, f"{kind}: {op} in {seq}", out):
                break
        if not out:
            with_deadline(o.stop, 5, f"{kind}: final stop() after {seq}", out)
            if getattr(o, "_started_once", False):
                with_deadline(lambda: o.join(), 5, f"{kind}: join() after {seq}", out)
            time.sleep(0.05)
            left = [t for t in lib_threads() if t not in before]
            if left and not out:
                time.sleep(0.5)
                left = [t for t in lib_threads() if t not in before]
            if left:
                out.append(f"{kind}: threads still alive after stop()+join() following {seq}: {[type(t).__name__ for t in left]}")
    finally:
        shutil.rmtree(base, ignore_errors=True)
    return out


def flood():
    """a handler calls stop() re-entrantly while the emitter has queued thousands of events"""
    out = []
    gate = threading.Event()

    class Flood(EventEmitter):
        def queue_events(self, timeout):
            for i in range(6000):
                self.queue_event(FileModifiedEvent(f"/x{i}"))
            gate.set()
            self.stopped_event.wait()
    o = BaseObserver(Flood, timeout=0.05)

    class H(FileSystemEventHandler):
        done = False

        def on_any_event(self, ev):
            if not H.done:
                H.done = True
                gate.wait(5)
                o.stop()
    o.schedule(H(), "/w")
    o.start()
    o.join(8)
    if o.is_alive():
        out.append("re-entrant stop() with 6000 undispatched events: the observer thread never exits (an emitter blocked in put()?)")
    left = lib_threads()
    if left and not out:
        time.sleep(0.5)
        if lib_threads():
            out.append(f"threads alive after re-entrant stop(): {[type(t).__name__ for t in lib_threads()]}")
    return out


def failed_start_then_stop():
    """a watch whose emitter fails in start() (the directory vanished); start() is retried and works, another watch is
    scheduled, then stop(): it must return without raising and every thread must be gone"""
    out = []
    fail = {"on": True}

    class Em(EventEmitter):
        def on_thread_start(self):
            if fail["on"] and self.watch.path == "/c06-gone":
                raise OSError(2, "No such file or directory", self.watch.path)

        def queue_events(self, timeout):
            self.stopped_event.wait(0.05)
    obs = BaseObserver(Em, timeout=0.05)
    obs.schedule(FileSystemEventHandler(), "/c06-gone")
    try:
        obs.start()
        out.append("start() did not raise for an emitter that cannot start")
    except OSError:
        pass
    fail["on"] = False
    err = []

    def go():
        try:
            obs.start()
            obs.schedule(FileSystemEventHandler(), "/c06-other")
            obs.stop()
        except Exception as e:  # noqa: BLE001
            err.append(repr(e))
    ok = with_deadline(go, 5, "start(); schedule(); stop() after a failed start()", out)
    if err:
        out.append(f"stop() after a failed and a retried start() raised {err[0]}")
    if ok:
        obs.join(3)
    time.sleep(0.2)
    left = lib_threads()
    if left:
        out.append(f"threads left after stop()+join(): {[t.name for t in left]}")
        for t in left:
            if hasattr(t, "stop"):
                try:
                    quiet_stop(t)
                except Exception:
                    pass
        try:
            obs.event_queue.put_nowait(BaseObserver.stop_event)
        except Exception:
            pass
    return out


def stop_during_start(which):
    """observer.start() is starting its emitters (no registry lock) while another thread calls stop() / unschedule_all():
    the emitter caught between on_thread_start() and Thread.start() must still be told to stop - after stop()+join()
    no emitter thread may be running"""
    out = []
    in_start, go = threading.Event(), threading.Event()

    class Em(EventEmitter):
        def on_thread_start(self):
            in_start.set()
            go.wait(3)

        def queue_events(self, timeout):
            self.stopped_event.wait(0.05)
    obs = BaseObserver(Em, timeout=0.05)
    obs.schedule(FileSystemEventHandler(), "/c06-start-race")
    ems = list(obs.emitters)
    st = threading.Thread(target=obs.start, daemon=True)
    st.start()
    if not in_start.wait(2):
        return ["observer.start() never reached the emitter's on_thread_start()"]
    ok = with_deadline(obs.stop if which == "stop" else obs.unschedule_all, 5, f"{which}() during start()", out)
    go.set()
    st.join(3)
    if which != "stop":
        with_deadline(obs.stop, 5, "stop()", out)
    obs.join(3)
    time.sleep(0.2)
    alive = [e for e in ems if e.is_alive()]
    if alive:
        out.append(f"{which}() while start() was between an emitter's on_thread_start() and Thread.start(): the emitter thread keeps running after stop()+join() (nothing can stop it any more)")
        for e in alive:
            quiet_stop(e)
    return out


def thread_start_fails():
    """the operating system refuses the emitter's thread (RuntimeError: can't start new thread) AFTER the emitter's
    on_thread_start() has started its helper thread (real inotify emitter): start() fails; stop() + join() must still
    end every thread the library started"""
    from watchdog.observers.inotify import InotifyEmitter
    out = []
    base = tempfile.mkdtemp(prefix="c06t")
    real_start = threading.Thread.start
    fired = []

    def start(self, *a, **k):
        if isinstance(self, InotifyEmitter) and not fired:
            fired.append(1)
            raise RuntimeError("can't start new thread")
        return real_start(self, *a, **k)
    obs = InotifyObserver(timeout=0.05)
    obs.schedule(FileSystemEventHandler(), base, recursive=True)
    threading.Thread.start = start
    try:
        try:
            obs.start()
            out.append("start() did not raise although the emitter's thread could not be started")
        except RuntimeError:
            pass
        finally:
            threading.Thread.start = real_start

        def go():
            obs.stop()
            try:
                obs.join(3)
            except RuntimeError:
                pass   # the observer's own thread was never started
        with_deadline(go, 8, "stop(); join() after a failed start()", out)
        deadline = time.time() + 3
        while lib_threads() and time.time() < deadline:
            time.sleep(0.05)
        left = lib_threads()
        if left:
            out.append(f"start() failed at the emitter's Thread.start(); after stop()+join() these library threads still run (nothing can reach them any more): {sorted(type(t).__name__ for t in left)}")
            for t in left:
                try:
                    quiet_stop(t)
                except Exception:
                    pass
    finally:
        threading.Thread.start = real_start
        shutil.rmtree(base, ignore_errors=True)
    return out


def unschedule_vs_stop():
    """one application thread is inside unschedule(w1) - preempted right where the emitter is taken out of the registry -
    while another calls stop(): both calls must return without an error and every emitter thread must be gone afterwards"""
    out, errs = [], []
    parked, release = threading.Event(), threading.Event()
    first = []

    def tracer(frame, event, arg):
        # preemption point: entry of the registry's emitter-removal helper, on the unscheduling thread only
        if event == "call" and frame.f_code.co_name == "_remove_emitter" and not first:
            first.append(1)
            parked.set()
            release.wait(5)
        return None

    class Em(EventEmitter):
        def queue_events(self, timeout):
            # slow to notice the stop flag: whoever joins this emitter stays in its loop for a while
            time.sleep(0.25)
    obs = BaseObserver(Em, timeout=0.05)
    w1 = obs.schedule(FileSystemEventHandler(), "/c06-w1")
    for i in range(2, 5):
        obs.schedule(FileSystemEventHandler(), f"/c06-w{i}")
    ems = list(obs.emitters)
    obs.start()

    def t1():
        sys.settrace(tracer)
        try:
            obs.unschedule(w1)
        except Exception as e:  # noqa: BLE001
            errs.append(f"unschedule() raised {type(e).__name__}: {e}")
        finally:
            sys.settrace(None)

    def t2():
        try:
            obs.stop()
        except Exception as e:  # noqa: BLE001
            errs.append(f"stop() raised {type(e).__name__}: {e}")
    a = threading.Thread(target=t1, daemon=True)
    a.start()
    if not parked.wait(3):
        release.set()
        return []   # the removal helper is not entered by unschedule(): nothing to interleave here
    b = threading.Thread(target=t2, daemon=True)
    b.start()
    time.sleep(0.35)     # stop() is now waiting for the registry lock - or, without it, walking the emitter set
    release.set()
    a.join(8)
    b.join(8)
    if a.is_alive() or b.is_alive():
        out.append("unschedule() and a concurrent stop() did not both return within 8 s")
    out += errs
    try:
        obs.join(3)
    except RuntimeError:
        pass
    time.sleep(0.4)
    alive = [e for e in ems if e.is_alive()] + ([obs] if obs.is_alive() else [])
    if alive:
        out.append(f"after unschedule() || stop() and join(): {len(alive)} library thread(s) still alive")
        for e in alive:
            quiet_stop(e)
        try:
            obs.event_queue.put_nowait(BaseObserver.stop_event)
        except Exception:
            pass
    return out


def main():
    if REPLAY is not None:
        c = REPLAY
        if c["kind"] == "failed-start":
            pr = failed_start_then_stop()
            replay_result(bool(pr), pr[:2])
        if c["kind"] == "thread-start-fails":
            pr = thread_start_fails()
            replay_result(bool(pr), pr[:2])
        if c["kind"] == "unschedule-vs-stop":
            pr = unschedule_vs_stop()
            replay_result(bool(pr), pr[:2])
        if c["kind"] == "start-race":
            pr = stop_during_start(c["which"])
            replay_result(bool(pr), pr[:2])
        if c["kind"] == "deb":
            import c18_battery
            pr = c18_battery.SCEN[c["name"]]()
        else:
            pr = flood() if c["kind"] == "flood" else run_sequence(c["observer"], c["seq"])
        replay_result(bool(pr), pr[:2])
    bat = Battery({"observers": ["inotify", "polling"], "sequence length": 3, "operations": "start, schedule, schedule with a callback that stops/unschedules, unschedule, unschedule_all, stop, touch, remove root, move a directory in", "deadline per call": "5 s"})
    ops = ["start", "schedule", "schedule:stop", "schedule:unschedule_all", "unschedule", "unschedule_all", "stop", "touch", "rmroot", "movein"]
    seqs = [s for s in itertools.product(ops, repeat=3)]
    named = [("start", "stop", "stop"), ("schedule", "start", "rmroot"), ("start", "schedule:stop", "touch"), ("schedule:unschedule_all", "start", "touch"), ("start", "schedule", "stop"), ("schedule", "start", "stop"), ("schedule", "start", "movein"), ("start", "schedule", "movein")]
    rng.shuffle(seqs)
    chosen = named + seqs[: (18 if TIER == "quick" else 250)]
    for kind in ("inotify", "polling"):
        for seq in chosen:
            bat.case((kind, seq))
            pr = run_sequence(kind, list(seq))
            if pr:
                bat.fail("C06.sequence", pr[0], {"kind": "seq", "observer": kind, "seq": list(seq), "problems": pr[:2]}, "BaseObserver")
    # helper threads of the tricks: the debouncer must exit on stop() whenever stop() arrives (W3 wait predicate)
    import c18_battery
    for name in ("deb:stop-before-first-wait", "deb:event-before-first-wait"):
        bat.case(name)
        pr = c18_battery.SCEN[name]()
        if pr:
            bat.fail("C06." + name, pr[0], {"kind": "deb", "name": name}, "EventDebouncer.run")
    bat.case("failed-start-then-stop")
    pr = failed_start_then_stop()
    if pr:
        bat.fail("C06.stop-after-failed-start", pr[0], {"kind": "failed-start"}, "BaseObserver.unschedule_all")
    for which in ("stop", "unschedule_all"):
        bat.case(("start-race", which))
        pr = stop_during_start(which)
        if pr:
            bat.fail("C06.stop-during-start", pr[0], {"kind": "start-race", "which": which}, "BaseObserver._clear_emitters")
    bat.case("thread-start-fails")
    pr = thread_start_fails()
    if pr:
        bat.fail("C06.failed-thread-start", pr[0], {"kind": "thread-start-fails"}, "BaseObserver.start")
    bat.case("unschedule-vs-stop")
    pr = unschedule_vs_stop()
    if pr:
        bat.fail("C06.unschedule-vs-stop", pr[0], {"kind": "unschedule-vs-stop"}, "BaseObserver.unschedule")
    bat.case("flood")
    pr = flood()
    if pr:
        bat.fail("C06.flooded-queue-stop", pr[0], {"kind": "flood"}, "EventDispatcher")
    bat.finish()


main()
# library threads that a changed tree left stuck are not daemons: do not wait for them at interpreter exit
sys.stdout.flush()
os._exit(0)
