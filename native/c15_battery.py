"""C15 battery [bounded]: 13 event classes x paths x pattern/regex lists x flags against an independent reference
evaluator (direct PurePath.match / re), plus filter_paths / match_any_paths agreement."""
import itertools, os, re, sys
from pathlib import PurePosixPath, PureWindowsPath
from batlib import Battery, TIER, REPLAY, rng, replay_result
import watchdog.events as E
from watchdog.utils.patterns import filter_paths, match_any_paths, _match_path

CLASSES = [E.FileMovedEvent, E.DirMovedEvent, E.FileDeletedEvent, E.DirDeletedEvent, E.FileCreatedEvent, E.DirCreatedEvent, E.FileModifiedEvent, E.DirModifiedEvent,
           E.FileClosedEvent, E.FileClosedNoWriteEvent, E.FileOpenedEvent, E.FileSystemMovedEvent]
CB = {"FileSystemMovedEvent": "on_moved", "FileMovedEvent": "on_moved", "DirMovedEvent": "on_moved", "FileDeletedEvent": "on_deleted", "DirDeletedEvent": "on_deleted",
      "FileCreatedEvent": "on_created", "DirCreatedEvent": "on_created", "FileModifiedEvent": "on_modified", "DirModifiedEvent": "on_modified",
      "FileClosedEvent": "on_closed", "FileClosedNoWriteEvent": "on_closed_no_write", "FileOpenedEvent": "on_opened"}
ISDIR = {"DirMovedEvent", "DirDeletedEvent", "DirCreatedEvent", "DirModifiedEvent"}
PATHS = ["a", "A", "a.py", "d/a.py", "b.PY", "w\\a.py", "C:\\w\\b.PY"]   # the last two: separators / drive prefix as pathlib's Windows flavour (the case-insensitive matcher) reads them
PATS = ["*", "*.py", "a*", "A*", "*.PY", "a.py"]
RXS = [r".*", r".*\.py", r"a", r"A.*", r".*\.tmp"]
METHODS = ["on_any_event", "on_moved", "on_created", "on_deleted", "on_modified", "on_closed", "on_closed_no_write", "on_opened"]


def recorder(base, **kw):
    log = []

    class R(base):
        pass
    for m in METHODS:
        setattr(R, m, (lambda m: lambda self, ev: log.append((m, ev)))(m))
    return R(**kw), log


def ref_match(p, inc, exc, cs):
    inc = {"*"} if inc is None else set(inc)
    exc = set() if exc is None else set(exc)
    if not cs:
        inc, exc = {x.lower() for x in inc}, {x.lower() for x in exc}
    if inc & exc:
        raise ValueError
    pp = PurePosixPath(p) if cs else PureWindowsPath(p)
    return any(pp.match(x) for x in inc) and not any(pp.match(x) for x in exc)


def ev_paths(ev):
    out = [os.fsdecode(ev.dest_path)]
    if ev.src_path:
        out.append(os.fsdecode(ev.src_path))
    return out


def mk_events(kind):
    # bytes paths: one name carries a byte that is not valid in the file system encoding (surrogateescape on decoding)
    enc = (lambda s: s) if kind == "str" else (lambda s: s.encode().replace(b"b.PY", b"b\xe9.PY"))
    evs = []
    for c in CLASSES:
        if "Moved" in c.__name__:
            for s, d in itertools.product(PATHS[:4], PATHS[1:5]):
                evs.append(c(enc(s), enc(d)))
        else:
            for s in PATHS:
                evs.append(c(enc(s)))
    return evs


def pat_lists():
    out = [None, []]
    out += [[p] for p in PATS]
    out += [list(x) for x in itertools.combinations(PATS, 2)]
    return out


def check_base(ev):
    h, log = recorder(E.FileSystemEventHandler)
    h.dispatch(ev)
    want = [("on_any_event", ev), (CB[type(ev).__name__], ev)]
    return None if log == want else f"base dispatch of {type(ev).__name__}: got {[m for m, _ in log]} want {[m for m, _ in want]}"


def check_pattern(ev, inc, exc, cs, igd, hl=None):
    h, log = hl if hl is not None else recorder(E.PatternMatchingEventHandler, patterns=inc, ignore_patterns=exc, ignore_directories=igd, case_sensitive=cs)
    del log[:]
    want_exc = False
    want = []
    if not (igd and type(ev).__name__ in ISDIR):
        try:
            if any(ref_match(p, inc, exc, cs) for p in ev_paths(ev)) if True else False:
                want = [("on_any_event", ev), (CB[type(ev).__name__], ev)]
        except ValueError:
            want_exc = True
        # the conflict must be reported even if an earlier path matched: evaluate all
        if not want_exc:
            try:
                [ref_match(p, inc, exc, cs) for p in ev_paths(ev)]
            except ValueError:
                want_exc = True
    try:
        h.dispatch(ev)
        got_exc = False
    except ValueError:
        got_exc = True
    except Exception as e:  # noqa: BLE001
        return f"pattern dispatch {ev!r} inc={inc} exc={exc} cs={cs} igd={igd}: raised {e!r}"
    if got_exc != want_exc:
        return f"pattern dispatch {ev!r} inc={inc} exc={exc} cs={cs} igd={igd}: ValueError raised={got_exc}, expected={want_exc}"
    if not want_exc and log != want:
        return f"pattern dispatch {ev!r} inc={inc} exc={exc} cs={cs} igd={igd}: callbacks {[m for m, _ in log]} expected {[m for m, _ in want]}"
    return None


def check_regex(ev, rx, irx, cs, igd, hl=None):
    h, log = hl if hl is not None else recorder(E.RegexMatchingEventHandler, regexes=rx, ignore_regexes=irx, ignore_directories=igd, case_sensitive=cs)
    del log[:]
    fl = 0 if cs else re.IGNORECASE
    rxs = [re.compile(r, fl) for r in ([r".*"] if rx is None else ([rx] if isinstance(rx, str) else rx))]
    irxs = [re.compile(r, fl) for r in ([] if irx is None else irx)]
    want = []
    if not (igd and type(ev).__name__ in ISDIR):
        ps = ev_paths(ev)
        if not any(r.match(p) for r in irxs for p in ps) and any(r.match(p) for r in rxs for p in ps):
            want = [("on_any_event", ev), (CB[type(ev).__name__], ev)]
    try:
        h.dispatch(ev)
    except Exception as e:  # noqa: BLE001
        return f"regex dispatch {ev!r} rx={rx} irx={irx} cs={cs} igd={igd}: raised {e!r}"
    if log != want:
        return f"regex dispatch {ev!r} rx={rx} irx={irx} cs={cs} igd={igd}: callbacks {[m for m, _ in log]} expected {[m for m, _ in want]}"
    return None


def check_filter(paths, inc, exc, cs):
    try:
        want = [p for p in paths if ref_match(p, inc, exc, cs)]
        we = False
    except ValueError:
        want, we = None, True
    try:
        got = list(filter_paths(paths, included_patterns=inc, excluded_patterns=exc, case_sensitive=cs))
        ge = False
    except ValueError:
        got, ge = None, True
    if we != ge or got != want:
        return f"filter_paths({paths}, inc={inc}, exc={exc}, cs={cs}) = {got if not ge else 'ValueError'} expected {want if not we else 'ValueError'}"
    try:
        g2 = match_any_paths(paths, included_patterns=inc, excluded_patterns=exc, case_sensitive=cs)
        g2e = False
    except ValueError:
        g2, g2e = None, True
    # match_any_paths stops at the first match: a conflict is always reported because it is checked on the first path
    w2e = we
    if g2e != w2e or (not w2e and g2 != bool(want)):
        return f"match_any_paths({paths}, inc={inc}, exc={exc}, cs={cs}) = {g2 if not g2e else 'ValueError'} expected {bool(want) if not w2e else 'ValueError'}"
    return None


def check_history(kind, cfg, evs):
    """one long-lived handler: what it does with an event is a function of that event alone, not of earlier ones"""
    if kind == "pattern":
        inc, exc, cs, igd = cfg
        hl = recorder(E.PatternMatchingEventHandler, patterns=inc, ignore_patterns=exc, ignore_directories=igd, case_sensitive=cs)
    else:
        rx, irx, cs, igd = cfg
        hl = recorder(E.RegexMatchingEventHandler, regexes=rx, ignore_regexes=irx, ignore_directories=igd, case_sensitive=cs)
    for i, ev in enumerate(evs):
        try:
            r = check_pattern(ev, *cfg, hl=hl) if kind == "pattern" else check_regex(ev, *cfg, hl=hl)
        except ValueError:
            return None
        if r:
            return f"after {i} earlier event(s) on the same handler ({[repr(e) for e in evs[:i]][-2:]}): {r}"
    return None


def mk_ev(d, bytes_=False):
    enc = (lambda x: os.fsencode(x)) if bytes_ else (lambda x: x)
    cls = getattr(E, d["cls"])
    return cls(enc(d["src"]), enc(d["dest"])) if "Moved" in d["cls"] else cls(enc(d["src"]))


def check_inheritance(base_cls, kw):
    """the on_<type> callback that runs is the one of the handler's own class - whichever handler classes dispatched before"""
    log = []

    class A(base_cls):
        def on_created(self, ev):
            log.append("A.on_created")

        def on_moved(self, ev):
            log.append("A.on_moved")

    class B(A):
        def on_created(self, ev):
            log.append("B.on_created")

    class C2(base_cls):
        pass
    out = []
    evc, evm = E.FileCreatedEvent("a.py"), E.FileMovedEvent("a.py", "d/a.py")
    for order in ((A, B, A), (B, A, B), (C2, A, B)):
        hs = [c(**kw) for c in order]
        inst = hs[-1]
        inst.on_created = lambda ev: log.append("instance.on_created")     # a callback assigned on the instance wins
        for h in hs:
            del log[:]
            h.dispatch(evc)
            h.dispatch(evm)
            want = ["instance.on_created" if h is inst else (type(h).__name__ + ".on_created" if type(h) is not C2 else None), ("A.on_moved" if isinstance(h, A) else None)]
            want = [w for w in want if w]
            if log != want:
                out.append(f"{base_cls.__name__}: handler classes dispatched in the order {[c.__name__ for c in order]}: a {type(h).__name__} handler ran {log}, expected {want}")
                return out
    return out


def replay(c):
    k = c["kind"]
    if k == "inheritance":
        base = getattr(E, c["base"])
        return (check_inheritance(base, {}) or [None])[0]
    if k == "history":
        return check_history(c["handler"], tuple(c["cfg"]), [mk_ev(d, d.get("bytes", False)) for d in c["events"]])
    enc = (lambda s: s) if c.get("bytes") is not True else (lambda s: os.fsencode(s))
    if k == "filter":
        return check_filter(c["paths"], c["inc"], c["exc"], c["cs"])
    cls = getattr(E, c["cls"])
    ev = cls(enc(c["src"]), enc(c["dest"])) if "Moved" in c["cls"] else cls(enc(c["src"]))
    if k == "base":
        return check_base(ev)
    if k == "pattern":
        return check_pattern(ev, c["inc"], c["exc"], c["cs"], c["igd"])
    return check_regex(ev, c["rx"], c["irx"], c["cs"], c["igd"])


def desc(ev, bytes_):
    dec = (lambda s: os.fsdecode(s) if isinstance(s, bytes) else s)   # surrogateescape: survives names that are not valid UTF-8
    return {"cls": type(ev).__name__, "src": dec(ev.src_path), "dest": dec(ev.dest_path), "bytes": bytes_}


def main():
    if REPLAY is not None:
        r = replay(REPLAY)
        replay_result(bool(r), r)
    bat = Battery({"classes": len(CLASSES), "paths": PATHS, "patterns": PATS, "regexes": RXS, "lists": "None, [], singletons, pairs", "flags": "case_sensitive x ignore_directories", "path types": ["str", "bytes"]})
    pls = pat_lists()
    for bytes_ in (False, True):
        evs = mk_events("bytes" if bytes_ else "str")
        for ev in evs:
            bat.case(("base", repr(ev)))
            r = check_base(ev)
            if r:
                bat.fail("C15.base-dispatch", r, dict(desc(ev, bytes_), kind="base"), "FileSystemEventHandler.dispatch")
        step = 1 if TIER == "thorough" else 7
        combos = list(itertools.product(evs, pls, pls, (True, False), (True, False)))
        rng.shuffle(combos)
        for ev, inc, exc, cs, igd in combos[::step][: (40000 if TIER == "thorough" else 6000)]:
            bat.case(("pat", repr(ev), str(inc), str(exc), cs, igd))
            r = check_pattern(ev, inc, exc, cs, igd)
            if r:
                bat.fail("C15.pattern-dispatch", r, dict(desc(ev, bytes_), kind="pattern", inc=inc, exc=exc, cs=cs, igd=igd), "PatternMatchingEventHandler.dispatch")
        rls = [None, []] + [[x] for x in RXS] + [list(x) for x in itertools.combinations(RXS, 2)] + [RXS[1]]
        combos = list(itertools.product(evs, rls, [x for x in rls if not isinstance(x, str)], (True, False), (True, False)))
        rng.shuffle(combos)
        for ev, rx, irx, cs, igd in combos[::step][: (40000 if TIER == "thorough" else 6000)]:
            bat.case(("rx", repr(ev), str(rx), str(irx), cs, igd))
            r = check_regex(ev, rx, irx, cs, igd)
            if r:
                bat.fail("C15.regex-dispatch", r, dict(desc(ev, bytes_), kind="regex", rx=rx, irx=irx, cs=cs, igd=igd), "RegexMatchingEventHandler.dispatch")
    # long-lived handlers: all ordered pairs of events over the path alphabet on one handler
    evs = [e for e in mk_events("str") if type(e).__name__ in ("FileCreatedEvent", "FileMovedEvent", "DirMovedEvent", "FileDeletedEvent")]
    pairs = list(itertools.permutations(evs, 2))
    rng.shuffle(pairs)
    cfgs = [("pattern", (["*.py"], None, True, False)), ("pattern", (["a*"], ["*.PY"], False, False)), ("regex", ([r".*\.py"], None, True, False)), ("regex", ([r"a"], [r".*\.tmp"], False, True))]
    for kind, cfg in cfgs:
        for a, b in pairs[: (1500 if TIER == "quick" else 20000)]:
            bat.case(("history", kind, str(cfg), repr(a), repr(b)))
            r = check_history(kind, cfg, [a, b])
            if r:
                bat.fail("C15.history-independence", r, {"kind": "history", "handler": kind, "cfg": list(cfg), "events": [desc(a, False), desc(b, False)]}, "PatternMatchingEventHandler.dispatch")
    for base in (E.FileSystemEventHandler, E.PatternMatchingEventHandler, E.RegexMatchingEventHandler):
        bat.case(("inheritance", base.__name__))
        pr = check_inheritance(base, {})
        if pr:
            bat.fail("C15.callback-of-the-handler's-own-class", pr[0], {"kind": "inheritance", "base": base.__name__}, "FileSystemEventHandler.dispatch")
    plists = [[], ["a"], ["a.py", "A"], ["d/a.py", "b.PY", "a"], ["A", "a", "A"]]
    for paths, inc, exc, cs in itertools.product(plists, pls, pls, (True, False)):
        bat.case(("filter", str(paths), str(inc), str(exc), cs))
        r = check_filter(paths, inc, exc, cs)
        if r:
            bat.fail("C15.filter-paths", r, {"kind": "filter", "paths": paths, "inc": inc, "exc": exc, "cs": cs}, "filter_paths")
    bat.finish()


main()
