"""C08 battery [bounded]: (a) InotifyBuffer._group_events on all batches of <= 4 events over the alphabet
{FROM#1, TO#1, FROM#2, TO#2, CREATE} with the delay queue preloaded in four ways, against a reference written from
the statement; (b) the real run() + read_event() over a scripted fake Inotify, all ways of cutting a native sequence
into read batches, virtual clock, gaps around the pairing delay."""
import itertools, sys, threading, time as realtime
from batlib import Battery, TIER, REPLAY, rng, replay_result
import watchdog.utils.delayed_queue as dqmod
from watchdog.utils.delayed_queue import DelayedQueue
from watchdog.observers.inotify_buffer import InotifyBuffer
from watchdog.observers.inotify_c import InotifyEvent, InotifyConstants as C

ROOT = b"/root"


def ev(kind, n=0, tag=0):
    if kind == "F":
        return InotifyEvent(1, C.IN_MOVED_FROM, n, b"s%d" % tag, ROOT + b"/s%d" % tag)
    if kind == "T":
        return InotifyEvent(1, C.IN_MOVED_TO, n, b"d%d" % tag, ROOT + b"/d%d" % tag)
    if kind == "C":
        return InotifyEvent(1, C.IN_CREATE, 0, b"c%d" % tag, ROOT + b"/c%d" % tag)
    if kind == "I":
        return InotifyEvent(2, C.IN_IGNORED, 0, b"", ROOT + b"/sub")
    if kind == "S":   # the watched root itself was deleted: the reader stops after the batch this record is in
        return InotifyEvent(1, C.IN_DELETE_SELF, 0, b"", ROOT)
    raise ValueError(kind)


ALPHA = [("F", 1), ("T", 1), ("F", 2), ("T", 2), ("C", 0)]


def reference_group(batch, queue):
    grouped, q = [], list(queue)
    for e in batch:
        if e.is_moved_to:
            for i, g in enumerate(grouped):
                if not isinstance(g, tuple) and g.is_moved_from and g.cookie == e.cookie:
                    grouped[i] = (g, e)
                    break
            else:
                for j, g in enumerate(q):
                    if not isinstance(g, tuple) and g.is_moved_from and g.cookie == e.cookie:
                        grouped.append((q.pop(j), e))
                        break
                else:
                    grouped.append(e)
        else:
            grouped.append(e)
    return grouped, q


def check_group(spec, preload):
    buf = InotifyBuffer.__new__(InotifyBuffer)
    buf._queue = DelayedQueue(10)
    pre = []
    for item in preload:
        x = (ev("F", item[1], 90), ev("T", item[1], 90)) if item[0] == "P" else ev(item[0], item[1], 90)
        pre.append(x)
        buf._queue.put(x, delay=not isinstance(x, tuple))
    batch = [ev(k, n, i) for i, (k, n) in enumerate(spec)]
    try:
        got = buf._group_events(list(batch))
    except Exception as e:  # noqa: BLE001  (the reader thread would die here: the whole batch and everything after it is lost)
        return [f"batch {spec} queue {preload}: _group_events raised {type(e).__name__}: {e} - the reader thread ends, the batch and every later notification are lost"]
    rest = []
    while True:
        x = buf._queue.remove(lambda e: True)
        if x is None:
            break
        rest.append(x)
    want, wrest = reference_group(batch, pre)
    pr = []
    if got != want:
        pr.append(f"batch {spec} queue {preload}: grouped {got} expected {want}")
    if rest != wrest:
        pr.append(f"batch {spec} queue {preload}: queue afterwards {rest} expected {wrest}")
    flat = [c for g in got for c in (g if isinstance(g, tuple) else (g,))]
    for e in batch:
        if sum(1 for c in flat if c is e) != 1:
            pr.append(f"batch {spec}: event {e} occurs {sum(1 for c in flat if c is e)} times in the result")
    return pr


class FakeTime:
    def __init__(self):
        self.now = 100.0

    def time(self):
        return self.now

    def sleep(self, dt):
        self.now += max(dt, 0)


class FakeInotify:
    def __init__(self, batches):
        self.batches = list(batches)
        self.path = ROOT
        self.more = threading.Event()
        self.closed = False

    def read_events(self):
        while not self.batches and not self.closed:
            self.more.wait(0.01)
        if self.closed and not self.batches:
            return []
        return self.batches.pop(0)

    def close(self):
        self.closed = True


def end_to_end(seq, cuts, eager=False):
    """seq: list of (kind, cookie); cuts: indices where a new read batch starts; consumer drains after the reader - or, with
    eager=True, the consumer runs between any two reads and takes whatever is deliverable at that (same) virtual instant"""
    ft = FakeTime()
    old = dqmod.time
    dqmod.time = ft
    try:
        events = [ev(k, n, i) for i, (k, n) in enumerate(seq)]
        batches, cur = [], []
        for i, e in enumerate(events):
            if i in cuts and cur:
                batches.append(cur)
                cur = []
            cur.append(e)
        if cur:
            batches.append(cur)
        buf = InotifyBuffer.__new__(InotifyBuffer)
        threading.Thread.__init__(buf)
        buf._stopped_event = threading.Event()
        buf._queue = DelayedQueue(InotifyBuffer.delay)
        buf._inotify = FakeInotify([] if eager else batches)
        t = threading.Thread(target=buf.run)
        t.start()
        got = []
        if eager:
            for b in batches:
                buf._inotify.batches.append(b)
                buf._inotify.more.set()
                while buf._inotify.batches and t.is_alive():
                    realtime.sleep(0.002)
                realtime.sleep(0.02)
                # the consumer gets to run: everything at the head of the queue that need not wait is taken now
                while t.is_alive() or True:
                    with buf._queue._lock:
                        head = buf._queue._queue[0] if len(buf._queue._queue) else None
                    if head is None or head[2]:
                        break
                    got.append(buf.read_event())
        while buf._inotify.batches and t.is_alive():
            realtime.sleep(0.002)
        realtime.sleep(0.02)
        buf._stopped_event.set()
        buf._inotify.close()
        t.join(2)
        out = []
        n_items = len(buf._queue._queue)
        for _ in range(n_items):
            got.append(buf.read_event())
        buf._queue.close()
        pr = []
        flat = [c for g in got for c in (g if isinstance(g, tuple) else (g,))]
        # the reader stops after the batch that holds the root's IN_DELETE_SELF: everything up to the end of THAT batch is owed
        owed, stop = [], False
        for b in ([events[i:j] for i, j in zip([0] + sorted(c for c in cuts if 0 < c < len(events)), sorted(c for c in cuts if 0 < c < len(events)) + [len(events)])]):
            if stop:
                break
            owed.extend(b)
            stop = any(e.is_delete_self for e in b)
        events = owed
        expected = [e for e in events if not e.is_ignored]
        for e in expected:
            c = sum(1 for x in flat if x is e)
            if c != 1:
                pr.append(f"sequence {seq} cut at {sorted(cuts)}: {e} delivered {c} times")
        if any(e.is_ignored for e in flat):
            pr.append("an IN_IGNORED marker was handed to the emitter")
        # all reads happened at the same virtual instant: every rename whose halves are both present must be paired
        for a in events:
            if a.is_moved_from:
                partners = [b for b in events if b.is_moved_to and b.cookie == a.cookie and events.index(b) > events.index(a)]
                if partners:
                    if not any(isinstance(g, tuple) and g[0] is a for g in got):
                        pr.append(f"sequence {seq} cut at {sorted(cuts)}: rename cookie {a.cookie} was not delivered as one pair: {got}")
        # kernel order: a pair stands at the place of its first half (paired within one read) or of its second half
        # (partner pulled out of the delay queue): some such choice must make the delivery order the kernel order
        last = -1
        for g in got:
            cands = sorted(events.index(c) for c in (g if isinstance(g, tuple) else (g,)))
            ok = [c for c in cands if c > last]
            if not ok:
                pr.append(f"sequence {seq} cut at {sorted(cuts)}: delivery {got} is not in kernel order")
                break
            last = ok[0]
        return pr
    finally:
        dqmod.time = old


def reader_scripted(kinds):
    """Inotify.read_events on a real instance whose next read(2) returns a scripted kernel buffer: F/T = the two halves of a
    rename (cookie 7) of files in the root, C = a create, O = the kernel's queue-overflow marker (wd -1, IN_Q_OVERFLOW)."""
    import os, struct, tempfile, shutil
    from watchdog.observers import inotify_c as ic
    base = tempfile.mkdtemp(prefix="c08r")
    ino = ic.Inotify(base.encode(), recursive=False)
    problems = []
    try:
        wd = ino._wd_for_path[base.encode()]
        recs = []
        for i, k in enumerate(kinds):
            nm = b"n%d" % i
            body = nm + b"\0" * (16 - len(nm))
            if k == "O":
                recs.append((-1, 0x4000, 0, b""))
            else:
                recs.append((wd, {"F": 0x40, "T": 0x80, "C": 0x100}[k], 7 if k in "FT" else 0, body))
        buf = b"".join(struct.pack("iIII", w, m, c, len(b)) + b for w, m, c, b in recs)
        real_read, fd = os.read, ino._inotify_fd
        ino._check_inotify_fd = lambda: True
        os.read = lambda f, n: buf if f == fd else real_read(f, n)
        try:
            got = ino.read_events()
        except Exception as e:
            return [f"read batch {kinds}: read_events raised {type(e).__name__}: {e}"]
        finally:
            os.read = real_read
        want = [(m, c, os.path.join(base.encode(), b.rstrip(b"\0"))) for w, m, c, b in recs if w != -1]
        have = [(e.mask, e.cookie, e.src_path) for e in got]
        if have != want:
            problems.append(f"kernel batch {list(kinds)} (O = queue-overflow marker): the reader handed on {len(have)} of {len(want)} notifications: {[(hex(m), c, os.path.basename(p)) for m, c, p in have]}")
    finally:
        ino.close()
        shutil.rmtree(base, ignore_errors=True)
    return problems


def main():
    if REPLAY is not None:
        c = REPLAY
        if c["kind"] == "decode":
            import struct
            from watchdog.observers.inotify_c import Inotify
            want = [(r[0], r[1], r[2], r[3].encode()) for r in c["records"]]
            buf = b"".join(struct.pack("iIII", wd, mask, ck, (len(nm) + 4) // 4 * 4 if nm else 0) + (nm + b"\0" * ((len(nm) + 4) // 4 * 4 - len(nm)) if nm else b"") for wd, mask, ck, nm in want)
            got = list(Inotify._parse_event_buffer(buf))
            replay_result(got != want, [f"decoded {got}, written {want}"])
        if c["kind"] == "reader":
            pr = reader_scripted(tuple(c["kinds"]))
            replay_result(bool(pr), pr[:2])
        if c["kind"] == "dq":
            import c17_battery
            pr = c17_battery.SCEN[c["name"]]()
        else:
            pr = check_group([tuple(x) for x in c["spec"]], [tuple(x) for x in c["preload"]]) if c["kind"] == "group" else end_to_end([tuple(x) for x in c["seq"]], set(c["cuts"]), c.get("eager", False))
        replay_result(bool(pr), pr[:2])
    L = 4
    bat = Battery({"alphabet": "FROM#1 TO#1 FROM#2 TO#2 CREATE", "batch length": f"<= {L}", "queue preloads": ["empty", "FROM#1", "FROM#2", "pair#1 + FROM#1"], "end-to-end": "sequences of length <= 4 (+IGNORED) x all batch cuts", "reader": "scripted kernel buffers of <= 3 records over FROM/TO/CREATE/queue-overflow marker through the real Inotify.read_events"})
    preloads = [[], [("F", 1)], [("F", 2)], [("P", 1), ("F", 1)]]
    for n in range(0, L + 1):
        for spec in itertools.product(ALPHA, repeat=n):
            for pre in preloads:
                bat.case(hash((spec, str(pre))), desc={"batch": [list(x) for x in spec], "queue": [list(x) for x in pre]})
                pr = check_group(list(spec), pre)
                if pr:
                    bat.fail("C08.group-events", pr[0], {"kind": "group", "spec": [list(x) for x in spec], "preload": [list(x) for x in pre], "problems": pr[:2]}, "InotifyBuffer._group_events")
    seqs = []
    for n in range(1, 5):
        for spec in itertools.product(ALPHA + [("I", 0), ("S", 0)], repeat=n):
            # each cookie at most one FROM and one TO, FROM first; the root is deleted at most once (E8)
            ok = sum(1 for x in spec if x == ("S", 0)) <= 1
            for c in (1, 2):
                f = [i for i, x in enumerate(spec) if x == ("F", c)]
                t = [i for i, x in enumerate(spec) if x == ("T", c)]
                if len(f) > 1 or len(t) > 1 or (f and t and t[0] < f[0]):
                    ok = False
            if ok:
                seqs.append(spec)
    rng.shuffle(seqs)
    for spec in seqs[: (60 if TIER == "quick" else 600)]:
        n = len(spec)
        for r in range(0, n):
            for cuts in itertools.combinations(range(1, n), r):
                bat.case(hash((spec, cuts, "e2e")))
                pr = end_to_end(list(spec), set(cuts))
                if pr:
                    bat.fail("C08.end-to-end", pr[0], {"kind": "e2e", "seq": [list(x) for x in spec], "cuts": list(cuts), "problems": pr[:2]}, "InotifyBuffer.run")
                if cuts and len(cuts) <= 2 and hash((spec, cuts)) % 3 == 0:
                    bat.case(hash((spec, cuts, "e2e-eager")))
                    pr = end_to_end(list(spec), set(cuts), True)
                    if pr:
                        bat.fail("C08.end-to-end(consumer runs between reads)", pr[0], {"kind": "e2e", "seq": [list(x) for x in spec], "cuts": list(cuts), "eager": True, "problems": pr[:2]}, "InotifyBuffer.run")
    # every record of a read batch is decoded (nameless records - events on the watched object itself - in every position)
    import struct
    from watchdog.observers.inotify_c import Inotify
    shapes = [b"", b"a\0\0\0", b"abcdefghijklmno\0", b"x" * 17 + b"\0" * 15]
    for n in range(1, 4):
        for combo in itertools.product(shapes, repeat=n):
            recs = [(i + 1, 0x100 << i, 5 * i, body) for i, body in enumerate(combo)]
            buf = b"".join(struct.pack("iIII", wd, mask, ck, len(body)) + body for wd, mask, ck, body in recs)
            bat.case(("decode", combo))
            got = list(Inotify._parse_event_buffer(buf))
            want = [(wd, mask, ck, body.rstrip(b"\0")) for wd, mask, ck, body in recs]
            if got != want:
                bat.fail("C08.read-batch-decoder", f"a read batch with records {want} is decoded as {got}: a notification read from the kernel is lost or altered", {"kind": "decode", "records": [[r[0], r[1], r[2], r[3].decode()] for r in want]}, "Inotify._parse_event_buffer")
    # the reader hands on one record per kernel record, in kernel order, wherever the kernel's own queue-overflow marker (wd -1)
    # sits in the read batch
    for n in range(1, 4):
        for kinds in itertools.product(("F", "T", "C", "O"), repeat=n):
            bat.case(("reader", kinds))
            pr = reader_scripted(kinds)
            if pr:
                bat.fail("C08.reader-batch", pr[0], {"kind": "reader", "kinds": list(kinds), "problems": pr[:2]}, "Inotify.read_events")
    # the timing / cross-thread clauses are DelayedQueue's (C17): its scripted interleavings are run here as well
    import c17_battery
    for name, fn in c17_battery.SCEN.items():
        bat.case(("delay-queue", name))
        pr = fn()
        if pr:
            bat.fail("C08.delay-queue:" + name, pr[0], {"kind": "dq", "name": name, "problems": pr[:2]}, "DelayedQueue.get")
    bat.finish()


main()
