"""C16 battery [bounded]: (a) all put/get sequences over a small item alphabet against a sequential reference
model; (b) the equality/hash law over all pairs of event objects; (c) scripted interleavings of the unlocked
duplicate check with the locked enqueue/dequeue (producer parked right after Queue.put's critical section)."""
import itertools, queue, sys, threading
from batlib import Battery, TIER, REPLAY, rng, replay_result
from watchdog.utils.bricks import SkipRepeatsQueue
from watchdog.observers.api import EventQueue
import watchdog.events as E


class It:
    """items are distinct objects compared by value (like event tuples)"""

    def __init__(self, v):
        self.v = v

    def __eq__(self, o):
        return isinstance(o, It) and o.v == self.v

    def __ne__(self, o):
        return not self == o

    def __hash__(self):
        return hash(self.v)

    def __repr__(self):
        return f"It({self.v})"


def run_seq(seq):
    q = SkipRepeatsQueue()
    model = []  # pending items (objects)
    out = []
    for op in seq:
        if op[0] == "put":
            x = It(op[1])
            before = q.qsize()
            q.put(x)
            if q.qsize() == before:
                # dropped: only allowed if equal to the item enqueued immediately before it, still waiting
                if not (model and model[-1] == x and model[-1] is last_enq):
                    out.append(f"put({x!r}) was dropped although the last enqueued item {'is '+repr(last_enq) if model else 'has been consumed'} (pending {model})")
            else:
                model.append(x)
                last_enq = x
        else:
            if not model:
                continue
            want = model.pop(0)
            got = q.get_nowait()
            if got is not want:
                out.append(f"get returned {got!r}, expected the oldest pending {want!r}")
    rest = []
    while True:
        try:
            rest.append(q.get_nowait())
        except queue.Empty:
            break
    if [id(x) for x in rest] != [id(x) for x in model]:
        out.append(f"queue holds {rest}, reference holds {model}")
    # required drops: an item equal to the immediately preceding still-pending one MUST NOT be required to drop;
    # required acceptances are covered above (anything not justified must be enqueued)
    return out


CLASSES = [E.FileSystemEvent, E.FileSystemMovedEvent, E.FileMovedEvent, E.DirMovedEvent, E.FileDeletedEvent, E.DirDeletedEvent, E.FileCreatedEvent, E.DirCreatedEvent,
           E.FileModifiedEvent, E.DirModifiedEvent, E.FileClosedEvent, E.FileClosedNoWriteEvent, E.FileOpenedEvent]


def all_events():
    evs = []
    for c in CLASSES:
        for s, d, syn in itertools.product(("a", "b"), ("", "c"), (False, True)):
            evs.append((c, (s, d, syn), c(s, d, is_synthetic=syn)))
    return evs


def equality_law():
    out = []
    evs = all_events()
    n = 0
    for (c1, k1, e1), (c2, k2, e2) in itertools.product(evs, evs):
        n += 1
        want = (c1 is c2 and k1 == k2)
        if (e1 == e2) != want:
            out.append(f"{e1!r} == {e2!r} is {e1 == e2}, expected {want}")
        if want and hash(e1) != hash(e2):
            out.append(f"equal events with different hashes: {e1!r}")
        if len(out) > 3:
            break
    return out, n


def queue_pairs():
    """every distinct back-to-back pair goes through EventQueue as (event, watch) tuples: nothing may be lost"""
    out = []
    evs = all_events()
    for (c1, k1, e1), (c2, k2, e2) in itertools.product(evs[::3], evs[::5]):
        q = EventQueue()
        q.put((e1, "w"))
        q.put((e2, "w"))
        want = 1 if (c1 is c2 and k1 == k2) else 2
        if q.qsize() != want:
            out.append(f"put {e1!r} then {e2!r}: queue holds {q.qsize()} items, expected {want}")
            if len(out) > 3:
                break
        # ... also when the watches are real ObservedWatch objects that differ only in their filter
        from watchdog.observers.api import ObservedWatch
        q3 = EventQueue()
        q3.put((e1, ObservedWatch("/w", recursive=True)))
        q3.put((e1, ObservedWatch("/w", recursive=True, event_filter=[E.FileModifiedEvent])))
        if q3.qsize() != 2:
            out.append(f"the same event queued for an unfiltered and a filtered watch of one path: queue holds {q3.qsize()} items (two different entries expected)")
            break
        # the same event for two different watches is two different items
        q2 = EventQueue()
        q2.put((e1, "w1"))
        q2.put((e1, "w2"))
        if q2.qsize() != 2:
            out.append(f"put ({e1!r}, w1) then ({e1!r}, w2): queue holds {q2.qsize()} items - the event of the second watch was taken for a repeat")
            break
    return out


def scen_late_bookkeeping(variant):
    """producer parked right after queue.Queue.put returned (i.e. after the critical section); meanwhile another
    thread completes an operation.  Any bookkeeping done after that point races."""
    q = SkipRepeatsQueue()
    reached, go = threading.Event(), threading.Event()
    orig = queue.Queue.put
    armed = {"on": True}

    def patched(self, item, block=True, timeout=None):
        r = orig(self, item, block, timeout)
        if armed["on"] and threading.current_thread().name == "producer":
            armed["on"] = False
            reached.set()
            go.wait(5)
        return r
    queue.Queue.put = patched
    try:
        got = []
        if variant == "consumer":
            def prod():
                q.put(It("A"))
                q.put(It("A"))  # an equal item after A has been taken out must be accepted
            t = threading.Thread(target=prod, name="producer")
            t.start()
            reached.wait(3)
            got.append(q.get(timeout=2))
            go.set()
            t.join(3)
            try:
                got.append(q.get(timeout=0.5))
            except queue.Empty:
                pass
            return [] if [g.v for g in got] == ["A", "A"] else [f"A put, taken out, equal A put again: consumer obtained {got} (expected ['A', 'A'])"]
        else:
            def prod():
                q.put(It("A"))
            t = threading.Thread(target=prod, name="producer")
            t.start()
            reached.wait(3)
            q.put(It("B"))      # second producer, completely
            go.set()
            t.join(3)
            q.put(It("A"))      # separated from the first A by B: must be accepted
            while True:
                try:
                    got.append(q.get_nowait())
                except queue.Empty:
                    break
            return [] if [g.v for g in got] == ["A", "B", "A"] else [f"A, B, A offered: queue delivered {got}"]
    finally:
        queue.Queue.put = orig


def preempt_put(scen, k):
    """the producer is preempted at the k-th bytecode of SkipRepeatsQueue.put (the part that runs outside the queue's
    mutex); another thread then performs one complete operation; the producer resumes.  Returns (problems, reached)."""
    q = SkipRepeatsQueue()
    init, item, other = {"get-vs-different": (["X"], "Y", ("get",)), "get-vs-equal": (["X"], "X", ("get",)), "put-vs-put": ([], "A", ("put", "B")), "put-equal-vs-put": (["A"], "B", ("put", "A"))}[scen]
    for v in init:
        q.put(It(v))
    reached, go = threading.Event(), threading.Event()
    n = [0]
    err = []

    def local(frame, event, arg):
        if event == "opcode":
            n[0] += 1
            if n[0] == k:
                reached.set()
                go.wait(5)
        return local

    def tracer(frame, event, arg):
        if event == "call" and frame.f_code.co_name == "put" and frame.f_code.co_filename.endswith("bricks.py"):
            frame.f_trace_opcodes = True
            return local
        return None

    def prod():
        sys.settrace(tracer)
        try:
            q.put(It(item))
        except Exception as e:  # noqa: BLE001
            err.append(repr(e))
        finally:
            sys.settrace(None)
    t = threading.Thread(target=prod, name="producer")
    t.start()
    hit = reached.wait(1.0)
    got = []
    if hit:
        if other[0] == "get":
            got.append(q.get(timeout=2))
        else:
            q.put(It(other[1]))
    go.set()
    t.join(3)
    while True:
        try:
            got.append(q.get_nowait())
        except queue.Empty:
            break
    vals = [g.v for g in got]
    out = []
    if err:
        out.append(f"{scen}: producer preempted at bytecode #{k} of put() while another thread did {other}: put() raised {err[0]}")
    elif hit:
        ok = {"get-vs-different": vals == ["X", "Y"], "get-vs-equal": vals in (["X"], ["X", "X"]), "put-vs-put": sorted(vals) == ["A", "B"],
              "put-equal-vs-put": vals in (["A", "B"], ["A", "B", "A"], ["A", "A", "B"]) or sorted(vals) == ["A", "A", "B"]}[scen]
        if not ok:
            out.append(f"{scen}: producer preempted at bytecode #{k} of put() while another thread did {other}: items obtained {vals}")
    return out, hit


def preempt_get(k):
    """the consumer is preempted at the k-th bytecode executed in bricks.py during get() (wherever that code runs - inside
    or outside the queue's mutex); a producer then tries to put an item equal to the one being taken out.  The two operations
    overlap, so one or two items are both linearisable outcomes; what is checked: no exception, nothing else lost"""
    q = SkipRepeatsQueue()
    x1, x2 = It("X"), It("X")
    q.put(x1)
    reached, go = threading.Event(), threading.Event()
    n = [0]
    got, err = [], []

    def local(frame, event, arg):
        if event == "opcode":
            n[0] += 1
            if n[0] == k:
                reached.set()
                go.wait(5)
        return local

    def tracer(frame, event, arg):
        if event == "call" and frame.f_code.co_filename.endswith("bricks.py"):
            frame.f_trace_opcodes = True
            return local
        return None

    def cons():
        sys.settrace(tracer)
        try:
            got.append(q.get(timeout=2))
        except Exception as e:  # noqa: BLE001
            err.append(repr(e))
        finally:
            sys.settrace(None)
    t = threading.Thread(target=cons, name="consumer")
    t.start()
    hit = reached.wait(0.5)
    put_done = threading.Event()
    if hit:
        # what a third thread can OBSERVE at the preemption point, the way qsize() does: under the queue's mutex.  If the
        # mutex is free and the deque empty, x1 is observably out before put(x2) is even called: get()'s linearisation point
        # lies before the put, which therefore must be accepted.  (Parked inside the mutex nothing is observable: no demand.)
        seen_empty = False
        if q.mutex.acquire(False):
            seen_empty = len(q.queue) == 0
            q.mutex.release()

        def prod():
            q.put(x2)
            put_done.set()
        p = threading.Thread(target=prod, name="producer2")
        p.start()
        p.join(0.2)                       # blocks if the consumer is parked inside the mutex: that is fine
    go.set()
    t.join(3)
    if hit:
        p.join(3)
    while True:
        try:
            got.append(q.get_nowait())
        except queue.Empty:
            break
    out = []
    if err:
        out.append(f"consumer preempted at bytecode #{k} of the queue's own code during get(): get() raised {err[0]}")
    elif hit and len(got) not in (1, 2):
        # NOT demanded: two items whenever the first had already left the deque.  The put overlaps the get() (which has not
        # returned): ordering the put first - equal to a waiting item, dropped - is a legal linearisation.  The unchanged
        # code itself drops the second item when the consumer is preempted between popleft and the reset inside _get.
        out.append(f"items obtained {got}")
    elif hit and seen_empty and len(got) != 2:
        out.append(f"consumer preempted at bytecode #{k} of the queue's own code during get(): a third thread sees the queue empty (qsize() == 0, the item has been taken out) and only then put(equal item) is called - it was dropped: items obtained {got} (once an item has been taken out an equal item is accepted again)")
    return out, hit


def observer_histories():
    """the queue as the observer uses it: schedule / queue_event / unschedule / re-schedule on an unstarted observer, then
    everything is dispatched.  Whatever the registry calls do, the queue's own law holds for the entries the emitters offered:
    of a run of equal consecutive entries offered while none was taken out exactly ONE comes out, every other entry comes out,
    in order (an entry of an unscheduled watch comes out too - it just finds no handler)"""
    from watchdog.observers.api import BaseObserver, EventEmitter
    from watchdog.events import FileSystemEventHandler, FileCreatedEvent, FileDeletedEvent
    problems = []

    class Em(EventEmitter):
        def queue_events(self, timeout):
            self.stopped_event.wait(0.05)

    class H(FileSystemEventHandler):
        def __init__(self):
            self.got = []

        def dispatch(self, event):
            self.got.append(event)
    E1, E2 = FileCreatedEvent("/p/x"), FileDeletedEvent("/p/x")
    programs = {
        "offer, unschedule, schedule the same path again, offer the equal entry": ["s", "q1", "u", "s", "q1"],
        "offer, unschedule, schedule again, offer equal, offer different, offer equal": ["s", "q1", "u", "s", "q1", "q2", "q1"],
        "offer two different, unschedule, schedule again, offer the last again": ["s", "q1", "q2", "u", "s", "q2"],
        "offer, unschedule_all, schedule again, offer equal twice": ["s", "q1", "U", "s", "q1", "q1"],
    }
    for name, prog in programs.items():
        obs = BaseObserver(Em, timeout=0.05)
        offered, w, em = [], None, None
        try:
            for op in prog:
                if op == "s":
                    h = H()
                    w = obs.schedule(h, "/p")
                    em = next(e for e in obs.emitters if e.watch == w)
                elif op == "u":
                    obs.unschedule(w)
                elif op == "U":
                    obs.unschedule_all()
                else:
                    ev = E1 if op == "q1" else E2
                    em.queue_event(ev)
                    offered.append(ev)
            # reference: nothing was taken out meanwhile, so exactly the consecutive repeats are dropped
            want = [e for i, e in enumerate(offered) if i == 0 or e != offered[i - 1]]
            out = []
            while True:
                try:
                    out.append(obs.event_queue.get_nowait()[0])
                except queue.Empty:
                    break
            if out != want:
                problems.append(f"{name}: the emitters offered {[type(e).__name__ for e in offered]}, the queue handed out {[type(e).__name__ for e in out]}, the queue's law gives {[type(e).__name__ for e in want]} (an entry that was not a consecutive duplicate is lost)")
        except Exception as e:  # noqa: BLE001
            problems.append(f"{name}: {type(e).__name__}: {e}")
        finally:
            try:
                obs.unschedule_all()
            except Exception:  # noqa: BLE001
                pass
    # several producers: two emitters (two watches) of one observer offer entries to the same queue; whatever an emitter does
    # before it offers an entry, the queue's law holds for the sequence of entries the emitters were asked to queue
    two = {
        "emitter 1 offers A, emitter 2 offers B, emitter 1 offers A again": [(1, E1), (2, E2), (1, E1)],
        "emitter 1 offers A, the consumer takes it, emitter 2 offers B, emitter 1 offers A": [(1, E1), "get", (2, E2), (1, E1)],
        "emitter 1 offers A twice, emitter 2 offers A (another watch: a different entry), emitter 1 offers A": [(1, E1), (1, E1), (2, E1), (1, E1)],
    }
    for name, prog in two.items():
        obs = BaseObserver(Em, timeout=0.05)
        try:
            w1, w2 = obs.schedule(H(), "/p1"), obs.schedule(H(), "/p2")
            ems = {1: next(e for e in obs.emitters if e.watch == w1), 2: next(e for e in obs.emitters if e.watch == w2)}
            offered, out, waiting_last = [], [], None
            want = []
            for step in prog:
                if step == "get":
                    out.append(obs.event_queue.get_nowait())
                    if waiting_last is not None and out[-1] is waiting_last:
                        waiting_last = None
                    continue
                k, ev = step
                entry = (ev, ems[k].watch)
                ems[k].queue_event(ev)
                if waiting_last is None or entry != waiting_last:
                    want.append(entry)
                    waiting_last = entry
            while True:
                try:
                    out.append(obs.event_queue.get_nowait())
                except queue.Empty:
                    break
            if out != want:
                problems.append(f"{name}: the queue handed out {[(type(e).__name__, w.path) for e, w in out]}, its law gives {[(type(e).__name__, w.path) for e, w in want]} (an entry that was not a consecutive duplicate of a waiting entry is lost)")
        except Exception as e:  # noqa: BLE001
            problems.append(f"{name}: {type(e).__name__}: {e}")
        finally:
            try:
                obs.unschedule_all()
            except Exception:  # noqa: BLE001
                pass
    return problems


def main():
    if REPLAY is not None:
        c = REPLAY
        if c["kind"] == "observer-histories":
            pr = observer_histories()
            replay_result(bool(pr), pr[:3])
        if c["kind"] == "preempt-get":
            pr, _hit = preempt_get(c["k"])
            replay_result(bool(pr), pr[:3])
        if c["kind"] == "preempt":
            pr, _hit = preempt_put(c["scen"], c["k"])
            replay_result(bool(pr), pr[:3])
        if c["kind"] == "seq":
            pr = run_seq([tuple(o) for o in c["seq"]])
        elif c["kind"] == "eq":
            pr = equality_law()[0] + queue_pairs()
        else:
            pr = scen_late_bookkeeping(c["variant"])
        replay_result(bool(pr), pr[:3])
    L = 7 if TIER == "quick" else 9
    bat = Battery({"items": ["A", "B"], "sequence length": L, "event pairs": "13 classes x 2 src x 2 dest x synthetic flag, all pairs", "interleavings": ["consumer between Queue.put and late bookkeeping", "second producer in that window"]})
    ops = [("put", "A"), ("put", "B"), ("get",)]
    for seq in itertools.product(ops, repeat=L):
        bat.case(hash(seq), nontrivial=True, desc=[list(o) for o in seq])
        pr = run_seq(seq)
        if pr:
            bat.fail("C16.sequential", pr[0], {"kind": "seq", "seq": [list(o) for o in seq], "problems": pr[:3]}, "SkipRepeatsQueue")
    pr, n = equality_law()
    bat.cases += n
    bat.distinct.add("equality-law")
    if pr:
        bat.fail("C16.equality-law", pr[0], {"kind": "eq", "problems": pr[:3]}, "FileSystemEvent")
    pr = queue_pairs()
    if pr:
        bat.fail("C16.equal-only-if-same-class-and-fields", pr[0], {"kind": "eq", "problems": pr[:3]}, "EventQueue")
    for scen in ("get-vs-different", "get-vs-equal", "put-vs-put", "put-equal-vs-put"):
        for k in range(1, 200):
            pr, hit = preempt_put(scen, k)
            if not hit and not pr:
                break           # put() has fewer bytecodes than k: every preemption point was visited
            bat.case(("preempt", scen, k))
            if pr:
                bat.fail("C16.preempted-put", pr[0], {"kind": "preempt", "scen": scen, "k": k, "problems": pr[:3]}, "SkipRepeatsQueue.put")
    misses = 0
    for k in range(1, 200):
        pr, hit = preempt_get(k)
        if not hit and not pr:
            misses += 1
            if misses >= 2 and k > 3:
                break
            continue
        bat.case(("preempt-get", k))
        if pr:
            bat.fail("C16.preempted-get", pr[0], {"kind": "preempt-get", "k": k, "problems": pr[:3]}, "SkipRepeatsQueue.get")
    bat.case("observer-histories")
    pr = observer_histories()
    if pr:
        bat.fail("C16.observer-histories", pr[0], {"kind": "observer-histories", "problems": pr[:3]}, "EventQueue")
    for v in ("consumer", "producer"):
        bat.case(("scenario", v))
        pr = scen_late_bookkeeping(v)
        if pr:
            bat.fail("C16.interleaving:" + v, pr[0], {"kind": "scen", "variant": v, "problems": pr[:3]}, "SkipRepeatsQueue.put")
    bat.finish()


if __name__ == "__main__":
    main()
