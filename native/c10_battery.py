"""C10 battery [bounded]: a virtual file system behind PollingEmitter(stat=, listdir=): (a) all pairs of small tree
states between two polls -> events must be exactly the diff (class, paths, deleted-before-created per kind, nothing
when nothing changed); (b) one failure (ENOENT / ENOTDIR / EACCES) injected at every stat/listdir call position of
a walk -> the affected entry/sub-tree is treated as absent, everything else is unaffected, nothing raises;
(c) root gone -> one DirDeletedEvent(root) and stop; baseline = tree at on_thread_start()."""
import errno, itertools, os, queue, stat as statmod, sys
from batlib import Battery, TIER, REPLAY, rng, replay_result
import watchdog.events as E
from watchdog.observers.api import ObservedWatch
from watchdog.observers.polling import PollingEmitter
from watchdog.utils.dirsnapshot import DirectorySnapshot

ROOT = "/r"


class St:
    def __init__(self, ino, mtime, isdir):
        self.st_ino, self.st_dev, self.st_mtime, self.st_size = ino, 1, mtime, 0
        self.st_mode = (statmod.S_IFDIR if isdir else statmod.S_IFREG) | 0o644


class Ent:
    def __init__(self, name):
        self.name = name
        # a custom listdir (PollingObserverVFS) may hand out entries whose .path lies in a backing store: the snapshot's paths
        # are built from the directory being listed and the entry's NAME
        self.path = "/backing-store/" + name


class VFS:
    def __init__(self, tree, lazy=False):
        self.lazy = lazy         # listdir returns an iterator whose errors surface at the first next() (the declared type is Iterator[DirEntry])
        self.tree = dict(tree)   # path -> (ino, mtime, isdir)
        self.calls = 0
        self.fail_at = None      # (call index, errno)
        self.log = []

    def _maybe_fail(self, what, p):
        self.calls += 1
        self.log.append((what, p))
        if self.fail_at and self.fail_at[0] == self.calls:
            e = self.fail_at[1]
            cls = {errno.ENOENT: FileNotFoundError, errno.ENOTDIR: NotADirectoryError, errno.EACCES: PermissionError}[e]
            raise cls(e, os.strerror(e), p)

    def stat(self, p):
        self._maybe_fail("stat", p)
        if p not in self.tree:
            raise FileNotFoundError(errno.ENOENT, "gone", p)
        return St(*self.tree[p])

    def listdir(self, p):
        if self.lazy:
            return self._lazy_listdir(p)
        return self._listdir(p)

    def _lazy_listdir(self, p):
        yield from self._listdir(p)

    def _listdir(self, p):
        self._maybe_fail("listdir", p)
        if p not in self.tree:
            raise FileNotFoundError(errno.ENOENT, "gone", p)
        if not self.tree[p][2]:
            raise NotADirectoryError(errno.ENOTDIR, "not a dir", p)
        pre = p + "/"
        return [Ent(q[len(pre):]) for q in sorted(self.tree) if q.startswith(pre) and "/" not in q[len(pre):]]


def emitter(vfs, recursive=True):
    q = queue.Queue()
    em = PollingEmitter(q, ObservedWatch(ROOT, recursive=recursive), timeout=0, stat=vfs.stat, listdir=vfs.listdir)
    stopped = []
    orig_stop = em.stop
    em.stop = lambda: (stopped.append(1), orig_stop())
    return em, q, stopped


def drain(q):
    out = []
    while True:
        try:
            out.append(q.get_nowait()[0])
        except queue.Empty:
            return out


def visible(tree, recursive):
    if recursive:
        return dict(tree)
    return {p: v for p, v in tree.items() if p == ROOT or os.path.dirname(p) == ROOT}


def expected_events(a, b):
    """the diff of C09's statement rendered as events in the documented order"""
    ida = {v[0]: p for p, v in a.items()}
    idb = {v[0]: p for p, v in b.items()}
    moved = sorted((p, idb[v[0]]) for p, v in a.items() if v[0] in idb and idb[v[0]] != p)
    created = sorted(p for p, v in b.items() if v[0] not in ida)
    deleted = sorted(p for p, v in a.items() if v[0] not in idb)
    modified = sorted({p for p, v in a.items() if p in b and b[p][0] == v[0] and b[p][1] != v[1]} | {p for p, q in moved if a[p][1] != b[q][1]})
    seg = []
    for isdir, (D, M, C, MV) in ((False, (E.FileDeletedEvent, E.FileModifiedEvent, E.FileCreatedEvent, E.FileMovedEvent)), (True, (E.DirDeletedEvent, E.DirModifiedEvent, E.DirCreatedEvent, E.DirMovedEvent))):
        seg.append({D(p) for p in deleted if a[p][2] == isdir})
        seg.append({M(p) for p in modified if a[p][2] == isdir})
        seg.append({C(p) for p in created if b[p][2] == isdir})
        seg.append({MV(p, q) for p, q in moved if a[p][2] == isdir})
    return seg


def check_poll(a, b, recursive):
    vfs = VFS(a)
    em, q, stopped = emitter(vfs, recursive)
    em.on_thread_start()
    vfs.tree = dict(b)
    em.queue_events(0)
    got = drain(q)
    segs = expected_events(visible(a, recursive), visible(b, recursive))
    pr = []
    i = 0
    for s in segs:
        part = got[i:i + len(s)]
        if set(part) != s or len(part) != len(s):
            pr.append(f"events {got} do not match the diff segments {[sorted(map(repr, x)) for x in segs]}")
            break
        i += len(s)
    if not pr and i != len(got):
        pr.append(f"extra events {got[i:]}")
    em.queue_events(0)
    again = drain(q)
    if again:
        pr.append(f"second poll without change delivered {again}")
    if stopped:
        pr.append("emitter stopped although the root exists")
    return pr


def trees(names, inos):
    out = []
    cands = [ROOT + "/" + n for n in names] + [ROOT + "/a/" + n for n in names[:2]] + [ROOT + "/b/" + n for n in names[:1]]
    for k in range(0, 4):
        for sub in itertools.combinations(cands, k):
            if any(os.path.dirname(p) != ROOT and os.path.dirname(p) not in sub for p in sub):
                continue
            for ii in itertools.permutations(inos, k):
                for kinds in itertools.product((False, True), repeat=k):
                    t = {ROOT: (100, 0, True)}
                    ok = True
                    for p, i, d in zip(sub, ii, kinds):
                        t[p] = (i, 0, d)
                    for p in sub:
                        par = os.path.dirname(p)
                        if par != ROOT and not t[par][2]:
                            ok = False
                    if ok:
                        out.append(t)
    return out


def fault_sweep(tree, recursive, lazy=False):
    """a failure at every call position of one walk"""
    pr = []
    base = VFS(tree, lazy)
    DirectorySnapshot(ROOT, recursive=recursive, stat=base.stat, listdir=base.listdir)
    n = base.calls
    full = set(visible(tree, recursive))
    for pos in range(2, n + 1):     # position 1 is stat(root): that one is 'root gone'
        for e in (errno.ENOENT, errno.ENOTDIR, errno.EACCES):
            v = VFS(tree, lazy)
            v.fail_at = (pos, e)
            what, where = base.log[pos - 1]
            try:
                s = DirectorySnapshot(ROOT, recursive=recursive, stat=v.stat, listdir=v.listdir)
            except OSError as ex:
                if what == "listdir" and where == ROOT and e == errno.EACCES:
                    continue  # an unreadable root is not 'an entry that became unreadable while walking'
                pr.append(f"fault {os.strerror(e)} at {what}({where}) escaped the walk: {ex!r}")
                continue
            got = set(s.paths)
            if what == "stat":
                lost = {p for p in full if p == where or p.startswith(where + "/")}
            else:
                lost = {p for p in full if p.startswith(where + "/")}
            if got != full - lost:
                pr.append(f"fault {os.strerror(e)} at {what}({where}): snapshot has {sorted(got)}, expected {sorted(full - lost)}")
    return pr


def root_gone():
    pr = []
    vfs = VFS({ROOT: (100, 0, True), ROOT + "/a": (1, 0, False)})
    em, q, stopped = emitter(vfs)
    em.on_thread_start()
    for err in (FileNotFoundError, NotADirectoryError, PermissionError):
        vfs = VFS({ROOT: (100, 0, True), ROOT + "/a": (1, 0, False)})
        em, q, stopped = emitter(vfs)
        em.on_thread_start()
        vfs.tree = {}
        real = vfs.stat

        def bad(p, err=err):
            raise err(errno.ENOENT, "x", p)
        em._take_snapshot = lambda: DirectorySnapshot(ROOT, recursive=True, stat=bad, listdir=vfs.listdir)
        try:
            em.queue_events(0)
        except Exception as ex:
            pr.append(f"root gone ({err.__name__}): queue_events raised {ex!r}")
            continue
        got = drain(q)
        if got != [E.DirDeletedEvent(ROOT)] or not stopped:
            pr.append(f"root gone ({err.__name__}): events {got}, stopped={bool(stopped)}")
    return pr


def main():
    if REPLAY is not None:
        c = REPLAY
        if c["kind"] == "poll":
            pr = check_poll({k: tuple(v) for k, v in c["a"].items()}, {k: tuple(v) for k, v in c["b"].items()}, c["recursive"])
        elif c["kind"] == "fault":
            pr = fault_sweep({k: tuple(v) for k, v in c["tree"].items()}, c["recursive"], c.get("lazy", False))
        else:
            pr = root_gone()
        replay_result(bool(pr), pr[:2])
    bat = Battery({"names": ["a", "b", "c"], "depth": 2, "entries": "<=3", "inodes": 4, "state pairs": "all (sampled in quick)", "faults": "ENOENT/ENOTDIR/EACCES at every stat/listdir call position", "recursive": [True, False]})
    ts = trees(["a", "b", "c"], [1, 2, 3, 4])
    pairs = list(itertools.product(ts, ts))
    rng.shuffle(pairs)
    for a, b in pairs[: (3000 if TIER == "quick" else 60000)]:
        for rec in (True, False):
            b2 = {p: (v[0], (1 if (hash((p, v[0])) % 3 == 0 and p != ROOT) else 0), v[2]) for p, v in b.items()}
            bat.case(hash((tuple(sorted(a.items())), tuple(sorted(b2.items())), rec)), nontrivial=(a != b2), desc={"before": {k: list(v) for k, v in a.items()}, "after": {k: list(v) for k, v in b2.items()}, "recursive": rec})
            pr = check_poll(a, b2, rec)
            if pr:
                bat.fail("C10.poll-diff", pr[0], {"kind": "poll", "a": a, "b": b2, "recursive": rec, "problems": pr[:2]}, "PollingEmitter.queue_events")
    for t in ts[:: (7 if TIER == "quick" else 1)]:
        for rec in (True, False):
            for lazy in (False, True):
                bat.case(hash(("fault", tuple(sorted(t.items())), rec, lazy)))
                pr = fault_sweep(t, rec, lazy)
                if pr:
                    bat.fail("C10.tolerant-walk" + ("(lazy listdir iterator)" if lazy else ""), pr[0], {"kind": "fault", "tree": t, "recursive": rec, "lazy": lazy, "problems": pr[:2]}, "DirectorySnapshot.walk")
    bat.case("root-gone")
    pr = root_gone()
    if pr:
        bat.fail("C10.root-gone", pr[0], {"kind": "root", "problems": pr[:2]}, "PollingEmitter.queue_events")
    bat.finish()


main()
