"""C03 — every delivered event correctly typed; single operations meet their contract (partial).

Decided: the translation of one native record (or rename pair) into normalized events is exactly the table of
the statement (specs/inotify_table.py), for every event bit, flavour, recursive / full-emitter combination;
flavour = IN_ISDIR; is_synthetic only from the two generators.  Not decided: 'explained by the operation history'
(needs the kernel and whole histories)."""
from __future__ import annotations
from specs.inotify_emitter import World, QueueEvents, FILE
from specs import inotify_table as T

PROP = "C03"
GROUNDABLE = True
GROUND_SCOPES = (4,)   # the emitter's path world needs a path, its parent and their two byte encodings
BATTERY = "c03_battery.py"


def make_specs():
    W = World()
    out = [QueueEvents(W, PROP, want=("table",))]
    from specs import c14
    for sp in c14.make_specs():   # the generators' contract used by the table is re-verified here
        sp.prop = PROP
        out.append(sp)
    # "rename inside the tree: one moved event carrying both paths": the pairing of the two halves of a rename (C08's
    # contract of InotifyBuffer._group_events) is what the table's pair rows rest on; re-verified here
    from specs import c08
    out.append(c08.GroupEvents(c08.GWorld(), PROP))
    return out


def lemmas():
    from specs import c14
    return c14.lemmas()


EXPECTED_CLAUSES = ["post[table:pair:IN_MOVED_FROM+IN_MOVED_TO|ISDIR,recursive:every sub-event queued once", "post[table:single:IN_CREATE:event0=FileCreatedEvent(path,'')]", "post[table:single:IN_CREATE|ISDIR:event1=DirModifiedEvent(parent,'')]",
                    "post[table:single:IN_MOVED_FROM,full:event0=FileMovedEvent(path,'')]", "post[table:single:IN_MOVED_TO|ISDIR,recursive:synthetic sub-events generated", "post[table:single:IN_IGNORED:count]",
                    "post[table:single:IN_DELETE_SELF,root:emitter stops iff", "post[table:single:IN_CLOSE_WRITE:event1=DirModifiedEvent(parent,'')]", "post[no record: nothing queued]"]
CANARIES = [
    {"name": "swap Dir/File in the create arm", "file": FILE, "fn": "InotifyEmitter.queue_events", "find": "            elif event.is_create:\n                cls = DirCreatedEvent if event.is_directory else FileCreatedEvent", "replace": "            elif event.is_create:\n                cls = FileCreatedEvent if event.is_directory else DirCreatedEvent"},
    {"name": "drop the parent DirModifiedEvent of the delete arm", "file": FILE, "fn": "InotifyEmitter.queue_events", "find": "                cls = DirDeletedEvent if event.is_directory else FileDeletedEvent\n                self.queue_event(cls(src_path))\n                self.queue_event(DirModifiedEvent(os.path.dirname(src_path)))\n            elif event.is_moved_from and full_events:", "replace": "                cls = DirDeletedEvent if event.is_directory else FileDeletedEvent\n                self.queue_event(cls(src_path))\n            elif event.is_moved_from and full_events:"},
    {"name": "is_synthetic=True in the move arm", "file": FILE, "fn": "InotifyEmitter.queue_events", "find": "self.queue_event(cls(src_path, dest_path))", "replace": "self.queue_event(cls(src_path, dest_path, is_synthetic=True))"},
]
TRUSTED = ["E8: every record carries exactly one event-type bit (plus IN_ISDIR)", "C14's contract of the two sub-event generators (every element synthetic, Moved/Created flavours)", "E2/E3 os.path.dirname, os.fsdecode as uninterpreted functions with the stated axioms",
           "E10 event dataclass constructor"]
ASSUMPTIONS = ["queue_event is observed as the sequence of events offered to it (the filter is C11, the queue C16)"]
UNDECIDED_PARTS = ["'explained by the operation history' (soundness against the real tree) needs the kernel: not decided", "phantom events after a watched directory is moved out of the tree (stale watch keeps its old path): known limitation, see DESIGN.md section 6 #11"]
