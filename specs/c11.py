"""C11 — an event filter only removes events; it never alters the rest of the stream.

(1) EventEmitter.queue_event: queued iff no filter or isinstance of a filter class (contract shared with C04).
(2) InotifyEmitter.get_event_mask_from_filter: for every filter class c and kernel bit b, needs(c, b, recursive)
    ⇒ b ∈ mask, where `needs` is computed from the translation table of the statement (specs/inotify_table.py),
    not from this function.  Over-approximate masks are fine: the isinstance filter removes the surplus.
(3) the default mask (no filter) contains every bit the table uses; the code's constants equal the kernel ABI."""
from __future__ import annotations
import z3
from pyvc.sym import *
from pyvc.engine import FnSpec, LoopSpec, Obligation, Raise
from pyvc import ground, source
from specs.common import EventWorld, event_classes, is_subclass
from specs import inotify_table as T
from specs import c04

PROP = "C11"
GROUNDABLE = True
GROUND_SCOPES = (4,)   # the emitter's path world needs a path, its parent and their two byte encodings
BATTERY = "c11_battery.py"
FILE = "watchdog/observers/inotify.py"
FILE_C = "watchdog/observers/inotify_c.py"


class World:
    def __init__(self):
        self.PathS = ground.usort("MPath")
        self.EW = EventWorld(TRef("MPath", self.PathS), tag="M")
        self.Cls = self.EW.EvTT.tys[0]
        self.classes = self.EW.classes

    def _cls_term(self, v):
        if isinstance(v, VClass) and v.name in self.EW.cls:
            return self.EW.cls[v.name]
        if isinstance(v, VRef) and v.ty.sort == self.EW.ClsS:
            return v.t
        return None

    def eq(self, ex, l, r):
        a, b = self._cls_term(l), self._cls_term(r)
        if a is not None and b is not None:
            return a == b
        return NotImplemented

    is_ = eq

    def function(self, ex, dotted, args, kw, node):
        if dotted in ("issubclass", "builtins.issubclass"):
            a, b = args
            if isinstance(a, VClass) and a.name in self.EW.cls:
                bt = self._cls_term(b)
                parts = [z3.And(bt == self.EW.cls[n], z3.BoolVal(is_subclass(self.classes, a.name, n))) for n in self.EW.names]
                return VBool(z3.Or(*parts))
            if isinstance(b, VClass) and b.name in self.EW.cls:
                at = self._cls_term(a)
                return VBool(self.EW.subclass_of(at, b.name))
            raise Unsupported("issubclass of two symbolic classes")
        return NotImplemented


class MaskFromFilter(FnSpec):
    relpath, qualname, prop = FILE, "InotifyEmitter.get_event_mask_from_filter", PROP
    inline = {"EventEmitter.watch", "ObservedWatch.is_recursive"}
    var_types = {"event_mask": TBits}

    def __init__(self, W):
        self.W, self.world = W, W
        self.loops = {1: LoopSpec("self._event_filter", self.inv)}
        self.pairs = []
        for c in W.EW.names:
            for b in T.REQUESTABLE:
                nr = T.needs(c, b, False, lambda p, q: is_subclass(W.classes, p, q))
                r = T.needs(c, b, True, lambda p, q: is_subclass(W.classes, p, q))
                if nr:
                    self.pairs.append((c, b, False))
                elif r:
                    self.pairs.append((c, b, True))

    def setup(self, ex):
        W = self.W
        self.me = VObj("InotifyEmitter")
        self.filt = ex.fresh(TOpt(TSet(W.Cls)), "event_filter")
        self.rec = ex.fresh_term(z3.BoolSort(), "is_recursive")
        watch = VObj("ObservedWatch")
        ex.heap[(watch.id, "_is_recursive")] = VBool(self.rec)
        ex.heap[(self.me.id, "_event_filter")] = self.filt
        ex.heap[(self.me.id, "_watch")] = watch
        return {"self": self.me}

    def has(self, mask, bit):
        if isinstance(mask, int):
            return z3.BoolVal(bool(mask & T.ABI[bit]))
        return (mask.t & z3.BitVecVal(T.ABI[bit], 32)) != 0

    def has0(self, bit):
        """bit present in the mask the loop started from"""
        return self.has(self.mask0, bit)

    def clause(self, mask, member, c, b, rec_only):
        g = [member[self.W.EW.cls[c]]]
        if rec_only:
            g.append(self.rec)
        return z3.Implies(z3.And(*g), self.has(mask, b))

    def inv(self, ex, seen):
        mask = ex.scope.lookup("event_mask").vars["event_mask"]
        if z3.is_true(z3.simplify(seen == z3.K(self.W.EW.ClsS, z3.BoolVal(False)))) if not isinstance(seen, bool) else False:
            self.mask0 = mask  # loop entry
        out = [("always-delete-self", self.has(mask, "IN_DELETE_SELF")),
               ("bits-only-accumulate:recursive-bookkeeping", z3.Implies(z3.And(self.rec, self.has0("IN_CREATE"), self.has0("IN_MOVED_FROM"), self.has0("IN_MOVED_TO")),
                                                                         z3.And(self.has(mask, "IN_CREATE"), self.has(mask, "IN_MOVED_FROM"), self.has(mask, "IN_MOVED_TO"))))]
        for c, b, ro in self.pairs:
            out.append((f"{'complete-recursive' if ro else 'complete'}:{c}<-{b}", self.clause(mask, seen, c, b, ro)))
        return out

    def post(self, ex, result):
        if result is None:
            ex.oblige("post[None only without a filter]", z3.Not(self.filt.some))
            return
        ex.oblige("post[a mask only with a filter]", self.filt.some)
        ex.oblige("post[complete:IN_DELETE_SELF always]", self.has(result, "IN_DELETE_SELF"))
        for c, b, ro in self.pairs:
            ex.oblige(f"post[{'complete-recursive' if ro else 'complete'}:{c}<-{b}]", self.clause(result, self.filt.val.t, c, b, ro))


class EmitterInit(FnSpec):
    """EventEmitter.__init__ keeps the filter it is given: the set of classes queue_event and the mask derivation later
    work with is exactly the caller's (None stays None)"""
    relpath, qualname, prop = "watchdog/observers/api.py", "EventEmitter.__init__", PROP

    def __init__(self):
        from specs import c13
        self.W = c13.WatchWorld()
        self.world = self.W

    def globals(self):
        return {"BaseThread.__init__": lambda ex, recv, a, k, n: None, "super.__init__": lambda ex, recv, a, k, n: None}

    def setup(self, ex):
        W = self.W
        self.me = VObj("EventEmitter")
        self.filt = ex.fresh(W.F, "event_filter")
        self.q, self.w, self.t = VOpaque("event_queue"), VOpaque("watch"), VOpaque("timeout")
        return {"self": self.me, "event_queue": self.q, "watch": self.w, "timeout": self.t, "event_filter": VOpt(self.filt.some, VOpaque("listofset", self.filt.val))}

    def post(self, ex, result):
        H = ex.heap
        f = H.get((self.me.id, "_event_filter"))
        if f is None:
            ex.oblige("post[no filter given: none stored]", z3.Not(self.filt.some))
        elif isinstance(f, VOpt):
            ex.oblige("post[the stored filter is exactly the set of classes given (None stays None)]", z3.And(f.some == self.filt.some, z3.Implies(f.some, f.val.t == self.filt.val.t)))
        elif isinstance(f, VSet):
            ex.oblige("post[the stored filter is exactly the set of classes given (None stays None)]", z3.And(self.filt.some, f.t == self.filt.val.t))
        else:
            ex.oblige("post[the stored filter is a set of classes]", False)
        ex.oblige("post[queue, watch and timeout stored as given]", H.get((self.me.id, "_event_queue")) is self.q and H.get((self.me.id, "_watch")) is self.w and H.get((self.me.id, "_timeout")) is self.t)


def make_specs():
    W = World()
    out = [MaskFromFilter(W), c04.QueueEvent(PROP), EmitterInit()]
    from specs.inotify_read import Init, IRWorld
    ini = Init(IRWorld(), PROP)
    ini.check_mask = True
    out.append(ini)
    # the translation itself is filter-independent (frame), and two schedules of one path with different filters are
    # different watches with their own emitters (watch identity includes the filter)
    from specs import inotify_emitter, c13
    out.append(inotify_emitter.QueueEvents(inotify_emitter.World(), PROP, want=("frame",)))
    WW = c13.WatchWorld()
    for n in ("key", "__eq__"):
        s2 = c13.WatchSpec(WW, n)
        s2.prop = PROP
        out.append(s2)
    # what reaches queue_events is filter-independent too: the buffer between the kernel and the emitter pairs and holds back
    # native records by their kind alone (C08's contract of InotifyBuffer.run) - a pairing delay that depended on the filter
    # would turn a rename into a deletion + creation for the filtered watch only
    from specs import c08
    out.append(c08.BufferRun(c08.GWorld(), PROP))
    return out


def lemmas():
    from specs import c16
    out = [ob for ob in c16.lemmas() if "EventQueue" in ob.name]   # the shared queue drops only true repeats of (event, watch)
    consts = source.module(FILE_C).constants()
    bad = [k for k, v in list(T.ABI.items()) + list(T.SPECIAL.items()) if consts.get("InotifyConstants." + k) != v]
    out.append(Obligation("lemma[InotifyConstants equal the kernel ABI]", "lemma", [], z3.BoolVal(not bad), ",".join(bad), "InotifyConstants"))
    allev = consts.get("WATCHDOG_ALL_EVENTS")
    missing = [b for b in T.REQUESTABLE if not (isinstance(allev, int) and allev & T.ABI[b])]
    out.append(Obligation("lemma[default mask (no filter) contains every bit of the translation table]", "lemma", [], z3.BoolVal(not missing), ",".join(missing), "WATCHDOG_ALL_EVENTS"))
    mv = consts.get("InotifyConstants.IN_MOVE")
    out.append(Obligation("lemma[IN_MOVE = IN_MOVED_FROM | IN_MOVED_TO]", "lemma", [], z3.BoolVal(mv == (T.ABI["IN_MOVED_FROM"] | T.ABI["IN_MOVED_TO"])), "", "InotifyConstants"))
    return out


EXPECTED_CLAUSES = ["post[complete:FileDeletedEvent<-IN_MOVED_FROM]", "post[complete-recursive:FileModifiedEvent<-IN_CREATE]", "post[complete:FileSystemEvent<-IN_MODIFY]", "post[complete:DirModifiedEvent<-IN_DELETE]",
                    "loop1.preserved[complete:FileCreatedEvent<-IN_CREATE]", "queue_event.post[queued iff", "lemma[default mask",
                    "queue_events.post[frame:pair:IN_MOVED_FROM+IN_MOVED_TO|ISDIR,recursive", "ObservedWatch.key.post[key is a triple"]
CANARIES = [
    {"name": "a filter-derived mask keeps whatever IN_DONT_FOLLOW bit it came with (the repaired defect)", "file": "watchdog/observers/inotify_c.py", "fn": "Inotify.__init__", "find": "        else:\n            event_mask |= InotifyConstants.IN_DONT_FOLLOW\n", "replace": ""},
    {"name": "sub-events only if the filter selects the directory event", "file": FILE, "fn": "InotifyEmitter.queue_events", "find": "if event.is_directory and self.watch.is_recursive:", "replace": "if event.is_directory and self.watch.is_recursive and self._event_filter is None:"},
    {"name": "remove IN_MOVE from the created arm", "file": FILE, "fn": "InotifyEmitter.get_event_mask_from_filter", "find": "event_mask |= InotifyConstants.IN_MOVE | InotifyConstants.IN_CREATE\n", "replace": "event_mask |= InotifyConstants.IN_CREATE\n"},
    {"name": "isinstance -> exact class in queue_event", "file": "watchdog/observers/api.py", "fn": "EventEmitter.queue_event", "find": "any(isinstance(event, cls) for cls in self._event_filter)", "replace": "any(type(event) is cls for cls in self._event_filter)"},
]
TRUSTED = ["the translation table of specs/inotify_table.py (statement of C03) is what the unfiltered emitter does: proved separately as C03's postcondition", "E8: the kernel reports a record only if its bit is in the watch mask",
           "class objects are a finite enumeration with the subclass relation read from the real class statements"]
ASSUMPTIONS = ["`needs` = a record with that bit can yield an event that is an instance of the class, or it is the other half of a needed rename, or (recursive) it is needed to follow new/renamed directories, or it is IN_DELETE_SELF"]
UNDECIDED_PARTS = ["'in the same order, up to coalescing' over whole histories follows from the table being applied record by record (C03) and the queue (C16); it is not a separate obligation"]
