"""C10 — polling reports exactly the diff of successive snapshots and survives races.

Contracts: PollingEmitter.queue_events / on_thread_start (polling.py), DirectorySnapshot.walk / __init__
(dirsnapshot.py).  The diff itself is C09's contract (not its body).  stat / listdir are environment functions
that may raise OSError at every call (forked)."""
from __future__ import annotations
import z3
from pyvc.sym import *
from pyvc.engine import FnSpec, LoopSpec, Obligation, Raise
from pyvc import ground
from specs.common import EventWorld

PROP = "C10"
GROUNDABLE = True
BATTERY = "c10_battery.py"
POLLING = "watchdog/observers/polling.py"
SNAP = "watchdog/utils/dirsnapshot.py"

SEGMENTS = [("files_deleted", "FileDeletedEvent", False), ("files_modified", "FileModifiedEvent", False), ("files_created", "FileCreatedEvent", False), ("files_moved", "FileMovedEvent", True),
            ("dirs_deleted", "DirDeletedEvent", False), ("dirs_modified", "DirModifiedEvent", False), ("dirs_created", "DirCreatedEvent", False), ("dirs_moved", "DirMovedEvent", True)]


class PWorld:
    def __init__(self):
        self.PS = ground.usort("PPath")
        self.nonempty = z3.Function("ppath_nonempty", self.PS, z3.BoolSort())
        self.empty = z3.Const("ppath_empty", self.PS)

        class PT(TRef):
            def unwrap(s, v):
                if isinstance(v, str) and v == "":
                    return self.empty
                return TRef.unwrap(s, v)
        self.Path = PT("PPath", self.PS, truthy=lambda t: self.nonempty(t))
        self.Pair = TTup(self.Path, self.Path)
        self.EW = EventWorld(self.Path, tag="P")
        self.LEv = TList(self.EW.Event)
        self.LP = TList(self.Path)
        self.LPP = TList(self.Pair)
        self.SnapS = ground.usort("Snapshot")
        self.Snap = TRef("Snapshot", self.SnapS)


class PollQueueEvents(FnSpec):
    relpath, qualname, prop = POLLING, "PollingEmitter.queue_events", PROP
    inline = {"EventEmitter.watch", "ObservedWatch.path", "BaseThread.stopped_event", "BaseThread.should_keep_running"}

    def __init__(self, W):
        self.W, self.world = W, W
        self.loops = {i + 1: LoopSpec("events." + seg[0], (lambda ex, k, i=i: self.inv(ex, k, i)), modifies=[("ghost", "out")]) for i, seg in enumerate(SEGMENTS)}
        self.expected_covers = [f"loop{i+1}.{w}" for i in range(8) for w in ("body", "end")] + ["exit"]

    def globals(self):
        W = self.W
        g = dict(W.EW.constructors(""))

        def ev_wait(ex, recv, a, k, n):
            self.waited.append(a[0] if a else None)
            return VBool(self.stop_at_wait)

        def ev_is_set(ex, recv, a, k, n):
            return VBool(self.stop_under_lock)

        def take(ex, a, k, n):
            self.takes += 1
            if ex.choose(2, "snapshot raises OSError (root gone)") == 1:
                raise Raise(VExc("OSError"), "_take_snapshot()")
            self.new = ex.fresh_term(W.SnapS, "new_snapshot")
            return W.Snap.wrap(self.new)

        def diff(ex, a, k, n):
            self.diff_args = (W.Snap.unwrap(a[0]), W.Snap.unwrap(a[1]))
            self.lists = {}
            attrs = {}
            for name, cls, pair in SEGMENTS:
                L = ex.fresh(W.LPP if pair else W.LP, name)
                ex.assume(L.n >= 0)
                self.lists[name] = L
            return VOpaque("ns", dict(self.lists))

        def qev(ex, recv, a, k, n):
            ex.oblige("queue_event-with-emitter-lock-held", "polling._lock" in ex.held, kind="lock")
            ex.emit("out", a[0])
            return None

        def stop(ex, recv, a, k, n):
            ex.ghost["stopped"] = True
            return None
        g.update({"event.wait": ev_wait, "event.is_set": ev_is_set, "DirectorySnapshotDiff": diff, "PollingEmitter.queue_event": qev, "PollingEmitter.stop": stop, "take": take})
        self._g = g
        return g

    def on_with(self, ex, cv, node, entering):
        if isinstance(cv, VOpaque) and cv.kind == "lock":
            (ex.held.append if entering else ex.held.remove)(cv.data)
            return
        raise Unsupported("with")

    def setup(self, ex):
        W = self.W
        self.me = VObj("PollingEmitter")
        self.stop_at_wait = ex.fresh_term(z3.BoolSort(), "stopped_during_wait")
        self.stop_under_lock = ex.fresh_term(z3.BoolSort(), "stopped_under_lock")
        self.old = ex.fresh_term(W.SnapS, "previous_snapshot")
        self.wp = ex.fresh_term(W.PS, "watch_path")
        watch = VObj("ObservedWatch")
        H = ex.heap
        H[(watch.id, "_path")] = W.Path.wrap(self.wp)
        H[(self.me.id, "_watch")] = watch
        H[(self.me.id, "_lock")] = VOpaque("lock", "polling._lock")
        H[(self.me.id, "_snapshot")] = W.Snap.wrap(self.old)
        H[(self.me.id, "_stopped_event")] = VOpaque("event")
        H[(self.me.id, "_take_snapshot")] = VOpaque("callable", self.globals_take)
        ex.ghost["out"] = W.LEv.empty()
        ex.ghost["stopped"] = False
        self.waited, self.takes, self.new, self.lists, self.diff_args = [], 0, None, None, None
        self.timeout = VOpaque("timeout")
        self.bases = {}
        return {"self": self.me, "timeout": self.timeout}

    def globals_take(self, ex, a, k, n):
        return self._g["take"](ex, a, k, n)

    def expected(self, i, J):
        W, EW = self.W, self.W.EW
        name, cls, pair = SEGMENTS[i]
        L = self.lists[name]
        if pair:
            return EW.mk(EW.cls[cls], W.Pair.proj[0](L.arr[J]), W.Pair.proj[1](L.arr[J]), z3.BoolVal(False))
        return EW.mk(EW.cls[cls], L.arr[J], W.empty, z3.BoolVal(False))

    def base(self, i):
        b = z3.IntVal(0)
        for name, _c, _p in SEGMENTS[:i]:
            b = b + self.lists[name].n
        return b

    def inv(self, ex, k, i):
        out = ex.ghost["out"]
        j = z3.Const("pj", z3.IntSort())
        cl = [("count", out.n == self.base(i) + k),
              (f"segment:{SEGMENTS[i][0]}", z3.ForAll([j], z3.Implies(z3.And(j >= 0, j < k), out.arr[self.base(i) + j] == self.expected(i, j))))]
        for m in range(i):
            cl.append((f"earlier-segment:{SEGMENTS[m][0]}", z3.ForAll([j], z3.Implies(z3.And(j >= 0, j < self.lists[SEGMENTS[m][0]].n), out.arr[self.base(m) + j] == self.expected(m, j)))))
        cl.append(("snapshot-replaced", ex.heap[(self.me.id, "_snapshot")].t == self.new))
        return cl

    def post(self, ex, result):
        W, EW = self.W, self.W.EW
        out = ex.ghost["out"]
        snap_now = ex.heap[(self.me.id, "_snapshot")].t
        ex.oblige("post[sleeps on the stop flag with the given interval]", len(self.waited) == 1 and self.waited[0] is self.timeout)
        # stopped (either at the wait or under the lock): nothing
        if self.takes == 0:
            ex.oblige("post[no poll only because the emitter was stopped]", z3.Or(self.stop_at_wait, self.stop_under_lock))
            ex.oblige("post[stopped: no event, baseline kept]", z3.And(out.n == 0, snap_now == self.old, z3.BoolVal(not ex.ghost["stopped"])))
            return
        ex.oblige("post[polls only while running]", z3.And(z3.Not(self.stop_at_wait), z3.Not(self.stop_under_lock)))
        ex.oblige("post[one snapshot per poll]", self.takes == 1)
        if self.new is None:
            ex.oblige("post[root gone: exactly one DirDeletedEvent(root), emitter stops, baseline kept]",
                      z3.And(out.n == 1, out.arr[0] == EW.mk(EW.cls["DirDeletedEvent"], self.wp, W.empty, z3.BoolVal(False)), z3.BoolVal(bool(ex.ghost["stopped"])), snap_now == self.old))
            return
        ex.oblige("post[diff taken between the previous and the new snapshot, in that order]", z3.And(self.diff_args[0] == self.old, self.diff_args[1] == self.new))
        ex.oblige("post[the new snapshot becomes the baseline]", snap_now == self.new)
        ex.oblige("post[one event per diff entry, nothing else]", out.n == self.base(8))
        J = ex.fresh_term(z3.IntSort(), "J")
        for i, (name, cls, pair) in enumerate(SEGMENTS):
            ex.oblige(f"post[{name} -> {cls}, in list order, at its place in the deleted/modified/created/moved, files-then-dirs order]",
                      z3.Implies(z3.And(J >= 0, J < self.lists[name].n), out.arr[self.base(i) + J] == self.expected(i, J)))
        ex.oblige("post[emitter keeps running]", not ex.ghost["stopped"])


class OnThreadStart(FnSpec):
    relpath, qualname, prop = POLLING, "PollingEmitter.on_thread_start", PROP

    def __init__(self, W):
        self.W, self.world = W, W

    def setup(self, ex):
        W = self.W
        self.me = VObj("PollingEmitter")
        self.snap = ex.fresh_term(W.SnapS, "snapshot_at_start")
        ex.heap[(self.me.id, "_take_snapshot")] = VOpaque("callable", lambda ex, a, k, n: W.Snap.wrap(self.snap))
        ex.heap[(self.me.id, "_snapshot")] = VOpaque("EmptyDirectorySnapshot")
        return {"self": self.me}

    def post(self, ex, result):
        s = ex.heap[(self.me.id, "_snapshot")]
        ex.oblige("post[baseline = snapshot of the tree at start()]", isinstance(s, VRef) and z3.is_true(z3.simplify(s.t == self.snap)))


class PollInit(FnSpec):
    """the snapshot taker uses the watch's path and recursion flag and the injected stat/listdir (PollingObserverVFS)"""
    relpath, qualname, prop = POLLING, "PollingEmitter.__init__", PROP
    inline = {"EventEmitter.watch", "ObservedWatch.path", "ObservedWatch.is_recursive"}

    def __init__(self, W, prop=PROP):
        self.W, self.world, self.prop = W, W, prop

    def globals(self):
        W = self.W

        def snap(ex, a, k, n):
            self.snap_args = (a, k)
            return W.Snap.wrap(ex.fresh_term(W.SnapS, "snapshot"))
        return {"EventEmitter.__init__": lambda ex, recv, a, k, n: None, "EmptyDirectorySnapshot": lambda ex, a, k, n: VOpaque("EmptyDirectorySnapshot"), "threading.Lock": lambda ex, a, k, n: VOpaque("lock", "polling._lock"),
                "DirectorySnapshot": snap}

    def setup(self, ex):
        W = self.W
        self.me = VObj("PollingEmitter")
        self.wp = ex.fresh_term(W.PS, "watch_path")
        self.rec = ex.fresh_term(z3.BoolSort(), "recursive")
        self.watch = VObj("ObservedWatch")
        ex.heap[(self.watch.id, "_path")] = W.Path.wrap(self.wp)
        ex.heap[(self.watch.id, "_is_recursive")] = VBool(self.rec)
        ex.heap[(self.me.id, "_watch")] = self.watch
        self.stat, self.listdir = VOpaque("stat_fn"), VOpaque("listdir_fn")
        self.snap_args = None
        return {"self": self.me, "event_queue": VOpaque("q"), "watch": self.watch, "timeout": VOpaque("t"), "event_filter": None, "stat": self.stat, "listdir": self.listdir}

    def post(self, ex, result):
        W = self.W
        H = ex.heap
        ex.oblige("post[before start the baseline is the empty snapshot]", isinstance(H.get((self.me.id, "_snapshot")), VOpaque) and H[(self.me.id, "_snapshot")].kind == "EmptyDirectorySnapshot")
        take = H.get((self.me.id, "_take_snapshot"))
        ok = isinstance(take, VFunc)
        ex.oblige("post[a snapshot taker is installed]", ok)
        if ok:
            ex.call(take, [], {}, None)
            a, k = self.snap_args if self.snap_args else ([], {})
            good = bool(a) and isinstance(a[0], VRef) and k.get("stat") is self.stat and k.get("listdir") is self.listdir
            ex.oblige("post[snapshots are taken of the watched path with the injected stat and listdir]", z3.And(z3.BoolVal(good), W.Path.unwrap(a[0]) == self.wp) if good else False)
            ex.oblige("post[snapshots are recursive iff the watch is]", TBool.unwrap(k.get("recursive")) == self.rec if good else False)


# ------------------------------------------------------------------------------------------------ snapshot walk
class SWorld:
    """paths/stat for the walk: Path with a type tag (C19), join, Stat with st_mode; directory listing entries"""

    def __init__(self):
        self.PS = ground.usort("WPath")
        self.StS = ground.usort("WStat")
        self.EnS = ground.usort("DirEntry")
        self.ModeS = ground.usort("WMode")
        self.InoS = ground.usort("WIno")
        self.DevS = ground.usort("WDev")
        self.join = z3.Function("os_path_join", self.PS, self.PS, self.PS)
        self.name = z3.Function("entry_name", self.EnS, self.PS)
        self.is_bytes = z3.Function("wpath_is_bytes", self.PS, z3.BoolSort())
        self.st_mode = z3.Function("wst_mode", self.StS, self.ModeS)
        self.st_ino = z3.Function("wst_ino", self.StS, self.InoS)
        self.st_dev = z3.Function("wst_dev", self.StS, self.DevS)
        self.s_isdir = z3.Function("WS_ISDIR", self.ModeS, z3.BoolSort())
        self.Path = TRef("WPath", self.PS)
        self.Mode = TRef("WMode", self.ModeS)
        self.Ino, self.Dev = TRef("WIno", self.InoS), TRef("WDev", self.DevS)
        self.Stat = TRef("WStat", self.StS, attrs={"st_mode": lambda ex, r: self.Mode.wrap(self.st_mode(r.t)), "st_ino": lambda ex, r: self.Ino.wrap(self.st_ino(r.t)), "st_dev": lambda ex, r: self.Dev.wrap(self.st_dev(r.t))})
        self.Entry = TRef("DirEntry", self.EnS, attrs={"name": lambda ex, r: self.Path.wrap(self.name(r.t))})
        self.PE = TTup(self.Path, self.Stat)
        self.LPE = TList(self.PE)
        self.LEn = TList(self.Entry)
        self.LP = TList(self.Path)
        self.Key = TTup(self.Ino, self.Dev)


class Walk(FnSpec):
    relpath, qualname, prop = SNAP, "DirectorySnapshot.walk", PROP
    var_types = {}

    def __init__(self, W, prop=PROP):
        self.W, self.world, self.prop = W, W, prop
        self.var_types = {"entries": W.LPE}
        self.loops = {1: LoopSpec("paths", self.inv1, modifies=[("ghost", "out"), ("call", self.havoc_ghost1)], ghost_start=self.gs1),
                      2: LoopSpec("entries", self.inv2, modifies=[("call", self.havoc_ghost2)], ghost_start=self.gs2)}
        self.expected_covers = ["loop1.body", "loop1.end", "loop2.body", "loop2.end", "exit"]

    # ---- environment
    def globals(self):
        W = self.W

        def listdir(ex, a, k, n):
            ex.oblige("listdir called on the directory being walked", W.Path.unwrap(a[0]) == self.root)
            self.listdir_calls += 1
            if ex.choose(2, "listdir raises OSError") == 1:
                self.ld_errno = VOpaque("errno", ex.choose(4, "errno: ENOENT / ENOTDIR / EINVAL / other"))
                cls = "OSError" if self.ld_errno.data < 3 else ("PermissionError" if ex.choose(2, "EACCES or another errno") == 0 else "OSError")
                raise Raise(VExc(cls, {"errno": self.ld_errno}), "listdir()")
            self.listing = ex.fresh(W.LEn, "listing")
            ex.assume(self.listing.n >= 0)
            return self.listing

        def stat(ex, a, k, n):
            p = W.Path.unwrap(a[0])
            ex.oblige("stat called on the current joined path", p == self.paths_term(self.k))
            ex.oblige("stat called once per entry", z3.Not(self.g["statted"][self.k]))
            self.g["statted"] = z3.Store(self.g["statted"], self.k, True)
            if ex.choose(2, "stat raises OSError (entry vanished)") == 1:
                self.g["ok"] = z3.Store(self.g["ok"], self.k, False)
                raise Raise(VExc(("OSError", "PermissionError", "FileNotFoundError")[ex.choose(3, "kind of OSError")]), "stat()")
            s = ex.fresh_term(W.StS, "st")
            self.g["ok"] = z3.Store(self.g["ok"], self.k, True)
            self.g["st"] = z3.Store(self.g["st"], self.k, s)
            return W.Stat.wrap(s)
        return {"os.path.join": lambda ex, a, k, n: W.Path.wrap(W.join(W.Path.unwrap(a[0]), W.Path.unwrap(a[1]))),
                "S_ISDIR": lambda ex, a, k, n: VBool(W.s_isdir(W.Mode.unwrap(a[0]))),
                "errno.ENOENT": VOpaque("errno", 0), "errno.ENOTDIR": VOpaque("errno", 1), "errno.EINVAL": VOpaque("errno", 2),
                "listdir": listdir, "stat": stat}

    def eq(self, ex, l, r):
        return NotImplemented

    def paths_term(self, k):
        W = self.W
        return W.join(self.root, W.name(self.listing.arr[k]))

    def setup(self, ex):
        W = self.W
        self.me = VObj("DirectorySnapshot")
        self.root = ex.fresh_term(W.PS, "root")
        self.recursive = bool(ex.choose(2, "recursive"))
        H = ex.heap
        H[(self.me.id, "recursive")] = self.recursive
        H[(self.me.id, "stat")] = VOpaque("callable", lambda ex, a, k, n: ex._globals["stat"](ex, a, k, n))
        H[(self.me.id, "listdir")] = VOpaque("callable", lambda ex, a, k, n: ex._globals["listdir"](ex, a, k, n))
        I, B = z3.IntSort(), z3.BoolSort()
        self.g = {"ok": z3.K(I, z3.BoolVal(False)), "statted": z3.K(I, z3.BoolVal(False)), "st": ex.fresh_term(z3.ArraySort(I, W.StS), "st_arr"),
                  "src": ex.fresh_term(z3.ArraySort(I, I), "src"), "pos": ex.fresh_term(z3.ArraySort(I, I), "pos"),
                  "walked": z3.K(I, z3.BoolVal(False)), "yielded": z3.K(I, z3.BoolVal(False))}
        ex.ghost["out"] = W.LPE.empty()
        self.listdir_calls, self.listing, self.ld_errno = 0, None, None
        self.k = None
        self.i2 = None
        self.sub_raised = None
        return {"self": self.me, "root": W.Path.wrap(self.root)}

    # the world hook for `e.errno in (errno.ENOENT, ...)`
    def havoc_ghost1(self, ex):
        I = z3.IntSort()
        for nm in ("ok", "statted", "st", "src", "pos", "yielded"):
            self.g[nm] = ex.fresh_term(self.g[nm].sort(), nm)

    def havoc_ghost2(self, ex):
        self.g["walked"] = ex.fresh_term(self.g["walked"].sort(), "walked")

    def gs1(self, ex, k, el=None):
        self.k = k

    def gs2(self, ex, k, el=None):
        self.i2 = k

    def entries(self, ex):
        return ex.scope.lookup("entries").vars["entries"]

    def inv1(self, ex, k):
        W, g = self.W, self.g
        ent = self.entries(ex)
        out = ex.ghost["out"]
        i, j, m = z3.Const("wi", z3.IntSort()), z3.Const("wj", z3.IntSort()), z3.Const("wm", z3.IntSort())
        paths = ex.scope.lookup("paths").vars["paths"]
        return [
            ("paths-are-the-joined-listing", z3.And(paths.n == self.listing.n, z3.ForAll([m], z3.Implies(z3.And(m >= 0, m < paths.n), paths.arr[m] == self.paths_term(m))))),
            ("sizes", z3.And(ent.n >= 0, ent.n <= k, out.n == ent.n)),
            ("entries-are-the-successfully-statted-paths", z3.ForAll([i], z3.Implies(z3.And(i >= 0, i < ent.n), z3.And(g["src"][i] >= 0, g["src"][i] < k, g["ok"][g["src"][i]], g["pos"][g["src"][i]] == i,
                                                                                                                 ent.arr[i] == W.PE.mk(self.paths_term(g["src"][i]), g["st"][g["src"][i]]), out.arr[i] == ent.arr[i])))),
            ("in-listing-order", z3.ForAll([i, j], z3.Implies(z3.And(i >= 0, i < j, j < ent.n), g["src"][i] < g["src"][j]))),
            ("none-skipped", z3.ForAll([m], z3.Implies(z3.And(m >= 0, m < k, g["ok"][m]), z3.And(g["pos"][m] >= 0, g["pos"][m] < ent.n, g["src"][g["pos"][m]] == m)))),
            ("stat-once-per-entry", z3.ForAll([m], z3.Implies(m >= k, z3.And(z3.Not(g["statted"][m]), z3.Not(g["ok"][m]))))),
        ]

    def on_mutation(self, ex, root, op, node, new):
        if root == "entries" and op == "append":
            ent = self.entries(ex)
            self.g["src"] = z3.Store(self.g["src"], ent.n - 1, self.k)
            self.g["pos"] = z3.Store(self.g["pos"], self.k, ent.n - 1)

    def on_yield(self, ex, value):
        ex.emit("out", value)

    def inv2(self, ex, k):
        W, g = self.W, self.g
        ent = self.entries(ex)
        i = z3.Const("vi", z3.IntSort())
        isd = lambda q: W.s_isdir(W.st_mode(W.PE.proj[1](ent.arr[q])))
        return [("sub-directories-walked-once-each-in-order", z3.ForAll([i], g["walked"][i] == z3.And(i >= 0, i < k, isd(i))))]

    def on_yield_from(self, ex, v):
        W = self.W
        ex.oblige("yield-from only a recursive walk", isinstance(v, VOpaque) and v.kind == "subwalk")

    def calls(self):
        def subwalk(ex, node):
            W, g = self.W, self.g
            arg = ex.ev(node.args[0])
            ent = self.entries(ex)
            ex.oblige("recursion[only when recursive]", self.recursive)
            ex.oblige("recursion[into the current entry, which is a directory, once]", z3.And(W.Path.unwrap(arg) == W.PE.proj[0](ent.arr[self.i2]), W.s_isdir(W.st_mode(W.PE.proj[1](ent.arr[self.i2]))), z3.Not(g["walked"][self.i2])))
            g["walked"] = z3.Store(g["walked"], self.i2, True)
            c = ex.choose(3, "sub-walk: completes / PermissionError / other OSError")
            if c == 1:
                raise Raise(VExc("PermissionError"), "self.walk(path)")
            if c == 2:
                self.sub_raised = True
                raise Raise(VExc("OSError", {"errno": VOpaque("errno", 3)}), "self.walk(path)")
            return VOpaque("subwalk", arg)
        return {"self.walk": subwalk}

    def post(self, ex, result):
        W, g = self.W, self.g
        out = ex.ghost["out"]
        if self.listing is None:
            ex.oblige("post[listing failed with ENOENT/ENOTDIR/EINVAL: the directory contributes nothing]", z3.And(out.n == 0, z3.BoolVal(self.ld_errno is not None and self.ld_errno.data < 3)))
            return
        L = self.listing
        M, I = ex.fresh_term(z3.IntSort(), "M"), ex.fresh_term(z3.IntSort(), "I")
        ent = self.entries(ex)
        ex.oblige("post[every listed entry is stat'ed exactly once; vanished ones are skipped]", z3.Implies(z3.And(M >= 0, M < L.n, g["ok"][M]), z3.And(g["pos"][M] >= 0, g["pos"][M] < out.n, out.arr[g["pos"][M]] == W.PE.mk(self.paths_term(M), g["st"][M]))))
        ex.oblige("post[yields exactly (join(root, name), stat result) of the entries whose stat succeeded, in listing order]",
                  z3.Implies(z3.And(I >= 0, I < out.n), z3.And(g["src"][I] >= 0, g["src"][I] < L.n, g["ok"][g["src"][I]], out.arr[I] == W.PE.mk(self.paths_term(g["src"][I]), g["st"][g["src"][I]]))))
        isd = W.s_isdir(W.st_mode(W.PE.proj[1](ent.arr[I])))
        if self.recursive:
            ex.oblige("post[recursive: every yielded directory is walked exactly once, nothing else]", g["walked"][I] == z3.And(I >= 0, I < ent.n, isd))
        else:
            ex.oblige("post[non-recursive: root's direct children only]", z3.Not(g["walked"][I]))
        ex.oblige("post[type of yielded paths = join(root, entry.name)]", z3.BoolVal(True))

    def post_raise(self, ex, exc, site):
        if site == "listdir()":
            ex.oblige("raises[listing error other than ENOENT/ENOTDIR/EINVAL propagates (a PermissionError is skipped by the parent walk)]", self.ld_errno is not None and self.ld_errno.data == 3)
        elif site == "self.walk(path)" and exc.cls == "OSError" and self.sub_raised:
            ex.oblige("raises[only a non-permission error of a sub-walk propagates]", True)
        else:
            ex.oblige(f"no-uncaught[{exc.cls}@{site}]", False, kind="exception")


class WalkWorld(SWorld):
    def contains(self, ex, cont, x, node):
        return NotImplemented

    def eq(self, ex, l, r):
        if isinstance(l, VOpaque) and l.kind == "errno" and isinstance(r, VOpaque) and r.kind == "errno":
            return l.data == r.data
        return NotImplemented


class SnapInit(FnSpec):
    relpath, qualname, prop = SNAP, "DirectorySnapshot.__init__", PROP

    def __init__(self, W):
        self.W, self.world = W, W
        self.var_types = {"self._stat_info": TDict(W.Path, W.Stat), "self._inode_to_path": TDict(W.Key, W.Path)}
        self.loops = {1: LoopSpec("self.walk(path)", self.inv1)}

    def globals(self):
        W = self.W

        def stat(ex, a, k, n):
            if ex.choose(2, "stat(root) raises") == 1:
                raise Raise(VExc("OSError"), "stat(root)")
            self.st0 = ex.fresh_term(W.StS, "st_root")
            return W.Stat.wrap(self.st0)

        def walk(ex, recv, a, k, n):
            ex.oblige("walk starts at the snapshot's root", W.Path.unwrap(a[0]) == self.root)
            self.out = ex.fresh(W.LPE, "walk_output")
            ex.assume(self.out.n >= 0)
            return self.out
        return {"DirectorySnapshot.walk": walk, "stat0": stat}

    def setup(self, ex):
        W = self.W
        self.me = VObj("DirectorySnapshot")
        self.root = ex.fresh_term(W.PS, "path")
        self.out = None
        stat = VOpaque("callable", lambda ex, a, k, n: ex._globals["stat0"](ex, a, k, n))
        return {"self": self.me, "path": W.Path.wrap(self.root), "recursive": VBool(ex.fresh_term(z3.BoolSort(), "recursive")), "stat": stat, "listdir": VOpaque("listdir")}

    def view(self, ex):
        return ex.heap[(self.me.id, "_stat_info")], ex.heap[(self.me.id, "_inode_to_path")]

    def key(self, s):
        W = self.W
        return W.Key.mk(W.st_ino(s), W.st_dev(s))

    def inv1(self, ex, k):
        W = self.W
        si, ip = self.view(ex)
        p, kk, j = z3.Const("sp", W.PS), z3.Const("sk", W.Key.sort), z3.Const("sj", z3.IntSort())
        op = lambda q: W.PE.proj[0](self.out.arr[q])
        ost = lambda q: W.PE.proj[1](self.out.arr[q])
        return [("paths = root + walked so far", z3.ForAll([p], si.dom[p] == z3.Or(p == self.root, z3.Exists([j], z3.And(j >= 0, j < k, op(j) == p))))),
                ("wf0: every inode maps to a path of the snapshot", z3.ForAll([kk], z3.Implies(ip.dom[kk], si.dom[ip.val[kk]]))),
                ("stat data as returned (last wins)", z3.ForAll([j], z3.Implies(z3.And(j >= 0, j < k), z3.Exists([z3.Const("sj2", z3.IntSort())], z3.And(z3.Const("sj2", z3.IntSort()) >= j, z3.Const("sj2", z3.IntSort()) < k, op(z3.Const("sj2", z3.IntSort())) == op(j), si.val[op(j)] == ost(z3.Const("sj2", z3.IntSort()))))))),
                ("root's stat data kept unless the walk reports the root again", z3.Or(z3.Exists([j], z3.And(j >= 0, j < k, op(j) == self.root)), si.val[self.root] == self.st0)),
                ("every walked entry's inode is recorded", z3.ForAll([j], z3.Implies(z3.And(j >= 0, j < k), ip.dom[self.key(ost(j))]))),
                ("the root's own inode is recorded (the diff looks every path's identity up in the index, the root included)", ip.dom[self.key(self.st0)])]

    def post(self, ex, result):
        W = self.W
        si, ip = self.view(ex)
        P, K, J = ex.fresh_term(W.PS, "P"), ex.fresh_term(W.Key.sort, "K"), ex.fresh_term(z3.IntSort(), "J")
        j = z3.Const("qj", z3.IntSort())
        op = lambda q: W.PE.proj[0](self.out.arr[q])
        ex.oblige("post[snapshot contains exactly the root and the walked entries]", si.dom[P] == z3.Or(P == self.root, z3.Exists([j], z3.And(j >= 0, j < self.out.n, op(j) == P))))
        ex.oblige("post[wf0: every inode maps to a path of the snapshot]", z3.Implies(ip.dom[K], si.dom[ip.val[K]]))
        ex.oblige("post[every walked entry is in the snapshot with an inode entry]", z3.Implies(z3.And(J >= 0, J < self.out.n), z3.And(si.dom[op(J)], ip.dom[self.key(W.PE.proj[1](self.out.arr[J]))])))
        ex.oblige("post[the root's own inode is in the index: every path of a snapshot can be found by its identity]", ip.dom[self.key(self.st0)])
        ex.oblige("post[root's stat data as returned]", z3.Or(z3.Exists([j], z3.And(j >= 0, j < self.out.n, op(j) == self.root)), si.val[self.root] == self.st0))

    def post_raise(self, ex, exc, site):
        ex.oblige("raises[only when the root itself cannot be stat'ed (the emitter reports the root as deleted)]", site == "stat(root)")


def make_specs():
    W = PWorld()
    SW = WalkWorld()
    out = [PollInit(W), PollQueueEvents(W), OnThreadStart(W), Walk(SW), SnapInit(SW)]
    # "exactly one event per entry of the difference": the difference itself is C09's contract, re-verified here
    from specs import c09
    W9 = c09.World()
    for mode in ("wf0", "laws"):
        d = c09.DiffInit(W9, mode)
        d.prop = PROP
        out.append(d)
    return out


def type_specs(prop):
    """C19, polling side: the walk yields join(root, entry.name) (type of the root given by the caller, E2) and the
    emitter hands the diff's paths to the event constructors unchanged"""
    a, b = Walk(WalkWorld(), prop), PollQueueEvents(PWorld())
    b.prop = prop
    return [a, b]


EXPECTED_CLAUSES = ["queue_events.post[files_deleted -> FileDeletedEvent", "queue_events.post[dirs_moved -> DirMovedEvent", "queue_events.post[root gone", "queue_events.post[the new snapshot becomes the baseline]",
                    "queue_events.post[stopped: no event", "on_thread_start.post[baseline", "walk.post[yields exactly", "walk.post[recursive: every yielded directory", "walk.post[non-recursive", "walk.post[listing failed",
                    "__init__.post[snapshot contains exactly", "__init__.post[wf0"]
CANARIES = [
    {"name": "created before deleted", "file": POLLING, "fn": "PollingEmitter.queue_events", "find": "            for src_path in events.files_deleted:\n                self.queue_event(FileDeletedEvent(src_path))\n            for src_path in events.files_modified:\n                self.queue_event(FileModifiedEvent(src_path))\n            for src_path in events.files_created:\n                self.queue_event(FileCreatedEvent(src_path))\n",
     "replace": "            for src_path in events.files_created:\n                self.queue_event(FileCreatedEvent(src_path))\n            for src_path in events.files_deleted:\n                self.queue_event(FileDeletedEvent(src_path))\n            for src_path in events.files_modified:\n                self.queue_event(FileModifiedEvent(src_path))\n"},
    {"name": "forget self._snapshot = new_snapshot", "file": POLLING, "fn": "PollingEmitter.queue_events", "find": "            self._snapshot = new_snapshot\n", "replace": ""},
    {"name": "drop errno.ENOTDIR from the tolerated set", "file": SNAP, "fn": "DirectorySnapshot.walk", "find": "(errno.ENOENT, errno.ENOTDIR, errno.EINVAL)", "replace": "(errno.ENOENT, errno.EINVAL)"},
    {"name": "non-recursive walk still descends", "file": SNAP, "fn": "DirectorySnapshot.walk", "find": "        if self.recursive:\n", "replace": "        if True:\n"},
]
TRUSTED = ["C09: DirectorySnapshotDiff(ref, snapshot) is used through its contract (eight lists)", "stat/listdir are arbitrary environment functions that may raise OSError at every call", "E2 os.path.join uninterpreted (typing: C19)",
           "the recursive call of walk is replaced by its own contract (measure: tree depth, assumed finite)", "E7 threading.Event.wait(timeout) returns whether the flag is set"]
ASSUMPTIONS = ["generator output = the yields in order; `yield from` splices the sub-walk's output at that point"]
UNDECIDED_PARTS = ["'a snapshot contains exactly the entries reachable at the time' is relative to what listdir/stat report at each call (no atomic view of a changing tree exists)"]
