"""C06 — no API call order deadlocks; stop()+join() always ends every library thread.
PARTIAL: necessary conditions only.  Termination itself (a liveness property of all interleavings) is NOT proved.

W1 wakers: for every blocking wait of a library thread the stop path performs its wake-up after setting the flag
   (BaseThread.stop, EventDispatcher.stop/__init__, BaseObserver.on_thread_stop, InotifyEmitter.on_thread_stop,
   InotifyBuffer.on_thread_stop/close, Inotify.close, DelayedQueue.close, PollingEmitter.queue_events,
   EventDebouncer.stop, ProcessWatcher.run) and none of these raises before the wake-ups are done;
W2 exit paths: each run() leaves its loop once the flag is set and its blocking call has returned;
W3 wait-predicate discipline at both condition-variable waits;
W4 lock levels: a declared partial order, checked on the lock-acquisition graph extracted from the real AST, and
   no join() of a thread under a lock that thread's run() may take."""
from __future__ import annotations
import ast
import z3
from pyvc.sym import *
from pyvc.engine import FnSpec, LoopSpec, Obligation, Raise
from pyvc import source
from specs import c05, c08, c10, c12, c17, c18, c04
from specs.inotify_read import IRWorld, Close as InoClose, ReadEvents

PROP = "C06"
GROUNDABLE = True
BATTERY = "c06_battery.py"
UTILS = "watchdog/utils/__init__.py"
API = "watchdog/observers/api.py"


class ThreadStop(FnSpec):
    relpath, qualname, prop = UTILS, "BaseThread.stop", PROP

    def __init__(self):
        self.world = None

    def globals(self):
        def ev_set(ex, recv, a, k, n):
            self.log.append("flag")
            return None

        def ots(ex, recv, a, k, n):
            self.log.append("on_thread_stop")
            return None
        def ev_is_set(ex, recv, a, k, n):
            # the flag may already be set on entry: stop() after an earlier stop() (any history of start/stop calls)
            if "flag" in self.log:
                return VBool(z3.BoolVal(True))
            return VBool(self.was_set)
        return {"event.set": ev_set, "event.is_set": ev_is_set, "BaseThread.on_thread_stop": ots}

    def setup(self, ex):
        self.me = VObj("BaseThread")
        self.log = []
        self.was_set = ex.fresh_term(z3.BoolSort(), "flag_already_set")
        ex.heap[(self.me.id, "_stopped_event")] = VOpaque("event")
        return {"self": self.me}

    def post(self, ex, result):
        ex.oblige("post[the stop flag is set BEFORE the thread-specific wake-up runs]", z3.Or(z3.BoolVal(self.log == ["flag", "on_thread_stop"]), z3.And(z3.BoolVal(self.log == ["on_thread_stop"]), self.was_set)))
        ex.oblige("post[every stop() runs the thread-specific release, also a repeated one: resources created by a start() after a stop() are released]", self.log.count("on_thread_stop") == 1)


class DispatcherStop(FnSpec):
    relpath, qualname, prop = API, "EventDispatcher.stop", PROP
    inline = {"EventDispatcher.event_queue"}

    def __init__(self):
        self.world = None

    def globals(self):
        def bstop(ex, recv, a, k, n):
            self.log.append("BaseThread.stop")
            return None

        def put_nowait(ex, recv, a, k, n):
            self.log.append(("put_nowait", a[0]))
            if ex.choose(2, "queue.Full") == 1:
                raise Raise(VExc("queue.Full"), "put_nowait()")
            return None
        # stop() may be called again on a thread that was already stopped (or that never ran): the flag is unknown
        keep = lambda ex, recv, a, k, n: VBool(ex.fresh_term(z3.BoolSort(), "should_keep_running"))
        alive = lambda ex, recv, a, k, n: VBool(ex.fresh_term(z3.BoolSort(), "is_alive"))
        return {"BaseThread.stop": bstop, "event_queue.put_nowait": put_nowait, "EventDispatcher.stop_event": VOpaque("stop_event"), "BaseThread.should_keep_running": keep,
                "EventDispatcher.should_keep_running": keep, "EventDispatcher.is_alive": alive, "BaseThread.is_alive": alive}

    def setup(self, ex):
        self.me = VObj("EventDispatcher")
        self.log = []
        ex.heap[(self.me.id, "_event_queue")] = VOpaque("event_queue")
        return {"self": self.me}

    def post(self, ex, result):
        ok = len(self.log) == 2 and self.log[0] == "BaseThread.stop" and self.log[1][0] == "put_nowait" and isinstance(self.log[1][1], VOpaque) and self.log[1][1].kind == "stop_event"
        ex.oblige("post[flag + emitters stopped first, then the stop sentinel is offered to the event queue (wakes the dispatcher blocked in get())]", bool(ok))
        ex.oblige("post[EVERY call of stop() runs the stop path - also on a dispatcher that was stopped before or that is not alive: watches scheduled since, and emitters started meanwhile, are torn down by it]",
                  bool(self.log and self.log[0] == "BaseThread.stop"))


class DispatcherInit(FnSpec):
    relpath, qualname, prop = API, "EventDispatcher.__init__", PROP

    def __init__(self):
        self.world = None

    def globals(self):
        def eq(ex, a, k, n):
            self.eq_args = (a, k)
            return VOpaque("event_queue")
        return {"EventQueue": eq, "BaseThread.__init__": lambda ex, recv, a, k, n: None}

    def setup(self, ex):
        self.me = VObj("EventDispatcher")
        self.eq_args = None
        return {"self": self.me, "timeout": VOpaque("timeout")}

    def post(self, ex, result):
        ex.oblige("post[the event queue is unbounded: put() never blocks an emitter, put_nowait(sentinel) never fails]", self.eq_args is not None and not self.eq_args[0] and not self.eq_args[1])
        q = ex.heap.get((self.me.id, "_event_queue"))
        ex.oblige("post[the event queue is created by this constructor call: every dispatcher has a queue of its own (an object built in a parameter default is shared by all instances - one observer would consume another's events)]",
                  isinstance(q, VOpaque) and q.kind == "event_queue" and not getattr(q, "deftime", False))


class RunLoop(FnSpec):
    """EventEmitter.run / EventDispatcher.run: the loop ends as soon as the flag is set and the one blocking call returned"""
    relpath, prop = API, PROP
    inline = {"BaseThread.should_keep_running", "EventEmitter.timeout", "EventDispatcher.event_queue"}

    def __init__(self, cls):
        self.cls = cls
        self.qualname = cls + ".run"
        self.world = None
        self.loops = {1: LoopSpec("self.should_keep_running()", self.inv, modifies=[("call", self.new_round)])}
        self.expected_covers = ["loop1.body", "loop1.end", "exit"]

    def new_round(self, ex):
        self.handler_raised = False

    def inv(self, ex, _):
        return [("exactly-once: an exception out of dispatch_events (a handler raised - the handlers after it were not served) is not swallowed by the dispatcher loop, which would go on as if the event had been delivered to everyone",
                 z3.BoolVal(not getattr(self, "handler_raised", False)))]

    def globals(self):
        def is_set(ex, recv, a, k, n):
            if getattr(self, "handler_raised", False):
                ex.oblige("exactly-once[an exception out of dispatch_events (a handler raised: the handlers after it were not served) is not swallowed by the dispatcher loop, which would go on as if the event had been delivered to everyone]", False)
            self.last_flag = ex.fresh_term(z3.BoolSort(), "stopped")
            self.checked_since_call = True
            return VBool(self.last_flag)

        def blocking(name):
            def h(ex, recv, a, k, n):
                # a thread that was told to stop before it ran (or between two rounds) must not do another round
                ex.oblige("round[the stop flag is looked at, and found clear, right before every round of work]",
                          z3.And(z3.BoolVal(bool(self.checked_since_call)), z3.Not(self.last_flag)) if self.last_flag is not None else False)
                self.checked_since_call = False
                self.calls.append(name)
                if name == "dispatch_events":
                    c = ex.choose(3, "dispatch_events: returns / queue.Empty / a handler's callback raised")
                    if c == 1:
                        raise Raise(VExc("queue.Empty"), "dispatch_events()")
                    if c == 2:
                        # user code raised half-way through the handler loop: the handlers after it have NOT been served
                        self.handler_raised = True
                        raise Raise(VExc("RuntimeError"), "dispatch_events(): a handler raised")
                return None
            return h
        return {"event.is_set": is_set, "EventEmitter.queue_events": blocking("queue_events"), "EventDispatcher.dispatch_events": blocking("dispatch_events")}

    def setup(self, ex):
        self.me = VObj(self.cls)
        self.calls = []
        self.last_flag = None
        self.checked_since_call = False
        self.handler_raised = False
        ex.heap[(self.me.id, "_stopped_event")] = VOpaque("event")
        ex.heap[(self.me.id, "_timeout")] = VOpaque("timeout")
        ex.heap[(self.me.id, "_event_queue")] = VOpaque("event_queue")
        return {"self": self.me}

    def post(self, ex, result):
        ex.oblige("post[run() returns exactly when the stop flag is seen set]", self.last_flag if self.last_flag is not None else False)
        ex.oblige("post[one blocking call per iteration, nothing else]", len(self.calls) <= 1)

    def post_raise(self, ex, exc, site):
        if getattr(self, "handler_raised", False) and exc.cls == "RuntimeError":
            return      # user code raised in the observer thread: the thread ends with it (outside the library; not swallowed)
        ex.oblige(f"no-uncaught[{exc.cls}@{site}] (the thread would die)", False, kind="exception")


# ------------------------------------------------------------------------------------------------ W4: lock levels
LOCKS = {  # (file, class) -> {field: lock name}
    ("watchdog/observers/api.py", "BaseObserver"): {"_lock": "observer"},
    ("watchdog/observers/inotify.py", "InotifyEmitter"): {"_lock": "emitter"},
    ("watchdog/observers/polling.py", "PollingEmitter"): {"_lock": "emitter"},
    ("watchdog/observers/inotify_c.py", "Inotify"): {"_lock": "inotify"},
    ("watchdog/utils/delayed_queue.py", "DelayedQueue"): {"_lock": "delayqueue", "_not_empty": "delayqueue"},
    ("watchdog/utils/event_debouncer.py", "EventDebouncer"): {"_cond": "debouncer"},
    ("watchdog/tricks/__init__.py", "AutoRestartTrick"): {"_stopping_lock": "trick"},
}
# declared partial order (smaller = acquired first); locks on one level are never nested
LEVEL = {"debouncer": 0, "trick": 1, "observer": 2, "emitter": 3, "inotify": 4, "delayqueue": 4, "queue-mutex": 5}
# what a call made while holding a lock may acquire (callee summaries, each justified by the callee's own spec)
CALLS_ACQUIRE = {
    "handler.dispatch": set(),            # user code: may re-enter the observer (RLock) - allowed by re-entrancy
    "emitter.stop": {"inotify", "delayqueue"}, "emitter.join": set(), "emitter.start": {"inotify"}, "self._clear_emitters": {"inotify", "delayqueue"}, "self._remove_emitter": {"inotify", "delayqueue"},
    "self.queue_event": {"queue-mutex"}, "self._inotify.read_event": {"delayqueue"}, "self._take_snapshot": set(), "self.stop": {"inotify", "delayqueue"},
    "self._add_watch": set(), "self._close_resources": set(), "self.events_callback": {"trick"}, "super().stop": set(), "event_queue.task_done": {"queue-mutex"},
}
# threads joined while a lock is held, and the locks their run() may take
JOINS = {("observer", "emitter thread"): {"emitter", "delayqueue", "queue-mutex", "inotify"}}


def lock_lemmas():
    out = []
    edges = []
    joins = []
    for (rel, cls), fields in LOCKS.items():
        try:
            m = source.module(rel)
        except Exception:
            continue
        node = m.classes.get(cls)
        if node is None:
            out.append(Obligation(f"lemma[lock table: class {cls} exists]", "lemma", [], z3.BoolVal(False), cls, "lock levels"))
            continue
        for fn in [s for s in node.body if isinstance(s, ast.FunctionDef)]:
            def visit(stmts, held):
                for st in stmts:
                    if isinstance(st, ast.With):
                        got = None
                        ce = st.items[0].context_expr
                        if isinstance(ce, ast.Attribute) and isinstance(ce.value, ast.Name) and ce.value.id == "self" and ce.attr in fields:
                            got = fields[ce.attr]
                        if got:
                            for h in held:
                                edges.append((h, got, f"{cls}.{fn.name}"))
                            visit(st.body, held + [got])
                            continue
                    for sub in ast.walk(st) if not isinstance(st, (ast.With, ast.For, ast.While, ast.If, ast.Try)) else []:
                        if isinstance(sub, ast.Call) and held and isinstance(sub.func, ast.Attribute) and sub.func.attr == "join" and not sub.args:
                            joins.append((tuple(held), ast.unparse(sub.func.value), f"{cls}.{fn.name}"))
                        if isinstance(sub, ast.Call) and held:
                            src = ast.unparse(sub.func)
                            for key, acq in CALLS_ACQUIRE.items():
                                if src == key or src.endswith("." + key.split(".")[-1]) and key.split(".")[0] in src:
                                    for a in acq:
                                        for h in held:
                                            edges.append((h, a, f"{cls}.{fn.name} -> {src}"))
                    for fld in ("body", "orelse", "finalbody"):
                        if hasattr(st, fld) and isinstance(getattr(st, fld), list) and not isinstance(st, ast.With):
                            visit(getattr(st, fld), held)
                    if isinstance(st, ast.Try):
                        for h in st.handlers:
                            visit(h.body, held)
            visit(fn.body, [])
    bad = [(a, b, w) for a, b, w in edges if a != b and not (LEVEL[a] < LEVEL[b])]
    out.append(Obligation("lemma[lock levels: every nested acquisition goes to a strictly higher level (observer < emitter < inotify/delay-queue < queue mutex; debouncer condition < trick stopping lock)]",
                          "lemma", [], z3.BoolVal(not bad), "; ".join(f"{a}->{b} in {w}" for a, b, w in bad[:4]), "lock levels"))
    out.append(Obligation("lemma[lock graph is not empty (the extraction still sees the with-statements)]", "lemma", [], z3.BoolVal(len(edges) >= 3), str(len(edges)), "lock levels"))
    # threads joined while a lock is held, read off the source: under the observer lock only emitters are joined (JOINS: their
    # bodies never take it); under the tricks' stopping lock and the debouncer's condition nothing is joined - the helper threads
    # (debouncer, process watcher) call back into code that takes the stopping lock, a join under it is a dead-lock
    badj = [(h, who, w) for hs, who, w in joins for h in hs if not (h == "observer" and "emitter" in who)]
    out.append(Obligation("lemma[join under lock: no thread is joined while a lock is held that the joined thread's own code may take (tricks: the helper threads' callbacks take the stopping lock)]",
                          "lemma", [], z3.BoolVal(not badj), "; ".join(f"{who}.join() under the {h} lock in {w}" for h, who, w in badj[:4]), "lock levels"))
    for (lock, who), takes in JOINS.items():
        out.append(Obligation(f"lemma[join under lock: the {who} joined while holding the {lock} lock never takes that lock]", "lemma", [], z3.BoolVal(lock not in takes), "", "lock levels"))
    return out


def lemmas():
    return lock_lemmas()


def make_specs():
    out = [ThreadStop(), DispatcherStop(), DispatcherInit(), RunLoop("EventEmitter"), RunLoop("EventDispatcher")]
    W = c04.DispatchWorld()
    for sp in (c05.OnThreadStop(W), c05.RemoveEmitter(W), c12.EmitterStop(), c12.BufSpec("on_thread_stop"), c12.BufSpec("close")):
        sp.prop = PROP
        out.append(sp)
    # W1 for the emitters of an observer: unschedule_all()/_clear_emitters tell EVERY registered emitter to stop, whether
    # or not its thread is alive yet (BaseObserver.start() starts them without the registry lock)
    from specs import c13
    for sp in c13.make_specs():
        # ... start(): an emitter whose start() failed is stopped and joined before start() re-raises (its helper threads may
        # already run); unschedule(): the emitter leaves the registry under the registry lock (a concurrent stop() iterates it)
        if sp.qualname in ("BaseObserver._clear_emitters", "BaseObserver.unschedule_all", "BaseObserver.start", "BaseObserver.unschedule"):
            out.append(_p(sp))
    IW = IRWorld()
    out += [InoClose(IW, PROP), ReadEvents(IW, PROP, want=("fds",))]
    DW = c17.World()
    out += [_p(c17.Close(DW)), _p(c17.Get(DW)), _p(c17.Put(DW))]
    out.append(_p(c10.PollQueueEvents(c10.PWorld())))
    DB = c18.DWorld()
    out += [_p(c18.Stop(DB)), _p(c18.Run(DB)), _p(c18.HandleEvent(DB)), _p(c18.PWRun())]
    out.append(c08.BufferRun(c08.GWorld(), PROP))
    return out


def _p(sp):
    sp.prop = PROP
    return sp


EXPECTED_CLAUSES = ["BaseThread.stop.post[the stop flag is set BEFORE", "EventDispatcher.stop.post[flag + emitters stopped first, then the stop sentinel", "EventDispatcher.__init__.post[the event queue is unbounded", "EventEmitter.run.post[run() returns exactly when",
                    "EventDispatcher.run.post[run() returns exactly when", "BaseObserver.on_thread_stop.post[stop()", "InotifyBuffer.close.post[stop flag", "Inotify.close.post[released now, or left to the reader",
                    "DelayedQueue.close.release[signalling", "DelayedQueue.get.wait-predicate[", "EventDebouncer.run.wait-predicate[", "PollingEmitter.queue_events.post[sleeps on the stop flag", "ProcessWatcher.run.blocks only in a timed wait",
                    "lemma[lock levels", "lemma[join under lock"]
CANARIES = [
    {"name": "EventDispatcher.stop without the sentinel", "file": API, "fn": "EventDispatcher.stop", "find": "        with contextlib.suppress(queue.Full):\n            self.event_queue.put_nowait(EventDispatcher.stop_event)\n", "replace": ""},
    {"name": "DelayedQueue.close without notify", "file": "watchdog/utils/delayed_queue.py", "fn": "DelayedQueue.close", "find": "        self._not_empty.notify()\n", "replace": ""},
    {"name": "InotifyBuffer.on_thread_stop without self._queue.close()", "file": "watchdog/observers/inotify_buffer.py", "fn": "InotifyBuffer.on_thread_stop", "find": "        self._queue.close()\n", "replace": ""},
]
TRUSTED = ["E6 an unbounded queue.Queue never blocks in put()", "E7 Condition/Event/join semantics", "E8 a byte written to the wake-up pipe makes poll() return", "callee lock summaries (CALLS_ACQUIRE) are read off the callee contracts",
           "fair scheduling (a runnable thread eventually runs)"]
ASSUMPTIONS = ["these are NECESSARY conditions for termination, each a safety obligation; sufficiency (no call blocks forever) is not proved by this family of technique"]
UNDECIDED_PARTS = ["TERMINATION ITSELF IS NOT PROVED: 'no call blocks forever' and 'join() returns' are liveness properties of all interleavings", "deadlocks through user code (handlers blocking on application locks) are outside the library"]
