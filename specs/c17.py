"""C17 — delay queue: FIFO, never early, loses or duplicates nothing; close() unblocks.

Rely/guarantee over DelayedQueue._lock.  Shared state = the deque and the closed flag plus ghost put-history
(index, insert time, delayed flag per element, gone set, position witness).  Every acquire / return from wait()
havocs the shared state under the lock invariant I and the rely R; every release / entry to wait() proves I.
Local variables survive; facts about shared state survive only through R."""
from __future__ import annotations
import z3
from pyvc.sym import *
from pyvc.engine import FnSpec, LoopSpec, Obligation, Raise
from pyvc import ground

PROP = "C17"
GROUNDABLE = True
BATTERY = "c17_battery.py"
FILE = "watchdog/utils/delayed_queue.py"
LOCK = "DelayedQueue._lock"


class World:
    def __init__(self):
        self.ES = ground.usort("Elem")
        self.Elem = TRef("Elem", self.ES)
        self.Entry = TTup(self.Elem, TReal, TBool)
        self.Q = TList(self.Entry)
        self.pred = z3.Function("predicate", self.ES, z3.BoolSort())
        self.user_eq = z3.Function("elem__eq__", self.ES, self.ES, z3.BoolSort())
        I, R, B = z3.IntSort(), z3.RealSort(), z3.BoolSort()
        self.ghost_sorts = {"pidx": z3.ArraySort(self.ES, I), "ptime": z3.ArraySort(self.ES, R), "pdel": z3.ArraySort(self.ES, B), "gone": z3.ArraySort(self.ES, B),
                            "pos": z3.ArraySort(self.ES, I), "nput": I, "now": R}

    def elem(self, q: VList, a):
        return self.Entry.proj[0](q.arr[a])

    def eq(self, ex, l, r):
        """`==` on elements is the elements' own __eq__ (InotifyEvent compares by key): reflexive, but distinct
        elements may compare equal - identity (`is`) is the sort's equality"""
        if isinstance(l, VRef) and isinstance(r, VRef) and l.ty is self.Elem and r.ty is self.Elem:
            return z3.Or(l.t == r.t, self.user_eq(l.t, r.t))
        return NotImplemented

    def is_(self, ex, l, r):
        if isinstance(l, VRef) and isinstance(r, VRef) and l.ty is self.Elem and r.ty is self.Elem:
            return l.t == r.t
        return NotImplemented

    def inv(self, st):
        q, g = st["q"], st
        a, b, e = z3.Const("ia", z3.IntSort()), z3.Const("ib", z3.IntSort()), z3.Const("ie", self.ES)
        el = lambda i: self.elem(q, i)
        return [
            ("sizes", z3.And(q.n >= 0, g["nput"] >= 0)),
            ("entries-are-un-gone-put-elements-with-their-recorded-time-and-flag",
             z3.ForAll([a], z3.Implies(z3.And(0 <= a, a < q.n), z3.And(0 <= g["pidx"][el(a)], g["pidx"][el(a)] < g["nput"], z3.Not(g["gone"][el(a)]),
                                                                          self.Entry.proj[1](q.arr[a]) == g["ptime"][el(a)], self.Entry.proj[2](q.arr[a]) == g["pdel"][el(a)],
                                                                          g["ptime"][el(a)] <= g["now"], g["pos"][el(a)] == a)))),
            ("put-order", z3.ForAll([a, b], z3.Implies(z3.And(0 <= a, a < b, b < q.n), g["pidx"][el(a)] < g["pidx"][el(b)]))),
            ("every-un-gone-put-element-is-queued", z3.ForAll([e], z3.Implies(z3.And(0 <= g["pidx"][e], g["pidx"][e] < g["nput"], z3.Not(g["gone"][e])),
                                                                               z3.And(0 <= g["pos"][e], g["pos"][e] < q.n, el(g["pos"][e]) == e)))),
            ("gone<=put", z3.ForAll([e], z3.And(z3.Or(g["pidx"][e] == -1, z3.And(0 <= g["pidx"][e], g["pidx"][e] < g["nput"])), z3.Implies(g["gone"][e], g["pidx"][e] >= 0)))),
        ]

    def rely(self, o, n):
        e = z3.Const("re", self.ES)
        return [z3.And(n["nput"] >= o["nput"], n["now"] >= o["now"], z3.Implies(o["closed"], n["closed"])),
                z3.ForAll([e], z3.Implies(o["pidx"][e] >= 0, z3.And(n["pidx"][e] == o["pidx"][e], n["ptime"][e] == o["ptime"][e], n["pdel"][e] == o["pdel"][e], z3.Implies(o["gone"][e], n["gone"][e])))),
                z3.ForAll([e], z3.Implies(o["pidx"][e] == -1, z3.Or(n["pidx"][e] == -1, n["pidx"][e] >= o["nput"])))]


class DQSpec(FnSpec):
    relpath, prop = FILE, PROP

    def __init__(self, W, name):
        self.W, self.world, self.name = W, W, name
        self.qualname = "DelayedQueue." + name

    # ---------------- shared state plumbing
    def new_object(self, ex):
        W = self.W
        self.me = VObj("DelayedQueue")
        H = ex.heap
        H[(self.me.id, "_lock")] = VOpaque("lock", LOCK)
        H[(self.me.id, "_not_empty")] = VOpaque("cond", LOCK)
        self.D = ex.fresh_term(z3.RealSort(), "delay_sec")
        ex.assume(self.D >= 0)
        H[(self.me.id, "delay_sec")] = VReal(self.D)
        self.g = {}
        self.fresh_shared(ex)
        self.sec_start = None
        self.notified = False

    def fresh_shared(self, ex):
        W = self.W
        ex.heap[(self.me.id, "_queue")] = ex.fresh(W.Q, "_queue")
        ex.heap[(self.me.id, "_closed")] = VBool(ex.fresh_term(z3.BoolSort(), "_closed"))
        for k, srt in W.ghost_sorts.items():
            self.g[k] = ex.fresh_term(srt, k)

    def st(self, ex):
        d = dict(self.g)
        d["q"] = ex.heap[(self.me.id, "_queue")]
        d["closed"] = ex.heap[(self.me.id, "_closed")].t if isinstance(ex.heap[(self.me.id, "_closed")], VBool) else z3.BoolVal(bool(ex.heap[(self.me.id, "_closed")]))
        return d

    def havoc(self, ex, with_inv=True):
        """what other threads may have done while we did not hold the lock"""
        old = self.st(ex)
        self.fresh_shared(ex)
        new = self.st(ex)
        if with_inv:
            for nm, f in self.W.inv(new):
                ex.assume(f)
        for f in self.W.rely(old, new):
            ex.assume(f)

    def acquire(self, ex):
        if LOCK in ex.held:
            ex.oblige("no-self-deadlock[non-reentrant lock acquired twice]", False, kind="lock")
        self.havoc(ex)
        ex.held.append(LOCK)
        self.sec_start = self.st(ex)
        self.notified = False

    def release(self, ex, where="release"):
        if LOCK not in ex.held:
            ex.oblige(f"release-of-a-held-lock[{where}]", False, kind="lock")
            return
        for nm, f in self.W.inv(self.st(ex)):
            ex.oblige(f"{where}[I:{nm}]", f, kind="lock-invariant")
        # guarantee ⊆ rely: what this section did is something the others' rely allows
        for i, f in enumerate(self.W.rely(self.sec_start, self.st(ex))):
            ex.oblige(f"{where}[guarantee within rely #{i}]", f, kind="guarantee")
        self.signalling(ex, where)
        ex.held.remove(LOCK)

    def signalling(self, ex, where):
        """every section that can turn the wait predicate P = (len>0 or closed) from false to true must notify"""
        o, n = self.sec_start, self.st(ex)
        P = lambda s: z3.Or(s["q"].n > 0, s["closed"])
        if not self.notified:
            ex.oblige(f"{where}[signalling: P made true => notify]", z3.Not(z3.And(z3.Not(P(o)), P(n))), kind="signalling")

    def on_with(self, ex, cv, node, entering):
        if isinstance(cv, VOpaque) and cv.kind in ("lock", "cond"):
            (self.acquire if entering else (lambda e: self.release(e, "with-exit")))(ex)
            return
        raise Unsupported("with")

    def on_field(self, ex, obj, field, write):
        if obj is not self.me or field not in ("_queue", "_closed"):
            return
        if LOCK in ex.held:
            return
        if field == "_closed" and write:
            return  # close(): the store itself is a one-instruction atomic section (handled in the Close spec)
        ex.oblige(f"lock-held[{'write' if write else 'read'} {field}]", False, kind="lock")

    def globals(self):
        def acq(ex, recv, a, k, n):
            self.acquire(ex)
            return True

        def rel(ex, recv, a, k, n):
            self.release(ex)
            return None

        def notify(ex, recv, a, k, n):
            ex.oblige("notify-with-lock-held", LOCK in ex.held, kind="lock")
            self.notified = True
            return None

        def wait(ex, recv, a, k, n):
            # wait() = release (others run) + re-acquire; it must sit in `while not P: wait()` (checked syntactically)
            ex.oblige("wait-with-lock-held", LOCK in ex.held, kind="lock")
            s0 = self.st(ex)
            if not (a or k):
                # W3 wait-predicate discipline: an untimed wait is entered only while P = (len > 0 or closed) is false
                ex.oblige("wait-predicate[untimed wait only while the queue is empty and not closed]", z3.And(s0["q"].n == 0, z3.Not(s0["closed"])), kind="signalling")
            for nm, f in self.W.inv(self.st(ex)):
                ex.oblige(f"wait-entry[I:{nm}]", f, kind="lock-invariant")
            self.havoc(ex)
            self.sec_start = self.st(ex)
            self.notified = False
            return True

        def now(ex, a, k, n):
            t = ex.fresh_term(z3.RealSort(), "t")
            ex.assume(t >= self.g["now"])
            self.g["now"] = t
            return VReal(t)

        return {"lock.acquire": acq, "lock.release": rel, "cond.acquire": acq, "cond.release": rel, "cond.notify": notify, "cond.wait": wait,
                "time.time": now, "time.sleep": lambda ex, a, k, n: None}

    def on_mutation(self, ex, root, op, node, new):
        """ghost updates that accompany the three deque mutations"""
        if root != "self._queue":
            return
        W, g = self.W, self.g
        e = z3.Const("me", W.ES)
        q_new = ex.heap[(self.me.id, "_queue")]
        if op == "append":
            x = W.elem(q_new, q_new.n - 1)
            old_n = q_new.n - 1
            ent = q_new.arr[old_n]
            g["pidx"] = z3.Store(g["pidx"], x, g["nput"])
            g["ptime"] = z3.Store(g["ptime"], x, W.Entry.proj[1](ent))
            g["pdel"] = z3.Store(g["pdel"], x, W.Entry.proj[2](ent))
            g["pos"] = z3.Store(g["pos"], x, old_n)
            g["nput"] = g["nput"] + 1
        elif op == "popleft":
            x = self._popped
            g["gone"] = z3.Store(g["gone"], x, True)
            npos = ex.fresh_term(W.ghost_sorts["pos"], "pos")
            ex.assume(z3.ForAll([e], npos[e] == g["pos"][e] - 1))
            g["pos"] = npos
        elif op == "del":
            cont, idx = new
            i = TInt.unwrap(idx)
            x = W.elem(cont, i)
            g["gone"] = z3.Store(g["gone"], x, True)
            npos = ex.fresh_term(W.ghost_sorts["pos"], "pos")
            ex.assume(z3.ForAll([e], npos[e] == z3.If(g["pos"][e] > i, g["pos"][e] - 1, g["pos"][e])))
            g["pos"] = npos
        else:
            raise Unsupported(f"unexpected mutation {op} of the deque")

    def calls(self):
        def popleft(ex, node):
            q = ex.heap[(self.me.id, "_queue")]
            self._popped = self.W.elem(q, 0)
            from pyvc import builtins_model
            return builtins_model.method(ex, q, "popleft", [], {}, node)
        return {"self._queue.popleft": popleft}


class Put(DQSpec):
    def __init__(self, W):
        super().__init__(W, "put")

    def setup(self, ex):
        W = self.W
        self.new_object(ex)
        self.x = ex.fresh_term(W.ES, "element")
        self.dl = ex.fresh_term(z3.BoolSort(), "delay")
        self.pre = self.st(ex)
        return {"self": self.me, "element": W.Elem.wrap(self.x), "delay": VBool(self.dl)}

    def acquire(self, ex):
        super().acquire(ex)
        # requires: elements are distinct objects, put at most once (the statement's 'every element')
        ex.assume(self.g["pidx"][self.x] == -1)
        self.at_acquire = self.st(ex)

    def post(self, ex, result):
        W = self.W
        ex.oblige("post[lock released]", LOCK not in ex.held)
        # the section appended exactly (element, time of insertion, delay) at the tail
        o, n = self.at_acquire, self.sec_end
        ex.oblige("post[appended at the tail]", z3.And(n["q"].n == o["q"].n + 1, W.elem(n["q"], o["q"].n) == self.x, W.Entry.proj[2](n["q"].arr[o["q"].n]) == self.dl))
        ex.oblige("post[insert time is the time of the put]", z3.And(W.Entry.proj[1](n["q"].arr[o["q"].n]) >= o["now"], W.Entry.proj[1](n["q"].arr[o["q"].n]) <= n["now"]))
        a = z3.Const("pa", z3.IntSort())
        ex.oblige("post[earlier entries untouched]", z3.ForAll([a], z3.Implies(z3.And(0 <= a, a < o["q"].n), n["q"].arr[a] == o["q"].arr[a])))

    def release(self, ex, where="release"):
        self.sec_end = self.st(ex)
        super().release(ex, where)


class Close(DQSpec):
    def __init__(self, W):
        super().__init__(W, "close")

    def setup(self, ex):
        self.new_object(ex)
        ex.assume(z3.BoolVal(True))
        for nm, f in self.W.inv(self.st(ex)):
            ex.assume(f)
        self.wrote = False
        self.wrote_before_notify = False
        return {"self": self.me}

    def on_field(self, ex, obj, field, write):
        if obj is self.me and field == "_closed" and write and LOCK not in ex.held:
            # one-instruction atomic section: the store is monotone (False->True) and keeps I (I does not mention closed)
            self.wrote = True
            return
        super().on_field(ex, obj, field, write)

    def signalling(self, ex, where):
        # P may have been made true by the unlocked store just before: this section must notify (ghost closer_pending)
        if self.notified:
            self.wrote_before_notify = self.wrote    # a waiter woken by this notify re-checks P: the flag must already be set
        if self.wrote:
            ex.oblige(f"{where}[signalling: close() notifies under the lock after setting the flag]", self.notified, kind="signalling")
        else:
            super().signalling(ex, where)

    def post(self, ex, result):
        c = ex.heap[(self.me.id, "_closed")]
        ex.oblige("post[closed flag set]", True if c is True else (c.t if isinstance(c, VBool) else False))
        ex.oblige("post[flag set before the notify section: a consumer woken by the notify finds the queue closed]", bool(self.wrote_before_notify))
        ex.oblige("post[lock released]", LOCK not in ex.held)


class Remove(DQSpec):
    def __init__(self, W):
        super().__init__(W, "remove")
        self.loops = {1: LoopSpec("enumerate(self._queue)", self.inv1)}
        self.expected_covers = ["loop1.body", "loop1.end", "exit"]

    def setup(self, ex):
        W = self.W
        self.new_object(ex)
        self.ret_state = None
        self.at_acquire = self.at_release = None
        def predicate(ex, a, k, n):
            # caller-supplied code: it may raise while looking at an element
            if ex.choose(2, "the predicate raises") == 1:
                raise Raise(VExc("RuntimeError"), "predicate()")
            return VBool(W.pred(W.Elem.unwrap(a[0])))
        return {"self": self.me, "predicate": VOpaque("callable", predicate)}

    def post_raise(self, ex, exc, site):
        # the predicate's exception reaches the caller - with the queue's lock released and the queue as it was (a lock left
        # held would block every later put / get / remove / close for ever)
        ex.oblige("raises[only the predicate's own exception]", exc.cls == "RuntimeError" and site == "predicate()")
        ex.oblige("raises[lock released]", LOCK not in ex.held)
        if self.at_acquire is not None:
            q = ex.heap[(self.me.id, "_queue")]
            ex.oblige("raises[queue untouched]", z3.And(q.n == self.at_acquire["q"].n, q.arr == self.at_acquire["q"].arr))

    def acquire(self, ex):
        super().acquire(ex)
        self.at_acquire = self.st(ex)

    def release(self, ex, where="release"):
        self.at_release = self.st(ex)
        super().release(ex, where)

    def inv1(self, ex, k):
        W = self.W
        j = z3.Const("rj", z3.IntSort())
        q = ex.heap[(self.me.id, "_queue")]
        if self.at_acquire is None:
            return [("the queue is scanned with its lock held", z3.BoolVal(False))]
        out = [("no-earlier-match", z3.ForAll([j], z3.Implies(z3.And(0 <= j, j < k), z3.Not(W.pred(W.elem(q, j)))))),
               ("queue-unchanged-while-scanning", z3.And(q.n == self.at_acquire["q"].n, q.arr == self.at_acquire["q"].arr))]
        return out

    def post(self, ex, result):
        W = self.W
        if self.at_acquire is None or self.at_release is None:
            ex.oblige("post[remove() is one critical section of the queue's lock]", False)
            return
        o, n = self.at_acquire, self.at_release
        j = z3.Const("pj", z3.IntSort())
        ex.oblige("post[lock released]", LOCK not in ex.held)
        if result is None:
            ex.oblige("post[None only if nothing queued matches]", z3.ForAll([j], z3.Implies(z3.And(0 <= j, j < o["q"].n), z3.Not(W.pred(W.elem(o["q"], j))))))
            ex.oblige("post[queue untouched]", z3.And(n["q"].n == o["q"].n, n["q"].arr == o["q"].arr))
            return
        x = W.Elem.unwrap(result)
        i = o["pos"][x]
        ex.oblige("post[returned element was queued, matches, and is the first match]", z3.And(0 <= i, i < o["q"].n, W.elem(o["q"], i) == x, W.pred(x), z3.ForAll([j], z3.Implies(z3.And(0 <= j, j < i), z3.Not(W.pred(W.elem(o["q"], j)))))))
        ex.oblige("post[handed out exactly once: not handed out before, never again]", z3.And(z3.Not(o["gone"][x]), n["gone"][x]))
        ex.oblige("post[the others keep their order]", z3.And(n["q"].n == o["q"].n - 1, z3.ForAll([j], z3.Implies(z3.And(0 <= j, j < n["q"].n), n["q"].arr[j] == z3.If(j < i, o["q"].arr[j], o["q"].arr[j + 1])))))


class Get(DQSpec):
    def __init__(self, W):
        super().__init__(W, "get")
        self.loops = {
            1: LoopSpec("True", self.inv_outer, no_end=False),
            2: LoopSpec("len(self._queue) == 0 and (not self._closed)", self.inv_wait, modifies=[("call", self.havoc_in_loop)]),
            3: LoopSpec("time_left > 0", self.inv_sleep, modifies=[("call", self.havoc_now)]),
        }
        self.expected_covers = ["loop1.body", "loop1.end", "loop2.body", "loop2.end", "loop3.body", "loop3.end"]

    def setup(self, ex):
        self.new_object(ex)
        self.ret = None
        self.a1 = None
        return {"self": self.me}

    def havoc_in_loop(self, ex):
        if LOCK in ex.held:
            self.havoc(ex)
            self.sec_start = self.st(ex)

    def havoc_now(self, ex):
        t = ex.fresh_term(z3.RealSort(), "now")
        ex.assume(t >= self.g["now"])
        self.g["now"] = t

    def inv_outer(self, ex, _):
        return [("lock-not-held-between-attempts", z3.BoolVal(LOCK not in ex.held))]

    def inv_wait(self, ex, _):
        out = [("lock-held-while-waiting", z3.BoolVal(LOCK in ex.held))]
        for nm, f in self.W.inv(self.st(ex)):
            out.append(("I:" + nm, f))
        return out

    def inv_sleep(self, ex, _):
        # time_left was computed from the head's recorded insert time and a clock reading not later than now
        sc = ex.scope.lookup("time_left")
        ins = ex.scope.lookup("insert_time")
        if sc is None or ins is None:
            return [("locals", z3.BoolVal(False))]
        tl = TReal.unwrap(sc.vars["time_left"])
        it = TReal.unwrap(ins.vars["insert_time"])
        return [("lock-not-held-while-sleeping", z3.BoolVal(LOCK not in ex.held)), ("time_left-bounds-the-remaining-delay", it + self.D - tl <= self.g["now"])]

    def acquire(self, ex):
        super().acquire(ex)
        self.at_acquire = self.st(ex)

    def release(self, ex, where="release"):
        st = self.st(ex)
        if self.a1 is None:
            self.a1 = (self.at_acquire, st)
        self.last_section = (self.at_acquire, st)
        super().release(ex, where)

    def post(self, ex, result):
        W = self.W
        ex.oblige("post[lock released]", LOCK not in ex.held)
        if result is None:
            o, n = self.last_section
            ex.oblige("post[None (end marker) only after close()]", n["closed"])
            return
        x = W.Elem.unwrap(result)
        o, n = self.last_section  # the popping section
        a = z3.Const("ga", z3.IntSort())
        ex.oblige("post[handed out exactly once: still queued (not removed meanwhile), gone afterwards]", z3.And(z3.Not(o["gone"][x]), n["gone"][x]))
        ex.oblige("post[FIFO: it was the oldest element remaining]", z3.And(o["q"].n > 0, W.elem(o["q"], 0) == x, z3.ForAll([a], z3.Implies(z3.And(0 <= a, a < n["q"].n), o["pidx"][x] < n["pidx"][W.elem(n["q"], a)]))))
        ex.oblige("post[never early: a delayed element leaves no earlier than insert time + delay]", z3.Implies(o["pdel"][x], n["now"] >= o["ptime"][x] + self.D))
        ex.oblige("post[the rest of the queue keeps its order]", z3.And(n["q"].n == o["q"].n - 1, z3.ForAll([a], z3.Implies(z3.And(0 <= a, a < n["q"].n), n["q"].arr[a] == o["q"].arr[a + 1]))))


class Init(DQSpec):
    def __init__(self, W):
        super().__init__(W, "__init__")

    def on_field(self, ex, obj, field, write):
        pass

    def globals(self):
        g = super().globals()
        g["threading.Lock"] = lambda ex, a, k, n: VOpaque("lock", LOCK)
        g["threading.Condition"] = lambda ex, a, k, n: VOpaque("cond", a[0].data if a and isinstance(a[0], VOpaque) else "a-lock-of-its-own")
        g["deque"] = lambda ex, a, k, n: self.W.Q.empty()
        return g

    var_types = {}

    def setup(self, ex):
        self.me = VObj("DelayedQueue")
        self.g = {}
        return {"self": self.me, "delay": VReal(ex.fresh_term(z3.RealSort(), "delay"))}

    def post(self, ex, result):
        H = ex.heap
        c = H.get((self.me.id, "_not_empty"))
        ex.oblige("post[_not_empty is a Condition on _lock (one lock protects the queue)]", isinstance(c, VOpaque) and c.kind == "cond" and c.data == LOCK)
        q = H.get((self.me.id, "_queue"))
        ex.oblige("post[queue empty]", isinstance(q, VList) and z3.is_true(z3.simplify(q.n == 0)))
        ex.oblige("post[not closed]", H.get((self.me.id, "_closed")) is False)


def make_specs():
    W = World()
    return [Init(W), Put(W), Close(W), Remove(W), Get(W)]


EXPECTED_CLAUSES = ["get.post[handed out exactly once", "get.post[FIFO", "get.post[never early", "get.post[None (end marker) only after close()]", "remove.post[handed out exactly once", "remove.post[returned element was queued",
                    "put.post[appended at the tail]", "close.release[signalling", "put.release[I:put-order]", "get.with-exit[I:every-un-gone-put-element-is-queued]", "__init__.post[_not_empty is a Condition on _lock"]
CANARIES = [
    {"name": "pop without the identity re-check", "file": FILE, "fn": "DelayedQueue.get", "find": "if len(self._queue) > 0 and self._queue[0][0] is head:", "replace": "if len(self._queue) > 0:"},
    {"name": "get ignores _closed", "file": FILE, "fn": "DelayedQueue.get", "find": "            if self._closed:\n                self._not_empty.release()\n                return None\n", "replace": ""},
    {"name": "remove without the lock", "file": FILE, "fn": "DelayedQueue.remove", "find": "        with self._lock:\n", "replace": "        if True:\n"},
    {"name": "sign of the delay test flipped (time_left < 0)", "file": FILE, "fn": "DelayedQueue.get", "find": "                while time_left > 0:", "replace": "                while time_left < 0:"},
    {"name": "close() without notify", "file": FILE, "fn": "DelayedQueue.close", "find": "        self._not_empty.notify()\n", "replace": ""},
]
TRUSTED = ["E7 threading.Lock mutual exclusion; Condition.wait releases and re-acquires atomically; Condition(lock) shares the lock", "time.time() is non-decreasing; clock values are reals (rounding ignored)",
           "CPython: a single attribute store (self._closed = True) is atomic", "collections.deque append/popleft/del/[0]/len as a list model (E5)"]
ASSUMPTIONS = ["elements put into the queue are distinct objects, each put at most once (ghost put-history index)", "rely: other threads only perform put/get/remove/close sections, i.e. keep the lock invariant and the rely R (each section's guarantee ⊆ R is proved)"]
UNDECIDED_PARTS = ["'after close() a blocked get() returns' is liveness: only the signalling discipline (flag set, then notify under the lock; wait guarded by its predicate) is proved"]
