"""The native-event -> normalized-event translation table of the inotify backend, written from the property
statements (C03, C07) and inotify(7) - NOT from inotify.py.  Used as the postcondition of
InotifyEmitter.queue_events (C03, C19) and to *compute* which kernel bits a filter class needs (C11)."""
from __future__ import annotations

# kernel ABI (inotify(7)); the code's own InotifyConstants are checked against these
ABI = {"IN_ACCESS": 0x1, "IN_MODIFY": 0x2, "IN_ATTRIB": 0x4, "IN_CLOSE_WRITE": 0x8, "IN_CLOSE_NOWRITE": 0x10, "IN_OPEN": 0x20, "IN_MOVED_FROM": 0x40, "IN_MOVED_TO": 0x80,
       "IN_CREATE": 0x100, "IN_DELETE": 0x200, "IN_DELETE_SELF": 0x400, "IN_MOVE_SELF": 0x800, "IN_UNMOUNT": 0x2000, "IN_Q_OVERFLOW": 0x4000, "IN_IGNORED": 0x8000, "IN_ISDIR": 0x40000000}
KINDS = [k for k in ABI if k != "IN_ISDIR"]
SPECIAL = {"IN_DONT_FOLLOW": 0x02000000}   # flags of inotify_add_watch that are not event bits
# the bits the library may ask the kernel for (user-space event bits)
REQUESTABLE = ["IN_MODIFY", "IN_ATTRIB", "IN_CLOSE_WRITE", "IN_CLOSE_NOWRITE", "IN_OPEN", "IN_MOVED_FROM", "IN_MOVED_TO", "IN_CREATE", "IN_DELETE", "IN_DELETE_SELF"]


def flavour(kind, isdir):
    # the kernel does not set IN_ISDIR for IN_DELETE_SELF / IN_MOVE_SELF: such events are about a watched directory
    return "Dir" if (isdir or kind in ("IN_DELETE_SELF", "IN_MOVE_SELF")) else "File"


def single(kind, isdir, full, recursive, is_root):
    """events for one unpaired native record; entries: (class, src, dest) with src/dest in
    {'path', 'parent', ''}; plus markers ('SUB_CREATED',) and ('STOP',)"""
    K = flavour(kind, isdir)
    d = K == "Dir"
    if kind == "IN_MOVED_TO":
        out = [(K + "MovedEvent", "", "path") if full else (K + "CreatedEvent", "path", "")]
        out.append(("DirModifiedEvent", "parent", ""))
        if d and recursive:
            out.append(("SUB_CREATED",))
        return out
    if kind in ("IN_ATTRIB", "IN_MODIFY"):
        return [(K + "ModifiedEvent", "path", "")]
    if kind == "IN_DELETE":
        return [(K + "DeletedEvent", "path", ""), ("DirModifiedEvent", "parent", "")]
    if kind == "IN_MOVED_FROM":
        return [(K + "MovedEvent", "path", "") if full else (K + "DeletedEvent", "path", ""), ("DirModifiedEvent", "parent", "")]
    if kind == "IN_CREATE":
        return [(K + "CreatedEvent", "path", ""), ("DirModifiedEvent", "parent", "")]
    if kind == "IN_DELETE_SELF":
        return [("DirDeletedEvent", "path", ""), ("STOP",)] if is_root else []
    if not d:
        if kind == "IN_OPEN":
            return [("FileOpenedEvent", "path", "")]
        if kind == "IN_CLOSE_WRITE":
            return [("FileClosedEvent", "path", ""), ("DirModifiedEvent", "parent", "")]
        if kind == "IN_CLOSE_NOWRITE":
            return [("FileClosedNoWriteEvent", "path", "")]
    return []


def pair(isdir, recursive):
    K = "Dir" if isdir else "File"
    out = [(K + "MovedEvent", "src", "dst"), ("DirModifiedEvent", "src_parent", ""), ("DirModifiedEvent", "dst_parent", "")]
    if isdir and recursive:
        out.append(("SUB_MOVED",))
    return out


def classes_from_bit(bit):
    """every event class some record carrying `bit` can give rise to (any flavour, normal or full emitter,
    alone or as half of a rename)"""
    out = set()
    for isdir in (False, True):
        for full in (False, True):
            for root in (False, True):
                for ent in single(bit, isdir, full, True, root):
                    if len(ent) == 3:
                        out.add(ent[0])
                    elif ent[0] == "SUB_CREATED":
                        out |= {"DirCreatedEvent", "FileCreatedEvent"}
        if bit in ("IN_MOVED_FROM", "IN_MOVED_TO"):
            for ent in pair(isdir, True):
                if len(ent) == 3:
                    out.add(ent[0])
                else:
                    out |= {"DirMovedEvent", "FileMovedEvent"}
    return out


def needs(cls, bit, recursive, is_subclass):
    """Does a watch filtered on `cls` need the kernel bit?  (i) the bit can yield an event that is an instance of
    cls; (ii) if one half of a rename is needed so is the other (an unpaired half is reported as a delete or a
    create the unfiltered stream does not contain); (iii) a recursive watch needs IN_CREATE / IN_MOVED_TO for its own
    bookkeeping (following directories that are created or arrive under a new name; since fix 26501cd a directory
    arriving by IN_MOVED_TO without a known source is re-watched, so IN_MOVED_FROM is an optimisation, not a need);
    (iv) IN_DELETE_SELF always."""
    def direct(b):
        return any(is_subclass(p, cls) for p in classes_from_bit(b))
    if bit == "IN_DELETE_SELF":
        return True
    if direct(bit):
        return True
    if bit in ("IN_MOVED_FROM", "IN_MOVED_TO") and (direct("IN_MOVED_FROM") or direct("IN_MOVED_TO")):
        return True
    if recursive and bit in ("IN_CREATE", "IN_MOVED_TO"):
        return True
    return False
