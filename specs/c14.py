"""C14 — synthetic events for a moved / newly arrived directory name every descendant once and correctly.

Contracts on generate_sub_moved_events and generate_sub_created_events (events.py).  Paths are SMT-LIB strings
(the source path rewrite is a string property).  os.walk / os.path.join are the assumed contracts E1 / E2.
The third anchor (the re-key block of Inotify.read_events) is a string lemma here and a region contract in C02."""
from __future__ import annotations
import z3
from pyvc.sym import *
from pyvc.engine import FnSpec, LoopSpec, Obligation
from pyvc import ground
from specs.common import EventWorld, StrWalk, str_join_term, plain_name, EVENTS

PROP = "C14"
GROUNDABLE = True
GROUND_SCOPES = (4,)   # the emitter's path world needs a path, its parent and their two byte encodings
BATTERY = "c14_battery.py"


class World:
    def __init__(self):
        self.S = TStr
        self.EW = EventWorld(TStr, tag="S")
        self.walk = StrWalk("str")
        self.LEv = TList(self.EW.Event)
        self.LLEv = TList(self.LEv)


class Gen(FnSpec):
    relpath, prop = EVENTS, PROP

    def __init__(self, W: World, which: str):
        self.W, self.world, self.which = W, W, which
        self.qualname = "generate_sub_moved_events" if which == "moved" else "generate_sub_created_events"
        g = [("ghost", "cur")]
        self.loops = {
            1: LoopSpec("os.walk(dest_dir_path)" if which == "moved" else "os.walk(src_dir_path)", self.inv_outer, modifies=[("ghost", "cur"), ("ghost", "blocks")],
                        ghost_start=self.g_start, ghost_end=self.g_end),
            2: LoopSpec("directories", self.inv_dirs, modifies=g, ghost_start=lambda ex, i, el=None: self.reveal(ex, i, True)),
            3: LoopSpec("filenames", self.inv_files, modifies=g, ghost_start=lambda ex, i, el=None: self.reveal(ex, i, False)),
        }

    # ---------------- environment contracts
    def globals(self):
        g = dict(self.W.EW.constructors(""))
        g["os.walk"] = self.h_walk
        g["os.path.join"] = self.h_join
        return g

    def h_walk(self, ex, args, kw, node):
        top = TStr.unwrap(args[0])
        ex.require("walk-arg-is-the-moved-directory", top == self.top)
        self.w = self.W.walk.walk(ex, top)
        return self.w

    def h_join(self, ex, args, kw, node):
        a, n = TStr.unwrap(args[0]), TStr.unwrap(args[1])
        F = ex.fresh_term(z3.StringSort(), "full")
        ex.assume(F == str_join_term(a, n))  # E2, definitional
        # staged string lemmas (each proved, then used): the joined path keeps the walked directory as prefix,
        # hence decomposes as top ++ T
        ex.lemma("joined-root-has-walked-prefix", z3.PrefixOf(self.top, a))
        ex.lemma("joined-name-is-plain", plain_name(n))
        ex.lemma("join-keeps-prefix", z3.PrefixOf(self.top, F), using=[z3.PrefixOf(self.top, a), plain_name(n), F == str_join_term(a, n)])
        T = ex.fresh_term(z3.StringSort(), "rel")  # the relative path, as a variable (keeps the later queries small)
        tdef = T == z3.SubString(F, z3.Length(self.top), z3.Length(F) - z3.Length(self.top))
        ex.assume(tdef)
        ex.lemma("prefix-decomposition", F == z3.Concat(self.top, T), using=[z3.PrefixOf(self.top, F), tdef])
        return VStr(F, "str")

    # ---------------- setup
    def setup(self, ex):
        W = self.W
        env = {}
        if self.which == "moved":
            self.src = ex.fresh_term(z3.StringSort(), "src")
            self.dst = ex.fresh_term(z3.StringSort(), "dst")
            self.top = self.dst
            env = {"src_dir_path": VStr(self.src), "dest_dir_path": VStr(self.dst)}
        else:
            self.src = None
            self.top = ex.fresh_term(z3.StringSort(), "dir")
            env = {"src_dir_path": VStr(self.top)}
        ex.ghost["cur"] = W.LEv.empty()
        ex.ghost["blocks"] = W.LLEv.empty()
        self.w = None
        return env

    # ---------------- the events the statement dictates
    # `expected` is kept opaque (an uninterpreted function) inside the invariants and revealed only for the entry
    # being processed and for the arbitrary entry of the postcondition: keeps the quantified queries string-free.
    def expected(self, root, name, is_dir):
        S = z3.StringSort()
        f = z3.Function(("expD_" if is_dir else "expF_") + self.which, S, S, self.W.EW.EvS)
        return f(root, name)

    def reveal(self, ex, i, is_dir, j=None):
        root, dirs, files = self.tri(self.k if j is None else j)
        name = (dirs if is_dir else files).arr[i]
        ex.assume(self.expected(root, name, is_dir) == self.expected_def(root, name, is_dir))

    def expected_def(self, root, name, is_dir):
        EW = self.W.EW
        full = str_join_term(root, name)
        if self.which == "moved":
            rel = z3.SubString(full, z3.Length(self.dst), z3.Length(full) - z3.Length(self.dst))
            old = z3.If(z3.Length(self.src) > 0, z3.Concat(self.src, rel), z3.StringVal(""))
            return EW.mk(EW.cls["DirMovedEvent" if is_dir else "FileMovedEvent"], old, full, z3.BoolVal(True))
        return EW.mk(EW.cls["DirCreatedEvent" if is_dir else "FileCreatedEvent"], full, z3.StringVal(""), z3.BoolVal(True))

    def tri(self, j):
        T = self.W.walk.Triple
        t = self.w.arr[j]
        return T.proj[0](t), self.W.walk.L.wrap(T.proj[1](t)), self.W.walk.L.wrap(T.proj[2](t))

    def block_ok(self, blk: VList, j):
        root, dirs, files = self.tri(j)
        i = z3.Const("bi", z3.IntSort())
        return z3.And(blk.n == dirs.n + files.n,
                      z3.ForAll([i], z3.Implies(z3.And(i >= 0, i < dirs.n), blk.arr[i] == self.expected(root, dirs.arr[i], True))),
                      z3.ForAll([i], z3.Implies(z3.And(i >= 0, i < files.n), blk.arr[dirs.n + i] == self.expected(root, files.arr[i], False))))

    # ---------------- invariants
    def inv_outer(self, ex, k):
        W = self.W
        bl = ex.ghost["blocks"]
        j = z3.Const("oj", z3.IntSort())
        return [("one-block-per-walked-directory", bl.n == k),
                ("blocks-as-dictated", z3.ForAll([j], z3.Implies(z3.And(j >= 0, j < k), self.block_ok(W.LEv.wrap(bl.arr[j]), j))))]

    def g_start(self, ex, k, el=None):
        self.k = k
        ex.ghost["cur"] = self.W.LEv.empty()

    def g_end(self, ex, k, el=None):
        bl, cur = ex.ghost["blocks"], ex.ghost["cur"]
        ex.ghost["blocks"] = VList(bl.n + 1, z3.Store(bl.arr, bl.n, self.W.LEv.unwrap(cur)), bl.ety)

    def _cur_root(self, ex):
        return self.tri(self.k)

    def inv_dirs(self, ex, i):
        root, dirs, files = self._cur_root(ex)
        cur = ex.ghost["cur"]
        t = z3.Const("t", z3.IntSort())
        return [("count", cur.n == i), ("dir-events", z3.ForAll([t], z3.Implies(z3.And(t >= 0, t < i), cur.arr[t] == self.expected(root, dirs.arr[t], True))))]

    def inv_files(self, ex, i):
        root, dirs, files = self._cur_root(ex)
        cur = ex.ghost["cur"]
        t = z3.Const("t", z3.IntSort())
        return [("count", cur.n == dirs.n + i),
                ("dir-events", z3.ForAll([t], z3.Implies(z3.And(t >= 0, t < dirs.n), cur.arr[t] == self.expected(root, dirs.arr[t], True)))),
                ("file-events", z3.ForAll([t], z3.Implies(z3.And(t >= 0, t < i), cur.arr[dirs.n + t] == self.expected(root, files.arr[t], False))))]

    def on_yield(self, ex, value):
        ex.emit("cur", value)

    # ---------------- postcondition (statement): one event per walked entry, in walk order, as dictated
    def post(self, ex, result):
        if self.w is None:
            ex.oblige("post[walks-the-directory]", False)
            return
        bl = ex.ghost["blocks"]
        J, I = ex.fresh_term(z3.IntSort(), "J"), ex.fresh_term(z3.IntSort(), "I")
        ex.oblige("post[one-block-per-walked-directory-in-walk-order]", bl.n == self.w.n)
        ex.assume(z3.And(J >= 0, J < self.w.n))
        root, dirs, files = self.tri(J)
        blk = self.W.LEv.wrap(bl.arr[J])
        # reveal the definition of `expected` at the arbitrary entry (an instance of its defining axiom)
        ex.assume(self.expected(root, dirs.arr[I], True) == self.expected_def(root, dirs.arr[I], True))
        ex.assume(self.expected(root, files.arr[I], False) == self.expected_def(root, files.arr[I], False))
        ex.oblige("post[one-event-per-entry-of-each-walked-directory]", blk.n == dirs.n + files.n)
        ex.oblige("post[directory-entries-first-each-as-dictated]", z3.Implies(z3.And(I >= 0, I < dirs.n), blk.arr[I] == self.expected_def(root, dirs.arr[I], True)))
        ex.oblige("post[file-entries-each-as-dictated]", z3.Implies(z3.And(I >= 0, I < files.n), blk.arr[dirs.n + I] == self.expected_def(root, files.arr[I], False)))


def make_specs():
    W = World()
    out = [Gen(W, "moved"), Gen(W, "created")]
    # the property's third anchor: the same prefix rewrite in the watch-path map of Inotify.read_events (C02's contracts:
    # per-record map contract, re-key loop invariant, the event handed on carries the current path of its descriptor)
    from specs import c02
    for sp in c02.make_specs():
        sp.prop = PROP
        out.append(sp)
    return out


def lemmas():
    """String lemmas behind E1's 'every root has top as prefix' (induction step) and the watch-map re-key of
    Inotify.read_events: a key below the renamed directory is rewritten by prefix substitution only."""
    S = z3.StringSort()
    top, a, n = z3.Consts("top a n", S)
    k, ms, new, sep = z3.Consts("k ms new sep", S)
    out = [Obligation("lemma[E1-step: join keeps the walked prefix]", "lemma", [z3.PrefixOf(top, a), plain_name(n)], z3.PrefixOf(top, str_join_term(a, n)), "", "os.walk")]
    from specs.inotify_read import string_lemmas
    return out + string_lemmas()


EXPECTED_CLAUSES = ["post[directory-entries-first", "post[file-entries-each", "post[one-event-per-entry", "post[one-block", "loop2.preserved[dir-events]", "loop3.preserved[file-events]", "lemma[prefix-decomposition]"]
CANARIES = [
    {"name": "replace(a, b, 1) -> replace(a, b)", "file": EVENTS, "fn": "generate_sub_moved_events", "find": "full_path.replace(dest_dir_path, src_dir_path, 1)", "replace": "full_path.replace(dest_dir_path, src_dir_path)"},
    {"name": "is_synthetic=False", "file": EVENTS, "fn": "generate_sub_created_events", "find": "yield DirCreatedEvent(full_path, is_synthetic=True)", "replace": "yield DirCreatedEvent(full_path, is_synthetic=False)"},
    {"name": "files yielded with the directory class", "file": EVENTS, "fn": "generate_sub_moved_events", "find": "yield FileMovedEvent(renamed_path, full_path, is_synthetic=True)", "replace": "yield DirMovedEvent(renamed_path, full_path, is_synthetic=True)"},
]
TRUSTED = ["E1 os.walk(top) top-down: list of (root, dirs, files); names are non-empty without separator; every root has `top` as prefix (induction over 'root = join(earlier root, d)'; the step is proved as a lemma, the induction principle is assumed)",
           "E2 os.path.join on POSIX for a plain name", "E10 dataclass constructor of the event classes stores its arguments (src_path, dest_path, is_synthetic)",
           "Python str.replace(a,b,1) = SMT-LIB str.replace; str.replace(a,b) = str.replace_all; slicing = str.substr"]
ASSUMPTIONS = ["generator output = concatenation, in order, of what is yielded during each outer iteration (ghost `blocks`)", "bytes paths behave like str paths (same model, Latin-1 view)"]
UNDECIDED_PARTS = ["that os.walk lists exactly the real descendants is the trusted contract E1, not proved"]
