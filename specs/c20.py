"""C20 — Windows / macOS translation layers and the two binary buffer decoders (partial).

Decided: (a) Inotify._parse_event_buffer decodes exactly the encoded records (all record counts, name lengths,
paddings) by loop invariant; (b) winapi._parse_event_buffer likewise over NextEntryOffset/FileNameLength with the
ctypes reads modelled by E4 (the module is parsed, never imported); (c) WindowsApiEmitter.queue_events: per
native record, the events appended equal the action table (rename pairing with the last OLD_NAME of the batch,
sub-events only when recursive, REMOVED_SELF => DirDeletedEvent(root) + stop); (d) FSEventsEmitter.queue_event /
_is_recursive_event: a non-recursive watch queues nothing below the root's direct children.
Not applicable inside C20: FSEventsEmitter.queue_events (correctness relative to Apple's flag coalescing)."""
from __future__ import annotations
import z3
from pyvc.sym import *
from pyvc.engine import FnSpec, LoopSpec, Obligation, Raise
from pyvc import ground
from specs.common import EventWorld

PROP = "C20"
GROUNDABLE = True
BATTERY = "c20_battery.py"
INOTIFY_C = "watchdog/observers/inotify_c.py"
WINAPI = "watchdog/observers/winapi.py"
RDC = "watchdog/observers/read_directory_changes.py"
FSE = "watchdog/observers/fsevents.py"


# ------------------------------------------------------------------------------------------------ byte buffers
class BufWorld:
    """one immutable byte buffer `mem` (Array Int -> Int); bytes values are views (start, length) into it"""

    def __init__(self):
        I = z3.IntSort()
        self.mem = z3.Const("buffer_bytes", z3.ArraySort(I, I))
        self.ViewTT = TTup(TInt, TInt, name="BytesView")
        self.View = TRef("BytesView", self.ViewTT.sort, methods={"rstrip": self.m_rstrip, "decode": self.m_decode})
        self.i32 = z3.Function("le_i32", I, I)   # little-endian decoders at an absolute offset of `mem` (E4)
        self.u32 = z3.Function("le_u32", I, I)
        self.utf16 = z3.Function("utf16_decode", I, I, ground.usort("WinName"))
        self.Name = TRef("WinName", ground.usort("WinName"))

    def view(self, start, n):
        return self.View.wrap(self.ViewTT.mk(start, n))

    def vstart(self, v):
        return self.ViewTT.proj[0](v.t)

    def vlen(self, v):
        return self.ViewTT.proj[1](v.t)

    def len(self, ex, v):
        if isinstance(v, VRef) and v.ty is self.View:
            return VInt(self.vlen(v))
        raise Unsupported("len")

    def slice(self, ex, cont, lo, hi, node):
        if not (isinstance(cont, VRef) and cont.ty is self.View):
            return NotImplemented
        n, s = self.vlen(cont), self.vstart(cont)
        a = TInt.unwrap(lo) if lo is not None else z3.IntVal(0)
        b = TInt.unwrap(hi) if hi is not None else n
        ex.oblige(f"slice-nonneg[{ex.site(node)}]", z3.And(a >= 0, b >= 0), kind="safety")
        a2 = z3.If(a > n, n, a)
        b2 = z3.If(b > n, n, b)
        return self.view(s + a2, z3.If(b2 - a2 > 0, b2 - a2, 0))

    def m_rstrip(self, ex, r, args, kw, node):
        """bytes.rstrip(b"\\0") by its characteristic property: the longest prefix not ending in a NUL"""
        if args != [b"\0"]:
            raise Unsupported("rstrip of something else")
        s, n = self.vstart(r), self.vlen(r)
        m = ex.fresh_term(z3.IntSort(), "stripped_len")
        j = z3.Const("rs", z3.IntSort())
        ex.assume(z3.And(0 <= m, m <= n, z3.Or(m == 0, self.mem[s + m - 1] != 0), z3.ForAll([j], z3.Implies(z3.And(m <= j, j < n), self.mem[s + j] == 0))))
        return self.view(s, m)

    def m_decode(self, ex, r, args, kw, node):
        if args != ["utf-16"]:
            raise Unsupported("decode of another codec")
        return self.Name.wrap(self.utf16(self.vstart(r), self.vlen(r)))


class InotifyParse(FnSpec):
    relpath, qualname, prop = INOTIFY_C, "Inotify._parse_event_buffer", PROP
    var_types = {"i": TInt}

    def __init__(self, W):
        self.W, self.world = W, W
        self.loops = {1: LoopSpec("i + 16 <= len(event_buffer)", self.inv, modifies=[("ghost", "out"), ("call", self.havoc_k)])}
        self.Rec = TTup(TInt, TInt, TInt, W.View)
        self.LRec = TList(self.Rec)

    def globals(self):
        W = self.W

        def unpack(ex, a, k, n):
            if a[0] != "iIII":
                raise Unsupported("struct format")
            buf, off = a[1], TInt.unwrap(a[2])
            ex.oblige("no-struct.error[16 bytes available at the offset]", z3.And(off >= 0, off + 16 <= W.vlen(buf)), kind="safety")
            b = W.vstart(buf) + off
            return VTuple([VInt(W.i32(b)), VInt(W.u32(b + 4)), VInt(W.u32(b + 8)), VInt(W.u32(b + 12))])
        return {"struct.unpack_from": unpack}

    def havoc_k(self, ex):
        self.kk = ex.fresh_term(z3.IntSort(), "records_decoded")

    # E8 layout: record k starts at off(k); header 16 bytes; len_k bytes of name + NUL padding
    def setup(self, ex):
        W = self.W
        I = z3.IntSort()
        self.N = ex.fresh_term(I, "N")
        self.off = z3.Function("rec_off", I, I)
        self.nl = z3.Function("name_len", I, I)
        self.n = ex.fresh_term(I, "buffer_len")
        k, j, a, b = z3.Consts("ek ej ea eb", I)
        lenk = lambda q: W.u32(self.off(q) + 12)
        ex.assume(z3.And(self.N >= 0, self.off(0) == 0, self.off(self.N) == self.n))
        ex.assume(z3.ForAll([k], z3.Implies(z3.And(0 <= k, k < self.N), z3.And(self.off(k + 1) == self.off(k) + 16 + lenk(k), lenk(k) >= 0, 0 <= self.nl(k), self.nl(k) <= lenk(k)))))
        # names contain no NUL, the padding is NUL
        self.layout_fact = z3.ForAll([k, j], z3.Implies(z3.And(0 <= k, k < self.N, 0 <= j, j < lenk(k)), (W.mem[self.off(k) + 16 + j] != 0) == (j < self.nl(k))))
        ex.assume(self.layout_fact)
        # offsets are monotone (induction over the recurrence above; the induction principle is assumed)
        ex.assume(z3.ForAll([a, b], z3.Implies(z3.And(0 <= a, a <= b, b <= self.N), self.off(a) <= self.off(b))))
        self.kk = z3.IntVal(0)
        ex.ghost["out"] = self.LRec.empty()
        return {"event_buffer": W.view(z3.IntVal(0), self.n)}

    def rec(self, k):
        W = self.W
        o = self.off(k)
        return self.Rec.mk(W.i32(o), W.u32(o + 4), W.u32(o + 8), W.ViewTT.mk(o + 16, self.nl(k)))

    def inv(self, ex, _):
        out = ex.ghost["out"]
        i = TInt.unwrap(ex.scope.lookup("i").vars["i"])
        j = z3.Const("ij", z3.IntSort())
        return [("at-a-record-boundary", z3.And(0 <= self.kk, self.kk <= self.N, i == self.off(self.kk))),
                ("decoded-so-far", z3.And(out.n == self.kk, z3.ForAll([j], z3.Implies(z3.And(0 <= j, j < self.kk), out.arr[j] == self.rec(j)))))]

    def on_yield(self, ex, value):
        W = self.W
        # explicit instantiations for the rstrip / layout quantifiers (each proved, then used in a small query)
        name = value.items[3] if isinstance(value, VTuple) and len(value.items) == 4 else None
        if isinstance(name, VRef) and name.ty is W.View:
            k = self.kk
            s, m = W.vstart(name), W.vlen(name)
            o = self.off(k)
            ln = W.u32(o + 12)
            lay = lambda j: z3.Implies(z3.And(0 <= j, j < ln), (W.mem[o + 16 + j] != 0) == (j < self.nl(k)))
            facts = []
            for nm, f in (("record-inside-buffer", o + 16 + ln <= self.n), ("name-view-starts-after-the-header", s == o + 16), ("name-bounds", z3.And(0 <= self.nl(k), self.nl(k) <= ln, ln >= 0, 0 <= m, m <= ln)),
                          ("stripped-name-does-not-end-in-NUL", z3.Or(m == 0, W.mem[s + m - 1] != 0)), ("byte-after-the-stripped-name-is-NUL", z3.Implies(m < ln, W.mem[s + m] == 0)),
                          ("layout-at-m-1", lay(m - 1)), ("layout-at-m", lay(m))):
                ex.lemma("decode:" + nm, f, using=([self.layout_fact, z3.And(0 <= k, k < self.N)] if nm.startswith("layout") else None))
                facts.append(f)
            ex.lemma("decode:rstrip gives exactly the name without its NUL padding", m == self.nl(k), using=facts)
        ex.emit("out", value)
        self.kk = self.kk + 1

    def post(self, ex, result):
        out = ex.ghost["out"]
        J = ex.fresh_term(z3.IntSort(), "J")
        ex.oblige("post[every encoded record is decoded: count]", out.n == self.N)
        ex.oblige("post[decoded records are exactly the encoded ones, in order (wd, mask, cookie, name without padding)]", z3.Implies(z3.And(0 <= J, J < self.N), out.arr[J] == self.rec(J)))


class WinParse(FnSpec):
    relpath, qualname, prop = WINAPI, "_parse_event_buffer", PROP
    var_types = {"n_bytes": TInt}

    def __init__(self, W):
        self.W, self.world = W, W
        self.Rec = TTup(TInt, W.Name)
        self.LRec = TList(self.Rec)
        self.var_types = {"n_bytes": TInt, "results": self.LRec, "read_buffer": W.View}
        self.loops = {1: LoopSpec("n_bytes > 0", self.inv, modifies=[("call", self.havoc_k)])}

    def havoc_k(self, ex):
        self.kk = ex.fresh_term(z3.IntSort(), "records_decoded")
        self.done = ex.fresh_term(z3.BoolSort(), "last_record_seen")

    def globals(self):
        W = self.W
        # E4: FILE_NOTIFY_INFORMATION { DWORD NextEntryOffset; DWORD Action; DWORD FileNameLength; WCHAR FileName[1]; }
        Fni = TRef("FNI", z3.IntSort(), attrs={"NextEntryOffset": lambda ex, r: VInt(W.u32(r.t)), "Action": lambda ex, r: VInt(W.u32(r.t + 4)), "FileNameLength": lambda ex, r: VInt(W.u32(r.t + 8))})

        def cast(ex, a, k, n):
            return VOpaque("fni_array", W.vstart(a[0]))

        def addressof(ex, a, k, n):
            return VInt(a[0].t)

        def string_at(ex, a, k, n):
            return W.view(TInt.unwrap(a[0]), TInt.unwrap(a[1]))
        self.Fni = Fni
        return {"ctypes.cast": cast, "ctypes.addressof": addressof, "ctypes.string_at": string_at, "LPFNI": VOpaque("LPFNI"),
                "FileNotifyInformation.FileName.offset": 12, "FileNotifyInformation": VGlobal("FileNotifyInformation")}

    def setup(self, ex):
        W = self.W
        I = z3.IntSort()
        self.N = ex.fresh_term(I, "N")
        self.off = z3.Function("win_off", I, I)
        self.total = ex.fresh_term(I, "n_bytes")
        k, a, b = z3.Consts("wk wa wb", I)
        nxt = lambda q: W.u32(self.off(q))
        ex.assume(z3.And(self.N >= 1, self.off(0) == 0, self.total > 0))
        # documented layout: NextEntryOffset > 0 links to the next record, 0 marks the last one; all inside n_bytes
        ex.assume(z3.ForAll([k], z3.Implies(z3.And(0 <= k, k < self.N - 1), z3.And(nxt(k) > 0, self.off(k + 1) == self.off(k) + nxt(k)))))
        ex.assume(z3.And(nxt(self.N - 1) == 0))
        ex.assume(z3.ForAll([k], z3.Implies(z3.And(0 <= k, k < self.N), self.off(k) < self.total)))
        self.kk, self.done = z3.IntVal(0), z3.BoolVal(False)
        self.cap = ex.fresh_term(I, "buffer_capacity")
        ex.assume(self.cap >= self.total)
        x = z3.Const("ux", I)
        ex.assume(z3.ForAll([x], W.u32(x) >= 0))
        return {"read_buffer": W.view(z3.IntVal(0), self.cap), "n_bytes": VInt(self.total)}

    def rec(self, k):
        W = self.W
        o = self.off(k)
        return self.Rec.mk(W.u32(o + 4), W.utf16(o + 12, W.u32(o + 8)))

    def inv(self, ex, _):
        W = self.W
        res = ex.scope.lookup("results").vars["results"]
        rb = ex.scope.lookup("read_buffer").vars["read_buffer"]
        nb = TInt.unwrap(ex.scope.lookup("n_bytes").vars["n_bytes"])
        j = z3.Const("wj", z3.IntSort())
        return [("at-a-record-boundary", z3.And(0 <= self.kk, self.kk < self.N, W.vstart(rb) == self.off(self.kk), W.vlen(rb) == self.cap - self.off(self.kk), nb == self.total - self.off(self.kk))),
                ("decoded-so-far", z3.And(res.n == self.kk, z3.ForAll([j], z3.Implies(z3.And(0 <= j, j < self.kk), res.arr[j] == self.rec(j)))))]

    def on_mutation(self, ex, root, op, node, new):
        if root == "results" and op == "append":
            self.kk = self.kk + 1

    def post(self, ex, result):
        J = ex.fresh_term(z3.IntSort(), "J")
        if not isinstance(result, VList):
            ex.oblige("post[returns the list of records]", False)
            return
        ex.oblige("post[every encoded record is decoded: count]", result.n == self.N)
        ex.oblige("post[decoded records are exactly the encoded ones, in order (action, utf-16 name of FileNameLength bytes)]", z3.Implies(z3.And(0 <= J, J < self.N), result.arr[J] == self.rec(J)))


class WinBufWorld(BufWorld):
    def load_item(self, ex, cont, idx, node):
        if isinstance(cont, VOpaque) and cont.kind == "fni_array" and idx == 0:
            return ex.spec.Fni.wrap(cont.data)
        return NotImplemented


# ------------------------------------------------------------------------------------------------ Windows table
ACTIONS = {"FILE_ACTION_ADDED": 1, "FILE_ACTION_REMOVED": 2, "FILE_ACTION_MODIFIED": 3, "FILE_ACTION_RENAMED_OLD_NAME": 4, "FILE_ACTION_RENAMED_NEW_NAME": 5}


class WinWorld:
    def __init__(self):
        self.PS = ground.usort("WinPath")
        self.nonempty = z3.Function("winpath_nonempty", self.PS, z3.BoolSort())
        self.empty = z3.Const("winpath_empty", self.PS)

        class PT(TRef):
            def unwrap(s, v):
                if isinstance(v, str) and v == "":
                    return self.empty
                return TRef.unwrap(s, v)
        self.Path = PT("WinPath", self.PS, truthy=lambda t: self.nonempty(t))
        self.EW = EventWorld(self.Path, tag="W")
        self.LEv = TList(self.EW.Event)
        self.join = z3.Function("win_join", self.PS, self.PS, self.PS)
        self.isdir = z3.Function("os_path_isdir", self.PS, z3.BoolSort())
        self.NatTT = TTup(TInt, self.Path, name="WinNative")
        attrs = {"src_path": lambda ex, r: self.Path.wrap(self.NatTT.proj[1](r.t)), "action": lambda ex, r: VInt(self.NatTT.proj[0](r.t))}
        for nm in ("is_added", "is_removed", "is_modified", "is_renamed_old", "is_renamed_new", "is_removed_self"):
            attrs[nm] = (lambda ex, r, nm=nm: ex.getattr(self.as_obj(ex, r), nm))  # the real property bodies of WinAPINativeEvent are executed
        self.Nat = TRef("WinNative", self.NatTT.sort, attrs=attrs)
        self.LNat = TList(self.Nat)


def _as_obj(self, ex, r):
    o = VObj("WinAPINativeEvent")
    ex.heap[(o.id, "action")] = VInt(self.NatTT.proj[0](r.t))
    ex.heap[(o.id, "src_path")] = self.Path.wrap(self.NatTT.proj[1](r.t))
    return o


WinWorld.as_obj = _as_obj


class WinQueueEvents(FnSpec):
    """per-record region contract: the events appended while processing one native record"""
    relpath, qualname, prop = RDC, "WindowsApiEmitter.queue_events", PROP
    inline = {"EventEmitter.watch", "ObservedWatch.path", "ObservedWatch.is_recursive", "WinAPINativeEvent.is_added", "WinAPINativeEvent.is_removed", "WinAPINativeEvent.is_modified",
              "WinAPINativeEvent.is_renamed_old", "WinAPINativeEvent.is_renamed_new", "WinAPINativeEvent.is_removed_self"}
    var_types = {}

    def __init__(self, W):
        self.W, self.world = W, W
        self.var_types = {"last_renamed_src_path": W.Path}
        self.loops = {1: LoopSpec("winapi_events", self.inv_main, modifies=[("ghost", "out")], ghost_start=self.gs, ghost_end=self.ge),
                      2: LoopSpec("generate_sub_moved_events(src_path, dest_path)", self.inv_sub, modifies=[("ghost", "out")]),
                      3: LoopSpec("generate_sub_created_events(src_path)", self.inv_sub, modifies=[("ghost", "out")])}

    def globals(self):
        W = self.W
        g = dict(W.EW.constructors(""))
        consts = {"FILE_ACTION_ADDED": 1, "FILE_ACTION_REMOVED": 2, "FILE_ACTION_MODIFIED": 3, "FILE_ACTION_RENAMED_OLD_NAME": 4, "FILE_ACTION_RENAMED_NEW_NAME": 5, "FILE_ACTION_REMOVED_SELF": 0xFFFE}
        g.update(consts)

        def qev(ex, recv, a, k, n):
            ex.emit("out", a[0])
            return None

        def stop(ex, recv, a, k, n):
            ex.ghost["stopped"] = ex.ghost["stopped"] + 1
            return None

        def sub(which):
            def h(ex, a, k, n):
                subs = ex.fresh(W.LEv, "sub_" + which)
                ex.assume(subs.n >= 0)
                self.sub = (which, [W.Path.unwrap(x) for x in a], subs)
                self.sub_n0 = None
                return subs
            return h
        g.update({"WindowsApiEmitter._read_events": lambda ex, recv, a, k, n: self.batch, "WindowsApiEmitter.queue_event": qev, "WindowsApiEmitter.stop": stop,
                  "os.path.join": lambda ex, a, k, n: W.Path.wrap(W.join(W.Path.unwrap(a[0]), W.Path.unwrap(a[1]))),
                  "os.path.isdir": lambda ex, a, k, n: VBool(W.isdir(W.Path.unwrap(a[0]))),
                  "generate_sub_moved_events": sub("moved"), "generate_sub_created_events": sub("created")})
        return g

    def class_consts(self):
        pass

    def on_with(self, ex, cv, node, entering):
        return

    def setup(self, ex):
        W = self.W
        self.me = VObj("WindowsApiEmitter")
        self.recursive = bool(ex.choose(2, "recursive"))
        self.wp = ex.fresh_term(W.PS, "watch_path")
        watch = VObj("ObservedWatch")
        ex.heap[(watch.id, "_path")] = W.Path.wrap(self.wp)
        ex.heap[(watch.id, "_is_recursive")] = self.recursive
        ex.heap[(self.me.id, "_watch")] = watch
        ex.heap[(self.me.id, "_lock")] = VOpaque("lock", "win._lock")
        self.batch = ex.fresh(W.LNat, "winapi_events")
        ex.assume(self.batch.n >= 0)
        ex.ghost["out"] = W.LEv.empty()
        ex.ghost["stopped"] = 0
        self.sub = None
        return {"self": self.me, "timeout": VOpaque("timeout")}

    def inv_main(self, ex, k):
        return [("true", z3.BoolVal(True))]

    def gs(self, ex, k, el=None):
        self.sub = None
        self.n_start = ex.ghost["out"].n
        self.out_start = ex.ghost["out"]
        self.last_before = self.W.Path.unwrap(ex.scope.lookup("last_renamed_src_path").vars["last_renamed_src_path"])
        self.stop_before = ex.ghost["stopped"]
        self.cur = el

    def inv_sub(self, ex, k):
        out = ex.ghost["out"]
        which, a, subs = self.sub
        if self.sub_n0 is None:
            self.sub_n0, self.sub_out0 = out.n, out
        j = z3.Const("qj", z3.IntSort())
        return [("sub-events-forwarded-in-order", z3.And(out.n == self.sub_n0 + k, z3.ForAll([j], z3.Implies(z3.And(j >= 0, j < k), out.arr[self.sub_n0 + j] == subs.arr[j])))),
                ("earlier-events-untouched", z3.ForAll([j], z3.Implies(z3.And(j >= 0, j < self.sub_n0), out.arr[j] == self.sub_out0.arr[j])))]

    def ge(self, ex, k, el=None):
        """region postcondition of one loop iteration"""
        W, EW = self.W, self.W.EW
        out = ex.ghost["out"]
        act = W.NatTT.proj[0](self.cur.t)
        src = W.join(self.wp, W.NatTT.proj[1](self.cur.t))
        n0 = self.n_start
        last_now = W.Path.unwrap(ex.scope.lookup("last_renamed_src_path").vars["last_renamed_src_path"])
        mk = lambda c, s, d=None: EW.mk(EW.cls[c], s, W.empty if d is None else d, z3.BoolVal(False))
        subn = self.sub[2].n if self.sub is not None else z3.IntVal(0)
        J = ex.fresh_term(z3.IntSort(), "J")
        rec = self.recursive
        d = W.isdir(src)
        # table (written from the documented ReadDirectoryChangesW semantics + the statement)
        rows = [
            ("RENAMED_OLD_NAME: remembered, nothing queued", act == 4, z3.And(out.n == n0, last_now == src)),
            ("RENAMED_NEW_NAME of a file: one FileMovedEvent(last old name, new name)", z3.And(act == 5, z3.Not(d)), z3.And(out.n == n0 + 1, out.arr[n0] == mk("FileMovedEvent", self.last_before, src), z3.BoolVal(self.sub is None))),
            ("RENAMED_NEW_NAME of a directory: DirMovedEvent + synthetic sub-events iff recursive", z3.And(act == 5, d),
             z3.And(out.arr[n0] == mk("DirMovedEvent", self.last_before, src), out.n == n0 + 1 + subn, z3.BoolVal((self.sub is not None) == rec))),
            ("MODIFIED: one Dir/FileModifiedEvent by the kind of the entry", act == 3, z3.And(out.n == n0 + 1, out.arr[n0] == z3.If(d, mk("DirModifiedEvent", src), mk("FileModifiedEvent", src)))),
            ("ADDED: Dir/FileCreatedEvent (+ synthetic sub-events for a directory iff recursive)", act == 1,
             z3.And(out.arr[n0] == z3.If(d, mk("DirCreatedEvent", src), mk("FileCreatedEvent", src)), out.n == n0 + 1 + subn, z3.Implies(z3.Not(d), subn == 0))),
            ("REMOVED_SELF: DirDeletedEvent(root) and stop", act == 0xFFFE, z3.And(out.n == n0 + 1, out.arr[n0] == mk("DirDeletedEvent", self.wp), z3.BoolVal(ex.ghost["stopped"] == self.stop_before + 1))),
            ("unknown action: nothing", z3.And(act != 1, act != 2, act != 3, act != 4, act != 5, act != 0xFFFE), out.n == n0),
        ]
        for nm, cond, goal in rows:
            ex.oblige(f"record[{nm}]", z3.Implies(cond, goal))
        # REMOVED: the OS does not tell the kind of a removed entry (os.path.isdir of a removed path is False):
        ex.oblige("record[REMOVED: one deleted event for the removed path]", z3.Implies(act == 2, z3.And(out.n == n0 + 1, z3.Or(out.arr[n0] == mk("FileDeletedEvent", src), out.arr[n0] == mk("DirDeletedEvent", src)))))
        ex.oblige("record[REMOVED of a directory is a DirDeletedEvent]", z3.Implies(z3.And(act == 2, ex.fresh_term(z3.BoolSort(), "removed_entry_was_a_directory")), out.arr[n0] == mk("DirDeletedEvent", src)))
        ex.oblige("record[RENAMED_NEW_NAME is paired with an OLD_NAME seen earlier (non-empty source)]", z3.Implies(act == 5, W.nonempty(self.last_before)))
        ex.oblige("record[only REMOVED_SELF stops the emitter]", z3.Implies(act != 0xFFFE, z3.BoolVal(ex.ghost["stopped"] == self.stop_before)))
        ex.oblige("record[rename source only changes on OLD_NAME]", z3.Implies(act != 4, last_now == self.last_before))
        ex.oblige("record[earlier events untouched]", z3.Implies(z3.And(J >= 0, J < n0), out.arr[J] == self.out_start.arr[J]))
        if self.sub is not None:
            ex.oblige("record[synthetic sub-events queued once, in order, after the direct event]", z3.Implies(z3.And(J >= 0, J < subn), out.arr[n0 + 1 + J] == self.sub[2].arr[J]))
            want = [self.last_before, src] if self.sub[0] == "moved" else [src]
            ex.oblige("record[sub-event generator called with the event's path(s)]", z3.And(*[a == b for a, b in zip(self.sub[1], want)]))

    def post(self, ex, result):
        pass


# ------------------------------------------------------------------------------------------------ FSEvents filter
class FseWorld:
    def __init__(self):
        self.PS = ground.usort("FsePath")
        self.Path = TRef("FsePath", self.PS)
        self.EW = EventWorld(self.Path, tag="F")
        self.dirname = z3.Function("fse_dirname", self.PS, self.PS)

    def isinstance(self, ex, v, cls):
        names = []
        if isinstance(cls, (VTuple, tuple)):
            names = [c.name for c in (cls.items if isinstance(cls, VTuple) else cls)]
        elif isinstance(cls, VClass):
            names = [cls.name]
        if isinstance(v, VRef) and v.ty is self.EW.Event and names:
            return VBool(z3.Or(*[self.EW.subclass_of(self.EW.e_cls(v.t), n) for n in names]))
        raise Unsupported("isinstance")


class FseQueueEvent(FnSpec):
    relpath, qualname, prop = FSE, "FSEventsEmitter.queue_event", PROP
    inline = {"FSEventsEmitter._is_recursive_event"}

    def __init__(self, W):
        self.W, self.world = W, W

    def globals(self):
        W = self.W

        def base_q(ex, recv, a, k, n):
            ex.ghost["queued"] = ex.ghost["queued"] + 1
            ex.ghost["queued_ev"] = a[-1]
            return None
        return {"EventEmitter.queue_event": base_q, "os.path.dirname": lambda ex, a, k, n: W.Path.wrap(W.dirname(W.Path.unwrap(a[0])))}

    def setup(self, ex):
        W = self.W
        self.me = VObj("FSEventsEmitter")
        self.rec = ex.fresh_term(z3.BoolSort(), "is_recursive")
        self.root = ex.fresh_term(W.PS, "absolute_watch_path")
        watch = VObj("ObservedWatch")
        ex.heap[(watch.id, "_is_recursive")] = VBool(self.rec)
        ex.heap[(self.me.id, "_watch")] = watch
        ex.heap[(self.me.id, "_absolute_watch_path")] = W.Path.wrap(self.root)
        self.ev = ex.fresh_term(W.EW.EvS, "event")
        ex.ghost["queued"] = 0
        return {"self": self.me, "event": W.EW.Event.wrap(self.ev)}

    inline = {"FSEventsEmitter._is_recursive_event", "ObservedWatch.is_recursive"}

    def post(self, ex, result):
        W, EW = self.W, self.W.EW
        e = self.ev
        isd = EW.is_directory(EW.e_cls(e))
        moved = z3.Or(EW.e_cls(e) == EW.cls["FileMovedEvent"], EW.e_cls(e) == EW.cls["DirMovedEvent"])
        at_top = z3.Or(z3.And(isd, EW.e_src(e) == self.root), z3.And(z3.Not(isd), W.dirname(EW.e_src(e)) == self.root), z3.And(moved, W.dirname(EW.e_dest(e)) == self.root))
        q = ex.ghost["queued"]
        ex.oblige("post[at most once, the event itself]", q <= 1 and (q == 0 or ex.ghost["queued_ev"].t.eq(e)))
        ex.oblige("post[recursive watch: every event is queued]", z3.Implies(self.rec, z3.BoolVal(q == 1)))
        ex.oblige("post[non-recursive watch: nothing below the root's direct children is queued]", z3.Implies(z3.And(z3.Not(self.rec), z3.BoolVal(q == 1)), at_top))
        ex.oblige("post[non-recursive watch: events about the root's own entries are queued]", z3.Implies(z3.And(z3.Not(self.rec), at_top), z3.BoolVal(q == 1)))


def make_specs():
    return [InotifyParse(BufWorld()), WinParse(WinBufWorld()), WinQueueEvents(WinWorld()), FseQueueEvent(FseWorld())]


KNOWN_RED = ["record[REMOVED of a directory is a DirDeletedEvent]", "record[RENAMED_NEW_NAME is paired with an OLD_NAME seen earlier (non-empty source)]"]
EXPECTED_CLAUSES = ["Inotify._parse_event_buffer.post[decoded records are exactly", "_parse_event_buffer.post[every encoded record is decoded: count]", "WindowsApiEmitter.queue_events.record[ADDED", "WindowsApiEmitter.queue_events.record[RENAMED_NEW_NAME of a directory",
                    "FSEventsEmitter.queue_event.post[non-recursive watch: nothing below"]
CANARIES = [
    {"name": "header size 12 instead of 16", "file": INOTIFY_C, "fn": "Inotify._parse_event_buffer", "find": "name = event_buffer[i + 16 : i + 16 + length]", "replace": "name = event_buffer[i + 12 : i + 12 + length]"},
    {"name": "i += 16 (forget length)", "file": INOTIFY_C, "fn": "Inotify._parse_event_buffer", "find": "i += 16 + length", "replace": "i += 16"},
    {"name": "Windows: advance by FileNameLength instead of NextEntryOffset", "file": WINAPI, "fn": "_parse_event_buffer", "find": "num_to_skip = fni.NextEntryOffset", "replace": "num_to_skip = fni.FileNameLength"},
]
TRUSTED = ["E4 struct.unpack_from('iIII') = four little-endian decoders at the offset; ctypes.cast/addressof/string_at read the bytes at the stated offsets of FILE_NOTIFY_INFORMATION; bytes.decode('utf-16') is a function of the name bytes",
           "E8 inotify record layout (16-byte header, len = name + NUL padding, names contain no NUL); documented FILE_NOTIFY_INFORMATION chaining (NextEntryOffset, 0 = last)",
           "record offsets are monotone (induction over the layout recurrence; the induction principle is assumed)", "os.path.isdir / os.path.join / dirname uninterpreted; C14's generators"]
ASSUMPTIONS = ["the Windows emitter is verified record by record (region contract of the loop body) and the FSEvents filter event by event", "winapi.py and fsevents.py are parsed, never imported (ctypes.WinDLL / _watchdog_fsevents are unavailable on Linux)"]
UNDECIDED_PARTS = ["FSEventsEmitter.queue_events (flag-combination table with rename pairing by inode) is NOT APPLICABLE: its correctness is relative to Apple's coalescing semantics and os.stat at translation time",
                   "replaying the Windows/macOS stream reproduces the tree (C01's quantifier) is not decided"]
