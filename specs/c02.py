"""C02 — a recursive watch covers every directory that exists, under its current name (partial).

Watch-map contracts of the Inotify class against the meaning of each native record (E8): _add_dir_watch installs a
watch on the root and (recursive) on every directory found under it; per record of read_events: IN_CREATE|ISDIR =>
new directory watched (or the kernel refused it); rename pair of a watched directory => its entry and exactly the
entries below it are re-keyed by prefix substitution, same descriptors, both maps, everything else untouched;
IN_IGNORED => pruned; non-recursive => no watch is ever added.  Not decided: that the event view equals the disk at
quiescence (needs the kernel and the pacing condition, C01)."""
from __future__ import annotations
from specs.inotify_read import IRWorld, AddDirWatch, AddWatch, ForgetPaths, ReadEvents, string_lemmas, FILE

PROP = "C02"
GROUNDABLE = True
GROUND_SCOPES = (4,)   # the emitter's path world needs a path, its parent and their two byte encodings
BATTERY = "c02_battery.py"


def make_specs():
    W = IRWorld()
    out = [AddWatch(W, PROP), AddDirWatch(W, PROP), ForgetPaths(W, PROP), ReadEvents(W, PROP, want=("maps",))]
    # "under a non-recursive watch ... changes any deeper never are": the emitter walks nothing for a non-recursive watch
    from specs import inotify_emitter
    out.append(inotify_emitter.QueueEvents(inotify_emitter.World(), PROP, want=("nonrec",)))
    return out


def lemmas():
    return string_lemmas()


EXPECTED_CLAUSES = ["_add_dir_watch.post[recursive: every directory found under the root is watched", "_add_dir_watch.post[non-recursive: only the root is watched]", "_add_watch.post[path -> descriptor recorded",
                    "read_events.record[IN_CREATE of a directory under a recursive watch", "read_events.record[second half of the rename of a watched directory", "read_events.record[IN_IGNORED",
                    "read_events.loop6.preserved[every visited key below the old path is re-keyed by prefix substitution", "read_events.loop6.preserved[keys outside both trees are untouched]",
                    "read_events.record[watches are added only by a recursive instance", "read_events.loop5.preserved[move records of earlier batches are kept", "read_events.simulated[file: at most one made-up record", "read_events.simulated[directory: at most one made-up record", "read_events.record[a directory that arrives without a known watched source (moved in", "read_events.record[a directory that arrives without a known watched source: what the path map still held", "_forget_paths.post[exactly the path entries at or below the path are dropped]", "_add_dir_watch.raises[path entries only accumulate]", "read_events.record[the event handed on carries the record's fields and the current path", "lemma[replace(a, b, 1) on a string with prefix a is prefix substitution]"]
CANARIES = [
    {"name": "stale path entries under the name of an arriving directory are kept (the repaired defect)", "file": FILE, "fn": "Inotify.read_events", "find": "                        self._forget_paths(inotify_event.src_path)\n", "replace": ""},
    {"name": "an arriving directory without a known source is not watched (the repaired defect)", "file": FILE, "fn": "Inotify.read_events", "find": "                    elif self.is_recursive and inotify_event.is_directory:\n", "replace": "                    elif False:\n"},
    {"name": "forget the move records at the start of every batch", "file": FILE, "fn": "Inotify.read_events", "find": "            event_list = []\n", "replace": "            event_list = []\n            self._moved_from_events = {}\n"},
    {"name": "drop `if recursive:` in _add_dir_watch", "file": FILE, "fn": "Inotify._add_dir_watch", "find": "        if recursive:\n", "replace": "        if True:\n"},
    {"name": "re-key with an unbounded replace (the repaired defect)", "file": FILE, "fn": "Inotify.read_events", "find": "_path.replace(move_src_path, inotify_event.src_path, 1)", "replace": "_path.replace(move_src_path, inotify_event.src_path)"},
    {"name": "re-key only _wd_for_path (forget _path_for_wd)", "file": FILE, "fn": "Inotify.read_events", "find": "                                    self._path_for_wd[moved_wd] = _move_to_path\n", "replace": ""},
    {"name": "drop the `+ sep` in the startswith guard", "file": FILE, "fn": "Inotify.read_events", "find": "_path.startswith(move_src_path + os.path.sep.encode())", "replace": "_path.startswith(move_src_path)"},
]
TRUSTED = ["E8 kernel: each record carries one event bit (+IN_ISDIR) and refers to a live descriptor or -1; records about a child (create/delete/moved_from/moved_to) carry its non-empty name; IN_IGNORED is the last record of its descriptor; the halves of a rename share a cookie; rename(2) never moves a directory into its own subtree",
           "E1 os.walk lists the directories under the root", "path strings: startswith/replace facts are lemmas proved over SMT-LIB strings (string_lemmas), then used as axioms on the uninterpreted path sort",
           "C20: _parse_event_buffer yields the records of the buffer"]
ASSUMPTIONS = ["the maps are NOT assumed mutually inverse (inotify_add_watch may return a descriptor already in use)"]
UNDECIDED_PARTS = ["the event view equals the real tree at quiescence (kernel + pacing condition): not decided (C01)",
                   "histories that re-use a directory's name, or touch its contents, before the reader drained the operation that created/renamed/removed it (outside the pacing condition) can alias descriptors and paths; not claimed"]
