"""C08 — a rename arrives as one paired move; no native event is lost or duplicated.

InotifyBuffer._group_events: per batch event a region contract (exactly one of four transitions: append single /
upgrade the FIRST matching single MOVED_FROM of the batch to a pair / append a pair with the first match removed
from the delay queue / append single when nothing matches), all other positions untouched; pairs are
(moved_from, moved_to) with one cookie.  InotifyBuffer.run: every grouped item except a single IN_IGNORED is put
exactly once, in order, delayed iff it is an unmatched MOVED_FROM; the loop ends on root IGNORED / DELETE_SELF.
Cross-batch pairing and timing are the composition with DelayedQueue's contracts (C17)."""
from __future__ import annotations
import z3
from pyvc.sym import *
from pyvc.engine import FnSpec, LoopSpec, Obligation, Raise
from pyvc import ground
from specs.inotify_read import IRWorld
from specs import inotify_table as T

PROP = "C08"
GROUNDABLE = True
BATTERY = "c08_battery.py"
BUF = "watchdog/observers/inotify_buffer.py"


class GWorld(IRWorld):
    """adds the item type of grouped lists: a single native event or a (from, to) pair"""

    def __init__(self):
        super().__init__()
        self.ItemTT = TTup(TBool, self.NEv, self.NEv, name="GroupedItem")
        W = self

        class ItemTy(TRef):
            def unwrap(s, v):
                if isinstance(v, VRef) and v.ty is W.NEv:
                    return W.ItemTT.mk(z3.BoolVal(False), v.t, v.t)
                if isinstance(v, VTuple) and len(v.items) == 2:
                    a, b = v.items
                    at = W.ItemTT.proj[1](a.t) if (isinstance(a, VRef) and a.ty is s) else W.NEv.unwrap(a)
                    return W.ItemTT.mk(z3.BoolVal(True), at, W.NEv.unwrap(b))
                return TRef.unwrap(s, v)
        attrs = {}
        for nm in ("is_moved_from", "is_moved_to", "is_ignored", "is_delete_self", "cookie", "src_path", "mask"):
            attrs[nm] = (lambda ex, r, nm=nm: ex.getattr(W.NEv.wrap(W.ItemTT.proj[1](r.t)), nm))
        self.Item = ItemTy("GroupedItem", self.ItemTT.sort, attrs=attrs)
        self.LItem = TList(self.Item)

    def is_pair(self, t):
        return self.ItemTT.proj[0](t)

    def first(self, t):
        return self.ItemTT.proj[1](t)

    def second(self, t):
        return self.ItemTT.proj[2](t)

    def mask(self, e):
        return self.NEvTT.proj[1](e)

    def cookie(self, e):
        return self.NEvTT.proj[2](e)

    def bit(self, e, name):
        return (self.mask(e) & z3.BitVecVal(T.ABI[name], 32)) != 0

    def isinstance(self, ex, v, cls):
        name = cls.dotted if isinstance(cls, VGlobal) else getattr(cls, "name", None)
        if name in ("tuple", "builtins.tuple"):
            if isinstance(v, VRef) and v.ty is self.Item:
                return VBool(self.is_pair(v.t))
            if isinstance(v, VRef) and v.ty is self.NEv:
                return False
            return isinstance(v, (VTuple, tuple))
        raise Unsupported("isinstance")


class GroupEvents(FnSpec):
    relpath, qualname, prop = BUF, "InotifyBuffer._group_events", PROP
    inline = {"InotifyEvent." + p for p in ("is_moved_from", "is_moved_to", "cookie", "is_ignored", "is_delete_self", "src_path")}

    def __init__(self, W, prop=PROP):
        self.W, self.world, self.prop = W, W, prop
        self.var_types = {"grouped": W.LItem}
        self.loops = {1: LoopSpec("event_list", self.inv_outer, modifies=[("call", self.havoc_q)], ghost_start=self.gs, ghost_end=self.ge, every_element=True),
                      2: LoopSpec("enumerate(grouped)", self.inv_inner)}
        self.expected_covers = ["loop1.body", "loop1.end", "loop2.body", "loop2.end", "exit"]

    def globals(self):
        W = self.W

        def remove(ex, recv, a, k, n):
            """DelayedQueue.remove(predicate) by its contract (C17): first queued element that satisfies the predicate,
            taken out; None iff nothing queued matches"""
            pred = a[0]
            q = self.q
            self.remove_calls += 1
            self.q_before = q
            j = z3.Const("qj", z3.IntSort())
            pterm = lambda e: self.match_term(W.Item.wrap(e))
            if ex.choose(2, "queue.remove finds a match") == 0:
                i = ex.fresh_term(z3.IntSort(), "qi")
                ex.assume(z3.And(0 <= i, i < q.n))
                x = q.arr[i]
                # the real closure decides: it must hold for the element handed out and fail for all earlier ones
                got = ex.call(pred, [W.Item.wrap(x)], {}, n)
                ex.assume(_z(ex.truth(got)))
                self.pred_on_result = True
                arr = ex.fresh_term(q.arr.sort(), "q_after")
                ex.assume(z3.ForAll([j], arr[j] == z3.If(j < i, q.arr[j], q.arr[j + 1])))
                self.q = VList(q.n - 1, arr, q.ety)
                self.removed = (i, x)
                return W.Item.wrap(x)
            self.removed = None
            self.none_answer = True
            return None
        return {"queue.remove": remove}

    def _zq(self):
        pass

    def havoc_q(self, ex):
        self.q = ex.fresh(self.W.LItem, "delay_queue")
        ex.assume(self.q.n >= 0)

    def match_term(self, item_t, e=None):
        """the statement's notion: a single MOVED_FROM with the cookie of the MOVED_TO at hand"""
        W = self.W
        e = self.cur if e is None else e
        return z3.And(z3.Not(W.is_pair(item_t)), W.bit(W.first(item_t), "IN_MOVED_FROM"), W.cookie(W.first(item_t)) == W.cookie(e))

    def setup(self, ex):
        W = self.W
        self.me = VObj("InotifyBuffer")
        ex.heap[(self.me.id, "_queue")] = VOpaque("queue")
        self.batch = ex.fresh(W.LEv, "event_list")
        ex.assume(self.batch.n >= 0)
        self.havoc_q(ex)
        self.remove_calls = 0
        self.cur = None
        return {"self": self.me, "event_list": self.batch}

    def grouped(self, ex):
        return ex.scope.lookup("grouped").vars["grouped"]

    def wf_item(self, t):
        W = self.W
        return z3.Implies(W.is_pair(t), z3.And(W.bit(W.first(t), "IN_MOVED_FROM"), W.bit(W.second(t), "IN_MOVED_TO"), W.cookie(W.first(t)) == W.cookie(W.second(t))))

    def inv_outer(self, ex, k):
        G = self.grouped(ex)
        j = z3.Const("gj", z3.IntSort())
        return [("every pair is (moved_from, moved_to) with one cookie", z3.ForAll([j], z3.Implies(z3.And(0 <= j, j < G.n), self.wf_item(G.arr[j])))), ("length", G.n >= 0)]

    def gs(self, ex, k, el=None):
        self.cur = el.t
        self.k = k
        self.G0 = self.grouped(ex)
        self.q0 = self.q
        self.remove_calls = 0
        self.removed = None
        self.none_answer = False

    def inv_inner(self, ex, i):
        W = self.W
        G = self.grouped(ex)
        j = z3.Const("ij", z3.IntSort())
        return [("no earlier single MOVED_FROM of the batch matches", z3.ForAll([j], z3.Implies(z3.And(0 <= j, j < i), z3.Not(self.match_term(G.arr[j]))))),
                ("grouped untouched while scanning", z3.And(G.n == self.G0.n, G.arr == self.G0.arr))]

    def ge(self, ex, k, el=None):
        """region postcondition of one batch event"""
        W = self.W
        e = self.cur
        G0, G1 = self.G0, self.grouped(ex)
        j, i = z3.Const("tj", z3.IntSort()), ex.fresh_term(z3.IntSort(), "I")
        to = W.bit(e, "IN_MOVED_TO")
        single = lambda x: W.ItemTT.mk(z3.BoolVal(False), x, x)
        pair = lambda a, b: W.ItemTT.mk(z3.BoolVal(True), a, b)
        same_prefix = z3.ForAll([j], z3.Implies(z3.And(0 <= j, j < G0.n), G1.arr[j] == G0.arr[j]))
        any_match = z3.Exists([j], z3.And(0 <= j, j < G0.n, self.match_term(G0.arr[j])))
        first_match = lambda ii: z3.And(0 <= ii, ii < G0.n, self.match_term(G0.arr[ii]), z3.ForAll([j], z3.Implies(z3.And(0 <= j, j < ii), z3.Not(self.match_term(G0.arr[j])))))
        # T1
        ex.oblige("event[not a MOVED_TO: appended as a single, nothing else touched, queue untouched]",
                  z3.Implies(z3.Not(to), z3.And(G1.n == G0.n + 1, G1.arr[G0.n] == single(e), same_prefix, z3.BoolVal(self.remove_calls == 0))))
        # T2
        ex.oblige("event[MOVED_TO with a matching single MOVED_FROM earlier in the batch: the FIRST such is upgraded to the pair, in place]",
                  z3.Implies(z3.And(to, first_match(i)), z3.And(G1.n == G0.n, G1.arr[i] == pair(W.first(G0.arr[i]), e), z3.ForAll([j], z3.Implies(z3.And(0 <= j, j < G0.n, j != i), G1.arr[j] == G0.arr[j])), z3.BoolVal(self.remove_calls == 0))))
        # T3 / T4
        if self.remove_calls:
            ex.oblige("event[the delay queue is consulted at most once, only for a MOVED_TO without partner in the batch]", z3.And(z3.BoolVal(self.remove_calls == 1), to, z3.Not(any_match)))
            if self.removed is not None:
                qi, x = self.removed
                ex.oblige("event[partner found in the delay queue: appended as the pair (queued MOVED_FROM, this MOVED_TO)]", z3.And(G1.n == G0.n + 1, G1.arr[G0.n] == pair(W.first(x), e), same_prefix))
                ex.oblige("event[the queued partner really is a single MOVED_FROM with this cookie]", self.match_term(x))
            else:
                ex.oblige("event[no partner anywhere: the MOVED_TO stays single]", z3.And(G1.n == G0.n + 1, G1.arr[G0.n] == single(e), same_prefix))
        else:
            ex.oblige("event[a MOVED_TO without partner in the batch asks the delay queue]", z3.Implies(to, any_match))

    def post(self, ex, result):
        W = self.W
        ok = isinstance(result, VList)
        ex.oblige("post[returns the grouped list]", ok)
        if ok:
            J = ex.fresh_term(z3.IntSort(), "J")
            ex.oblige("post[every pair is (moved_from, moved_to) with one cookie]", z3.Implies(z3.And(0 <= J, J < result.n), self.wf_item(result.arr[J])))


def _z(t):
    return z3.BoolVal(t) if isinstance(t, bool) else t


class BufferRun(FnSpec):
    relpath, qualname, prop = BUF, "InotifyBuffer.run", PROP
    inline = {"BaseThread.should_keep_running"} | {"InotifyEvent." + p for p in ("is_moved_from", "is_ignored", "is_delete_self", "src_path")}
    var_types = {}

    def __init__(self, W, prop=PROP):
        self.W, self.world, self.prop = W, W, prop
        self.loops = {1: LoopSpec("self.should_keep_running() and (not deleted_self)", self.inv_outer, modifies=[("ghost", "puts")]),
                      2: LoopSpec("grouped_events", self.inv_inner, modifies=[("ghost", "puts")], ghost_start=self.gs, ghost_end=self.ge, every_element=True)}
        self.expected_covers = ["loop1.body", "loop1.end", "loop2.body", "loop2.end", "exit"]

    def globals(self):
        W = self.W
        self.PutTT = TTup(W.Item, TBool, name="QueuePut")

        def put(ex, recv, a, k, n):
            d = k.get("delay", False)
            ex.emit("puts", VTuple([a[0] if isinstance(a[0], VRef) and a[0].ty is W.Item else W.Item.wrap(W.Item.unwrap(a[0])), d], self.PutTT))
            return None

        def read(ex, recv, a, k, n):
            self.reads += 1
            return VOpaque("native_events")

        def group(ex, recv, a, k, n):
            ex.oblige("grouping is applied to what was just read", isinstance(a[0], VOpaque) and a[0].kind == "native_events")
            self.G = ex.fresh(W.LItem, "grouped_events")
            ex.assume(self.G.n >= 0)
            return self.G
        return {"event.is_set": lambda ex, recv, a, k, n: VBool(ex.fresh_term(z3.BoolSort(), "stopped")), "ns.read_events": read, "InotifyBuffer._group_events": group, "queue.put": put}

    def setup(self, ex):
        W = self.W
        self.me = VObj("InotifyBuffer")
        self.root = ex.fresh_term(W.PS, "inotify_path")
        self.rootv = W.Path.wrap(self.root)
        H = ex.heap
        H[(self.me.id, "_inotify")] = VOpaque("ns", {"path": self.rootv})
        H[(self.me.id, "_queue")] = VOpaque("queue")
        H[(self.me.id, "_stopped_event")] = VOpaque("event")
        self.PutTT = TTup(W.Item, TBool, name="QueuePut")
        ex.ghost["puts"] = TList(self.PutTT).empty()
        self.reads = 0
        self.G = None
        return {"self": self.me}

    def inv_outer(self, ex, _):
        return [("true", z3.BoolVal(True))]

    def rootdel(self, t):
        W = self.W
        return z3.And(z3.Not(W.is_pair(t)), z3.Or(W.bit(W.first(t), "IN_IGNORED"), W.bit(W.first(t), "IN_DELETE_SELF")), W.NEvTT.proj[4](W.first(t)) == self.root)

    def inv_inner(self, ex, k):
        ds = ex.scope.lookup("deleted_self").vars["deleted_self"]
        return [("puts well-formed", ex.ghost["puts"].n >= 0)]

    def gs(self, ex, k, el=None):
        self.cur = el.t
        self.p0 = ex.ghost["puts"]
        self.ds0 = ex.scope.lookup("deleted_self").vars["deleted_self"]

    def ge(self, ex, k, el=None):
        W = self.W
        t = self.cur
        p0, p1 = self.p0, ex.ghost["puts"]
        j = z3.Const("pj", z3.IntSort())
        ign = z3.And(z3.Not(W.is_pair(t)), W.bit(W.first(t), "IN_IGNORED"))
        delayed = z3.And(z3.Not(W.is_pair(t)), W.bit(W.first(t), "IN_MOVED_FROM"))
        frame = z3.ForAll([j], z3.Implies(z3.And(0 <= j, j < p0.n), p1.arr[j] == p0.arr[j]))
        ex.oblige("item[the kernel's own watch-removed marker (single IN_IGNORED) is not handed on]", z3.Implies(ign, z3.And(p1.n == p0.n, frame)))
        ex.oblige("item[everything else is put exactly once, after what was put before, delayed iff it is an unmatched MOVED_FROM]",
                  z3.Implies(z3.Not(ign), z3.And(p1.n == p0.n + 1, p1.arr[p0.n] == self.PutTT.mk(t, delayed), frame)))
        ds1 = ex.scope.lookup("deleted_self").vars["deleted_self"]
        tb = lambda v: TBool.unwrap(v)
        ex.oblige("item[the reader stops after the root's IGNORED / DELETE_SELF, and only then]", tb(ds1) == z3.Or(tb(self.ds0), self.rootdel(t)))

    def post(self, ex, result):
        ex.oblige("post[returns]", True)


def make_specs():
    W = GWorld()
    out = [GroupEvents(W), BufferRun(W)]
    # the contracts of the delay queue this property is composed with (C17) are re-verified here
    from specs import c17
    for sp in c17.make_specs():
        if sp.name in ("put", "get", "remove"):
            sp.prop = PROP
            out.append(sp)
    # 'every change notification read from the kernel': the decoder of a read batch (C20's contract) is re-verified here
    from specs import c20
    dec = c20.InotifyParse(c20.BufWorld())
    dec.prop = PROP
    out.append(dec)
    # 'every change notification read from the kernel ... is handed to the emitter exactly once, in kernel order': the reader's
    # loop over the decoded records (one output record per non-marker input record, no record skipped, the loop never left early)
    from specs.inotify_read import IRWorld, ReadEvents
    out.append(ReadEvents(IRWorld(), PROP, want=("safety",)))
    return out


EXPECTED_CLAUSES = ["_group_events.event[not a MOVED_TO", "_group_events.event[MOVED_TO with a matching single MOVED_FROM earlier in the batch", "_group_events.event[partner found in the delay queue", "_group_events.event[no partner anywhere",
                    "_group_events.post[every pair is", "run.item[everything else is put exactly once", "run.item[the kernel's own watch-removed marker", "run.item[the reader stops after the root's"]
CANARIES = [
    {"name": "skip the delay-queue lookup", "file": BUF, "fn": "InotifyBuffer._group_events", "find": "                    from_event = self._queue.remove(matching_from_event)\n", "replace": "                    from_event = None\n"},
    {"name": "delay=True for every item", "file": BUF, "fn": "InotifyBuffer.run", "find": "                delay = not isinstance(inotify_event, tuple) and inotify_event.is_moved_from\n", "replace": "                delay = True\n"},
    {"name": "pair on is_moved_from without comparing cookies", "file": BUF, "fn": "InotifyBuffer._group_events", "find": "event.is_moved_from and event.cookie == inotify_event.cookie", "replace": "event.is_moved_from"},
]
TRUSTED = ["C17: DelayedQueue.remove(predicate) returns the first queued element satisfying the predicate (taken out exactly once) or None iff nothing queued matches; put() keeps order", "E8: every record carries one event bit; rename halves share a cookie",
           "closures read the current loop variable (by-reference capture), as in CPython"]
ASSUMPTIONS = ["no-loss/no-duplication over a whole batch is the induction over the per-event region contract (each step places the event in exactly one position and leaves every other position untouched)",
               "cross-batch pairing and the timing clauses are the composition with C17's exactly-once / never-early contracts"]
UNDECIDED_PARTS = ["'however the reader and consumer threads interleave': the interleaving argument is C17's rely/guarantee proof, composed here by contract, not re-proved end to end"]
