"""C07 — monitoring never silently dies while the observer runs and the root exists (partial).

Decided: exception-freedom of every library thread body under the kernel contract E8 with inotify_add_watch
allowed to fail at every call - one obligation per subscript / pop / del / unpack / attribute-of-None in
Inotify.read_events (incl. _recursive_simulate), InotifyBuffer._group_events / run, InotifyEmitter.queue_events,
PollingEmitter.queue_events, DirectorySnapshot.walk; root deletion: DELETE_SELF of the root => exactly one
DirDeletedEvent(root) + stop, the reader leaves its loop after handing that record on; polling: snapshot OSError
=> one DirDeletedEvent(root) + stop.  Not decided: 'later changes are reported' (C02 + liveness)."""
from __future__ import annotations
from specs.inotify_read import IRWorld, ReadEvents, FILE
from specs import c08, c10, inotify_emitter

PROP = "C07"
GROUNDABLE = True
GROUND_SCOPES = (4,)   # the emitter's path world needs a path, its parent and their two byte encodings
BATTERY = "c07_battery.py"


def make_specs():
    # "makes later changes in the tree go unreported": exception freedom AND the watch-map contracts (C02's) of the reader
    out = [ReadEvents(IRWorld(), PROP, want=("safety", "maps"))]
    from specs.inotify_read import ForgetPaths
    out.append(ForgetPaths(IRWorld(), PROP))     # called from the reader's loop: must not raise
    G = c08.GWorld()
    out += [c08.GroupEvents(G, PROP), c08.BufferRun(G, PROP)]
    out.append(inotify_emitter.QueueEvents(inotify_emitter.World(), PROP, want=("root",)))
    # "that watch's emitter stops cleanly": the stop path of an emitter (also when the root and its kernel watch are already
    # gone, so the kernel refuses inotify_rm_watch) raises nothing
    from specs import c12
    from specs.inotify_read import Close
    for sp in (Close(IRWorld(), PROP), c12.EmitterStop(), c12.BufSpec("on_thread_stop"), c12.BufSpec("close")):
        sp.prop = PROP
        out.append(sp)
    # "no sequence of API calls makes a thread terminate with an unhandled error": the observer thread's loop body
    from specs import c04
    DW = c04.DispatchWorld()
    for sp in (c04.Dispatch(DW, False, PROP), c04.Dispatch(DW, True, PROP)):
        out.append(sp)
    from specs import c13
    oi = c13.ObserverInit(c13.ObsWorld() if hasattr(c13, "ObsWorld") else DW)
    oi.prop = PROP
    out.append(oi)
    P, S = c10.PWorld(), c10.WalkWorld()
    for sp in (c10.PollQueueEvents(P), c10.Walk(S, PROP), c10.SnapInit(S)):
        sp.prop = PROP
        out.append(sp)
    return out


def lemmas():
    from specs.inotify_read import string_lemmas
    return string_lemmas()


EXPECTED_CLAUSES = ["read_events.no-KeyError[self._path_for_wd[wd]]", "read_events.no-KeyError[self._path_for_wd.pop(wd)]", "read_events.post[every live kernel descriptor has a path entry]", "read_events.no-KeyError[self._wd_for_path.pop(_path)]",
                    "run.item[the reader stops after the root's IGNORED / DELETE_SELF", "queue_events.post[root DELETE_SELF: exactly one DirDeletedEvent(root) and the emitter stops]", "PollingEmitter.queue_events.post[root gone",
                    "walk.post[listing failed with ENOENT/ENOTDIR/EINVAL", "Inotify.close.post[closed]", "InotifyBuffer.close.post[stop flag"]
CANARIES = [
    {"name": "drop errno.ENOTDIR from the tolerated set (polling walk)", "file": "watchdog/utils/dirsnapshot.py", "fn": "DirectorySnapshot.walk", "find": "(errno.ENOENT, errno.ENOTDIR, errno.EINVAL)", "replace": "(errno.ENOENT, errno.EINVAL)"},
    {"name": "unguarded lookup in the IN_IGNORED clean-up (the repaired defect)", "file": FILE, "fn": "Inotify.read_events", "find": "if self._wd_for_path.get(path) == wd:", "replace": "if self._wd_for_path[path] == wd:"},
    {"name": "remove `if wd == -1: continue`", "file": FILE, "fn": "Inotify.read_events", "find": "                if wd == -1:\n                    continue\n", "replace": ""},
    {"name": "remove `except OSError: continue` after _add_watch", "file": FILE, "fn": "Inotify.read_events", "find": "                    try:\n                        self._add_watch(src_path, self._event_mask)\n                    except OSError:\n                        continue\n", "replace": "                    self._add_watch(src_path, self._event_mask)\n"},
    {"name": "remove contextlib.suppress(OSError) in _recursive_simulate", "file": FILE, "fn": "Inotify.read_events", "find": "                    with contextlib.suppress(OSError):\n", "replace": "                    if True:\n"},
]
TRUSTED = ["E8 kernel: records refer to a live descriptor or -1, one event bit each, IN_IGNORED last for its descriptor; poll/os.read on open descriptors do not raise; inotify_add_watch may fail at every call (forked) and may return a descriptor already in use",
           "E1 os.walk; C20 _parse_event_buffer; C17 DelayedQueue.remove/put do not raise", "MemoryError, KeyboardInterrupt, recursion limit are ignored"]
ASSUMPTIONS = ["invariant W1 (every live kernel descriptor has a path entry) is assumed at the start of a read and proved at its end; the two maps are not assumed mutually inverse"]
UNDECIDED_PARTS = ["'later changes in the tree are reported' is C02's watch-map contract plus liveness: not decided here", "user callbacks raising in the dispatcher thread are outside the library"]
