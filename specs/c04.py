"""C04 — queued events reach each registered handler exactly once, in order, nobody else.

Contracts: BaseObserver.dispatch_events (two variants: callbacks that leave the registry alone / arbitrary
re-entrant callbacks that havoc the registry under its class invariant), EventEmitter.queue_event, and the lock
discipline of every registry mutator.  FIFO order and no-loss of the queue itself are C16's contracts."""
from __future__ import annotations
import z3
from pyvc.sym import *
from pyvc.engine import FnSpec, LoopSpec, Obligation, Raise
from pyvc import ground
from specs.obs_world import ObsWorld, ObsSpec, API, PROTECTED
from specs import c13

PROP = "C04"
GROUNDABLE = True
BATTERY = "c04_battery.py"


class Dispatch(ObsSpec):
    qualname, prop = "BaseObserver.dispatch_events", PROP

    def __init__(self, W, reentrant: bool, prop=PROP):
        self.W, self.world, self.reentrant = W, W, reentrant
        self.prop = prop
        self.tag = "reentrant-callbacks" if reentrant else "plain-callbacks"
        self.loops = {1: LoopSpec("self._handlers[watch].copy()", self.inv, modifies=[("ghost", "called")] + ([("heap", lambda ex: self.me, f) for f in PROTECTED] if reentrant else []), snapshot=True,
                                  ghost_start=self.gs, every_element=True)}
        self.expected_covers = ["loop1.body", "loop1.end", "exit"]

    def globals(self):
        g = self.base_globals()
        g["event_queue.get"] = self.h_get
        g["event_queue.task_done"] = self.h_done
        return g

    def h_get(self, ex, recv, args, kw, node):
        W = self.W
        if ex.choose(2, "stop sentinel dequeued") == 1:
            self.sentinel = True
            return VOpaque("stop_event")
        self.ev = ex.fresh_term(W.EvS, "event")
        self.w = ex.fresh_term(W.WS, "watch")
        return VTuple([W.Event.wrap(self.ev), W.Watch.wrap(self.w)])

    def h_done(self, ex, recv, args, kw, node):
        ex.ghost["task_done"] = ex.ghost.get("task_done", 0) + 1
        return None

    def setup(self, ex):
        W = self.W
        self.start_state(ex)
        self.sentinel = False
        self.ev = self.w = None
        self.cur = None
        ex.ghost["called"] = TSet(W.Handler).empty()
        ex.ghost["task_done"] = 0
        return {"self": self.me, "event_queue": VOpaque("event_queue")}

    def is_(self, ex, l, r):
        pass

    def gs(self, ex, seen, el=None):
        self.cur = el.t
        # H0 = the copy being iterated = handlers(watch) at lock acquisition
        return None

    def H0(self):
        return self.W.hview(self.pre["H"], self.w)

    def inv(self, ex, seen):
        W = self.W
        h = z3.Const("lh", W.HS)
        called = ex.ghost["called"].t
        out = []
        if self.reentrant:
            out.append(("called<=seen", z3.ForAll([h], z3.Implies(called[h], z3.And(seen[h], self.H0()[h])))))
            for nm, f in W.inv(W.view(ex, self.me)):
                out.append(("registry-invariant:" + nm, f))
        else:
            out.append(("called=seen", z3.ForAll([h], called[h] == seen[h])))
            now = W.view(ex, self.me)
            out.append(("registry-unchanged", W.same_H(self.pre["H"], now["H"])))
        return out

    def on_callback(self, ex, h, evv):
        W = self.W
        now = W.view(ex, self.me)
        called = ex.ghost["called"]
        ex.oblige("callback[observer lock held]", "observer._lock" in ex.held, kind="lock")
        ex.oblige("callback[only the handler being iterated]", h == self.cur)
        ex.oblige("callback[handler is registered for this watch at the instant of the call]", W.hview(now["H"], self.w)[h])
        ex.oblige("callback[with the dequeued event]", W.Event.unwrap(evv) == self.ev)
        ex.oblige("callback[at most once per handler]", z3.Not(called.t[h]))
        ex.ghost["called"] = VSet(z3.Store(called.t, h, True), W.Handler)
        if self.reentrant:
            # user code may call schedule/unschedule/add/remove/unschedule_all on this observer (RLock): the registry
            # is arbitrary afterwards, subject to the class invariant every API call preserves (C13)
            for f, ty in (("_watches", TSet(W.Watch)), ("_handlers", W.TH), ("_emitters", TSet(W.Emitter)), ("_emitter_for_watch", W.TE)):
                ex.heap[(self.me.id, f)] = ex.fresh(ty, f)
            for nm, fml in W.inv(W.view(ex, self.me)):
                ex.assume(fml)

    def post(self, ex, result):
        W = self.W
        called = ex.ghost["called"].t
        if self.sentinel:
            ex.oblige("post[stop sentinel: no callback]", z3.Not(called[ex.fresh_term(W.HS, "anyH")]))
            return
        hh = ex.fresh_term(W.HS, "anyH")
        if self.reentrant:
            ex.oblige("post[only handlers registered for the event's watch when dispatch began]", z3.Implies(called[hh], self.H0()[hh]))
        else:
            ex.oblige("post[every handler registered for the watch is called exactly once, nobody else]", called[hh] == self.H0()[hh])
        ex.oblige("post[task_done once]", ex.ghost["task_done"] == 1)


class DispatchWorld(ObsWorld):
    def is_(self, ex, l, r):
        a = isinstance(l, VOpaque) and l.kind == "stop_event"
        b = isinstance(r, VOpaque) and r.kind == "stop_event"
        if a or b:
            return a and b
        return NotImplemented


class QueueEvent(FnSpec):
    """EventEmitter.queue_event puts the pair (event, self.watch) iff the filter is None or the event is an
    instance of one of the filter's classes (subclass relation read from the real class statements)."""
    relpath, qualname, prop = API, "EventEmitter.queue_event", PROP
    inline = {"EventEmitter.watch"}

    def __init__(self, prop=PROP):
        self.prop = prop
        from specs.common import EventWorld
        self.PathS = ground.usort("QPath")
        self.EW = EventWorld(TRef("QPath", self.PathS), tag="Q")
        self.world = self
        self.ClsT = self.EW.EvTT.tys[0]
        self.WS = ground.usort("Watch")
        self.Watch = TRef("Watch", self.WS)
        self.Item = TTup(self.EW.Event, self.Watch)

    def isinstance(self, ex, v, cls):
        # cls: element of the filter set (an event class, symbolic)
        if isinstance(v, VRef) and v.ty is self.EW.Event and isinstance(cls, VRef) and cls.ty.sort == self.EW.ClsS:
            return VBool(self.sub(self.EW.e_cls(v.t), cls.t))
        raise Unsupported("isinstance")

    def sub(self, c, d):
        """c is a subclass of d, from the real class hierarchy"""
        parts = []
        for n in self.EW.names:
            parts.append(z3.And(d == self.EW.cls[n], self.EW.subclass_of(c, n)))
        return z3.Or(*parts)

    def globals(self):
        def put(ex, recv, args, kw, node):
            ex.emit("puts", args[0])
            return None
        return {"event_queue.put": put}

    def setup(self, ex):
        self.me = VObj("EventEmitter")
        self.ev = ex.fresh_term(self.EW.EvS, "event")
        self.w = ex.fresh_term(self.WS, "watch")
        self.filt = ex.fresh(TOpt(TSet(self.ClsT)), "event_filter")
        ex.heap[(self.me.id, "_event_filter")] = self.filt
        ex.heap[(self.me.id, "_watch")] = self.Watch.wrap(self.w)
        ex.heap[(self.me.id, "_event_queue")] = VOpaque("event_queue")
        ex.ghost["puts"] = TList(self.Item).empty()
        return {"self": self.me, "event": self.EW.Event.wrap(self.ev)}

    def post(self, ex, result):
        puts = ex.ghost["puts"]
        c = z3.Const("fc", self.EW.ClsS)
        accept = z3.Or(z3.Not(self.filt.some), z3.Exists([c], z3.And(self.filt.val.t[c], self.sub(self.EW.e_cls(self.ev), c))))
        ex.oblige("post[queued iff no filter or instance of a filter class]", (puts.n == 1) == accept)
        ex.oblige("post[at most one item]", z3.Or(puts.n == 0, puts.n == 1))
        ex.oblige("post[the item is the pair (event, this emitter's watch)]", z3.Implies(puts.n == 1, puts.arr[0] == self.Item.mk(self.ev, self.w)))


def make_specs():
    W = DispatchWorld()
    specs = [Dispatch(W, False), Dispatch(W, True), QueueEvent()]
    # lock discipline of every registry mutator: the C13 contracts executed again, every protected access obliges the lock
    for sp in c13.make_specs():
        if sp.qualname.startswith("BaseObserver.") and sp.qualname != "BaseObserver.start":
            sp.prop = PROP
            specs.append(sp)
    from specs import c16
    for sp in c16.make_specs():   # FIFO / no-loss of the observer's event queue
        sp.prop = PROP
        specs.append(sp)
    # 'nobody else': which handler set an event goes to is decided by watch identity (path, recursive flag, filter)
    WW = c13.WatchWorld()
    for n in ("key", "__eq__"):
        s2 = c13.WatchSpec(WW, n)
        s2.prop = PROP
        specs.append(s2)
    # 'a handler never receives an event of a watch it is not registered for': the queue an observer dispatches from is its
    # own - created by its constructor, not shared with another observer
    from specs import c06
    di = c06.DispatcherInit()
    di.prop = PROP
    specs.append(di)
    # 'exactly once to every handler': the dispatcher loop does not swallow an exception that cut a handler loop short
    rl = c06.RunLoop("EventDispatcher")
    rl.prop = PROP
    specs.append(rl)
    return specs


EXPECTED_CLAUSES = ["EventDispatcher.__init__.post[the event queue is created by this constructor call", "dispatch_events.post[every handler registered for the watch is called exactly once", "dispatch_events.callback[handler is registered for this watch at the instant",
                    "dispatch_events.callback[observer lock held]", "queue_event.post[queued iff", "queue_event.post[the item is the pair", "schedule.lock-held[", "unschedule.lock-held[", "unschedule_all.lock-held["]
CANARIES = [
    {"name": "iterate the handler set without the lock", "file": API, "fn": "BaseObserver.dispatch_events",
     "find": "        with self._lock:\n", "replace": "        if True:\n"},
    {"name": "queue_event puts (event, None)", "file": API, "fn": "EventEmitter.queue_event", "find": "self._event_queue.put((event, self.watch))", "replace": "self._event_queue.put((event, None))"},
    {"name": "drop the membership re-check", "file": API, "fn": "BaseObserver.dispatch_events", "find": "if handler in self._handlers[watch]:", "replace": "if True:"},
    {"name": "isinstance -> exact class in queue_event", "file": API, "fn": "EventEmitter.queue_event", "find": "any(isinstance(event, cls) for cls in self._event_filter)", "replace": "any(type(event) is cls for cls in self._event_filter)"},
]
TRUSTED = c13.TRUSTED + ["E6 queue.Queue: get() returns one item previously put (FIFO is C16)", "handler.dispatch(event) is arbitrary user code: it may call any API of its own observer (registry havocked under the class invariant) but does not touch private fields",
                         "threading.RLock gives mutual exclusion between the dispatcher and API-calling threads; sections of other threads preserve the class invariant (C13)"]
ASSUMPTIONS = ["rely/guarantee: between lock holds other threads may change the registry arbitrarily within the class invariant; the dispatch loop reads it only while holding the lock (proved: every protected access has a lock-held obligation)",
               "start() is assumed not concurrent with other API calls"]
UNDECIDED_PARTS = ["'events of one watch arrive in the order they were queued' and coalescing are the queue's contract (C16) composed with E6, not re-proved here", "liveness (a queued event is eventually dispatched) is not a safety obligation"]


def lemmas():
    """structural facts the queue contracts rest on (C16's): event equality, and that the observer's queue adds nothing to
    the verified SkipRepeatsQueue"""
    from specs import c16
    return c16.lemmas()
