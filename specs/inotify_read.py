"""Contracts of the Inotify class (inotify_c.py), shared by C12 (descriptor typestate), C07 (no uncaught
exception in the reader), C02 (watch-map invariant, re-keying) and C14 (prefix rewrite of the map).

Paths are an uninterpreted sort with the string facts the code relies on as axioms; each axiom is a lemma proved
over real SMT-LIB strings in `string_lemmas()` (so `str.replace(a, b, 1)` on a key with prefix `a` IS prefix
substitution, while `str.replace(a, b)` without count is a different, unconstrained function).

Ghost: K = set of live kernel watch descriptors; per-descriptor open flags; `released`."""
from __future__ import annotations
import z3
from pyvc.sym import *
from pyvc.engine import FnSpec, LoopSpec, Obligation, Raise, PathEnd
from pyvc import ground
from specs import inotify_table as T

FILE = "watchdog/observers/inotify_c.py"
LOCK = "Inotify._lock"
EVENT_BITS = [k for k in T.KINDS]


class IRWorld:
    def __init__(self):
        self.PS = ground.usort("NPath")
        P, B = self.PS, z3.BoolSort()
        self.nonempty = z3.Function("npath_nonempty", P, B)
        self.join = z3.Function("npath_join", P, P, P)
        self.dirname = z3.Function("npath_dirname", P, P)
        self.under = z3.Function("npath_startswith_plus_sep", P, P, B)     # under(a, p): p.startswith(a + sep)
        self.prefix = z3.Function("npath_startswith", P, P, B)              # prefix(a, p): p.startswith(a)
        self.subst = z3.Function("npath_prefix_subst", P, P, P, P)          # subst(a, b, p) = b ++ p[len(a):]
        self.rewrite1 = z3.Function("npath_replace_first", P, P, P, P)      # p.replace(a, b, 1)
        self.replace_all = z3.Function("npath_replace_all", P, P, P, P)     # p.replace(a, b)
        self.empty = z3.Const("npath_empty", P)
        world = self

        class PT(TRef):
            def unwrap(s, v):
                if isinstance(v, bytes) and v == b"":
                    return world.empty
                return TRef.unwrap(s, v)
        self.Path = PT("NPath", P, truthy=lambda t: self.nonempty(t), methods={"startswith": self.m_startswith, "replace": self.m_replace})
        self.FdS = ground.usort("Fd")
        self.Fd = TRef("Fd", self.FdS)
        self.NEvTT = TTup(TInt, TBits, TInt, self.Path, self.Path, name="NativeEvent")
        attrs = {}
        for i, nm in enumerate(("wd", "mask", "cookie", "name", "src_path")):
            attrs[nm] = (lambda ex, r, i=i: self.NEvTT.tys[i].wrap(self.NEvTT.proj[i](r.t)))
        for nm in ("is_modify", "is_close_write", "is_close_nowrite", "is_open", "is_access", "is_delete", "is_delete_self", "is_create", "is_moved_from", "is_moved_to", "is_move", "is_move_self",
                   "is_attrib", "is_ignored", "is_directory"):
            attrs[nm] = (lambda ex, r, nm=nm: ex.getattr(self.as_obj(ex, r), nm))   # the real property bodies are executed
        self.NEv = TRef("NativeEvent", self.NEvTT.sort, attrs=attrs)
        self.LEv = TList(self.NEv)
        self.RecTT = TTup(TInt, TBits, TInt, self.Path, name="NativeRecord")
        self.LRec = TList(self.RecTT)
        self.TWP = TDict(self.Path, TInt)
        self.TPW = TDict(TInt, self.Path)
        self.TMF = TDict(TInt, self.NEv)
        self.WTrip = TTup(self.Path, TList(self.Path), TList(self.Path), name="WalkTriple")
        self.LWalk = TList(self.WTrip)

    def as_obj(self, ex, r):
        o = VObj("InotifyEvent")
        for i, nm in enumerate(("_wd", "_mask", "_cookie", "_name", "_src_path")):
            ex.heap[(o.id, nm)] = self.NEvTT.tys[i].wrap(self.NEvTT.proj[i](r.t))
        return o

    def ctor_event(self, ex, args, kw, node):
        vals = [ty.unwrap(a) for ty, a in zip(self.NEvTT.tys, args)]
        return self.NEv.wrap(self.NEvTT.mk(*vals))

    def axioms(self):
        a, b, p, q = z3.Consts("xa xb xp xq", self.PS)
        return [z3.ForAll([a, p], z3.Implies(self.under(a, p), z3.And(self.prefix(a, p), p != a))),
                z3.ForAll([a, b, p], z3.Implies(self.prefix(a, p), self.rewrite1(p, a, b) == self.subst(a, b, p))),
                z3.ForAll([a, b, p, q], z3.Implies(z3.And(self.prefix(a, p), self.prefix(a, q), self.subst(a, b, p) == self.subst(a, b, q)), p == q)),
                z3.ForAll([a], self.prefix(a, a)),
                z3.ForAll([a, b], self.subst(a, b, a) == b),
                z3.ForAll([a, b, p], z3.Implies(self.under(a, p), self.under(b, self.subst(a, b, p)))),
                z3.Not(self.nonempty(self.empty))]

    # ---- str methods on paths
    def m_startswith(self, ex, r, args, kw, node):
        x = args[0]
        if isinstance(x, VOpaque) and x.kind == "path_plus_sep":
            return VBool(self.under(x.data, r.t))
        return VBool(self.prefix(self.Path.unwrap(x), r.t))

    def m_replace(self, ex, r, args, kw, node):
        a, b = self.Path.unwrap(args[0]), self.Path.unwrap(args[1])
        cnt = args[2] if len(args) > 2 else kw.get("count")
        if cnt == 1:
            return self.Path.wrap(self.rewrite1(r.t, a, b))
        if cnt is None:
            return self.Path.wrap(self.replace_all(r.t, a, b))
        raise Unsupported("replace with another count")

    def binop(self, ex, op, l, r, node):
        import ast
        if isinstance(op, ast.Add) and isinstance(l, VRef) and l.ty is self.Path and r == b"/":
            return VOpaque("path_plus_sep", l.t)
        return NotImplemented

    def isinstance(self, ex, v, cls):
        raise Unsupported("isinstance")

    def hasattr(self, ex, obj, name):
        if isinstance(obj, VGlobal) and obj.dotted == "select" and name == "poll":
            return True
        raise Unsupported("hasattr")


def string_lemmas():
    """The path axioms above, proved over real strings (SMT-LIB string theory) with sep = '/'."""
    S = z3.StringSort()
    a, b, p, q, t, u = z3.Consts("sa sb sp sq st su", S)
    sep = z3.StringVal("/")
    under = lambda x, y: z3.PrefixOf(z3.Concat(x, sep), y)
    out = [Obligation("lemma[startswith(a + sep) implies startswith(a) and differs from a]", "lemma", [under(a, p)], z3.And(z3.PrefixOf(a, p), p != a), "", "path strings"),
           Obligation("lemma[replace(a, b, 1) on a string with prefix a is prefix substitution]", "lemma", [p == z3.Concat(a, t)], z3.Replace(p, a, b) == z3.Concat(b, t), "", "path strings"),
           Obligation("lemma[prefix substitution is injective]", "lemma", [p == z3.Concat(a, t), q == z3.Concat(a, u), z3.Concat(b, t) == z3.Concat(b, u)], p == q, "", "path strings"),
           Obligation("lemma[substituted keys lie below the new directory]", "lemma", [p == z3.Concat(a, sep, t)], under(b, z3.Concat(b, sep, t)), "", "path strings")]
    return out


class InoSpec(FnSpec):
    relpath = FILE

    def new_object(self, ex, with_maps=True):
        W = self.W
        self.me = VObj("Inotify")
        H = ex.heap
        self.fd_i, self.fd_r, self.fd_w = (ex.fresh_term(W.FdS, n) for n in ("inotify_fd", "kill_r", "kill_w"))
        ex.assume(z3.Distinct(self.fd_i, self.fd_r, self.fd_w))
        H[(self.me.id, "_inotify_fd")] = W.Fd.wrap(self.fd_i)
        H[(self.me.id, "_kill_r")] = W.Fd.wrap(self.fd_r)
        H[(self.me.id, "_kill_w")] = W.Fd.wrap(self.fd_w)
        H[(self.me.id, "_lock")] = VOpaque("lock", LOCK)
        H[(self.me.id, "_check_inotify_fd")] = VOpaque("callable", self.h_poll)
        self.root = ex.fresh_term(W.PS, "watch_root")
        ex.assume(W.nonempty(self.root))
        H[(self.me.id, "_path")] = W.Path.wrap(self.root)
        H[(self.me.id, "_event_mask")] = VOpaque("mask")
        self.recursive = ex.fresh_term(z3.BoolSort(), "is_recursive")
        H[(self.me.id, "_is_recursive")] = VBool(self.recursive)
        H[(self.me.id, "_follow_symlink")] = VBool(ex.fresh_term(z3.BoolSort(), "follow_symlink"))
        if with_maps:
            H[(self.me.id, "_wd_for_path")] = ex.fresh(W.TWP, "_wd_for_path")
            H[(self.me.id, "_path_for_wd")] = ex.fresh(W.TPW, "_path_for_wd")
            H[(self.me.id, "_moved_from_events")] = ex.fresh(W.TMF, "_moved_from_events")
        self.g = {"K": ex.fresh_term(z3.ArraySort(z3.IntSort(), z3.BoolSort()), "kernel_watches")}
        self.fresh_shared(ex)
        self.kill_written = False
        self.rm_watch_calls = 0
        self.i_am_reader = False
        self.sec_start = None

    def fresh_shared(self, ex):
        B = z3.BoolSort()
        ex.heap[(self.me.id, "_closed")] = VBool(ex.fresh_term(B, "_closed"))
        ex.heap[(self.me.id, "_is_reading")] = VBool(ex.fresh_term(B, "_is_reading"))
        for n in ("open_i", "open_r", "open_w", "released"):
            self.g[n] = ex.fresh_term(B, n)

    def st(self, ex):
        H = ex.heap
        tb = lambda v: TBool.unwrap(v)
        return {"closed": tb(H[(self.me.id, "_closed")]), "reading": tb(H[(self.me.id, "_is_reading")]), "open_i": self.g["open_i"], "open_r": self.g["open_r"], "open_w": self.g["open_w"], "released": self.g["released"]}

    def J(self, s):
        return [("descriptors open until released", z3.Implies(z3.Not(s["released"]), z3.And(s["open_i"], s["open_r"], s["open_w"]))),
                ("released => closed, and all three descriptors closed", z3.Implies(s["released"], z3.And(s["closed"], z3.Not(s["open_i"]), z3.Not(s["open_r"]), z3.Not(s["open_w"])))),
                ("a read in flight is not released under its feet", z3.Implies(s["reading"], z3.Not(s["released"]))),
                ("closed with no read in flight => released (nobody is left to release later)", z3.Implies(z3.And(s["closed"], z3.Not(s["reading"])), s["released"]))]

    def rely(self, o, n):
        base = [z3.Implies(o["closed"], n["closed"]), z3.Implies(o["released"], n["released"])]
        if self.i_am_reader:
            # only the reader writes _is_reading; while it is set, close() leaves the release to the reader
            base += [n["reading"] == o["reading"], z3.Implies(o["reading"], n["released"] == o["released"]),
                     z3.Implies(z3.Not(o["reading"]), z3.Implies(n["released"], n["closed"]))]
        return base

    def havoc(self, ex):
        old = self.st(ex)
        self.fresh_shared(ex)
        new = self.st(ex)
        for nm, f in self.J(new):
            ex.assume(f)
        for f in self.rely(old, new):
            ex.assume(f)

    def on_with(self, ex, cv, node, entering):
        if isinstance(cv, VOpaque) and cv.kind == "lock":
            if entering:
                # Inotify._lock is a plain threading.Lock: taking it while this thread already holds it blocks for ever
                ex.oblige("acquire[the instance lock is not re-entrant: it is never taken by a thread that already holds it (self-deadlock of the reader: close() and every stop() behind it would block for ever)]",
                          LOCK not in ex.held, kind="lock")
                if LOCK in ex.held:
                    raise PathEnd()
                self.havoc(ex)
                ex.held.append(LOCK)
                self.sec_start = self.st(ex)
            else:
                for nm, f in self.J(self.st(ex)):
                    ex.oblige(f"release[J:{nm}]", f, kind="lock-invariant")
                self.on_release(ex)
                ex.held.remove(LOCK)
                # from here on other threads run: what this thread does next WITHOUT the lock (poll/read by the reader, a
                # write by a closer) sees the shared state only up to the rely
                self.havoc(ex)
            return
        raise Unsupported("with")

    def on_release(self, ex):
        pass

    def on_field(self, ex, obj, field, write):
        if obj is self.me and field in ("_closed", "_is_reading") and LOCK not in ex.held and not getattr(self, "constructing", False):
            ex.oblige(f"lock-held[{'write' if write else 'read'} {field}]", False, kind="lock")

    # ---- the kernel (E8) and os
    def fd_open(self, fdterm):
        return z3.If(fdterm == self.fd_i, self.g["open_i"], z3.If(fdterm == self.fd_r, self.g["open_r"], z3.If(fdterm == self.fd_w, self.g["open_w"], z3.BoolVal(False))))

    def h_poll(self, ex, args, kw, node):
        ex.oblige("poll[inotify descriptor and wake-up pipe are open]", z3.And(self.g["open_i"], self.g["open_r"]), kind="typestate")
        return VBool(ex.fresh_term(z3.BoolSort(), "inotify_fd_readable"))

    def base_globals(self):
        W = self.W

        def os_read(ex, a, k, n):
            ex.oblige("os.read[descriptor is open]", self.fd_open(W.Fd.unwrap(a[0])), kind="typestate")
            return VOpaque("buffer")

        def os_write(ex, a, k, n):
            ex.oblige("os.write[descriptor is open]", self.fd_open(W.Fd.unwrap(a[0])), kind="typestate")
            if z3.is_true(z3.simplify(W.Fd.unwrap(a[0]) == self.fd_w)):
                self.kill_written = True
            return 1

        def os_close(ex, a, k, n):
            f = W.Fd.unwrap(a[0])
            ex.oblige("os.close[descriptor is open: never closed twice]", self.fd_open(f), kind="typestate")
            for nm, t in (("open_i", self.fd_i), ("open_r", self.fd_r), ("open_w", self.fd_w)):
                self.g[nm] = z3.If(f == t, z3.BoolVal(False), self.g[nm])
            return None

        def rm_watch(ex, a, k, n):
            ex.oblige("inotify_rm_watch[descriptor is open]", self.fd_open(W.Fd.unwrap(a[0])), kind="typestate")
            self.rm_watch_calls += 1
            return VInt(ex.fresh_term(z3.IntSort(), "rm_watch_result"))

        def add_watch(ex, a, k, n):
            ex.oblige("inotify_add_watch[descriptor is open]", self.fd_open(W.Fd.unwrap(a[0])), kind="typestate")
            r = ex.fresh_term(z3.IntSort(), "wd")
            ex.assume(z3.Or(r == -1, r >= 1))
            self.last_add = (W.Path.unwrap(a[1]), r)
            return VInt(r)
        return {"os.read": os_read, "os.write": os_write, "os.close": os_close, "inotify_rm_watch": rm_watch, "inotify_add_watch": add_watch,
                "os.path.join": lambda ex, a, k, n: W.Path.wrap(W.join(W.Path.unwrap(a[0]), W.Path.unwrap(a[1]))),
                "os.path.dirname": lambda ex, a, k, n: W.Path.wrap(W.dirname(W.Path.unwrap(a[0]))),
                "os.path.sep.encode": lambda ex, recv=None, a=None, k=None, n=None: b"/",
                "InotifyEvent": W.ctor_event,
                "Inotify._raise_error": self.h_raise_error}

    def h_raise_error(self, ex, recv, a, k, n):
        """Inotify._raise_error(): raises OSError for every errno but EACCES (E8: errno is arbitrary)"""
        if ex.choose(2, "errno is EACCES (no exception)") == 0:
            raise Raise(VExc("OSError"), "_raise_error()")
        return None

    def globals(self):
        return self.base_globals()


class CloseResources(InoSpec):
    qualname = "Inotify._close_resources"

    def __init__(self, W, prop):
        self.W, self.world, self.prop = W, W, prop

    def setup(self, ex):
        self.new_object(ex)
        ex.held.append(LOCK)
        s = self.st(ex)
        ex.assume(z3.And(s["open_i"], s["open_r"], s["open_w"], z3.Not(s["released"])))  # requires: not yet released
        return {"self": self.me}

    def post(self, ex, result):
        s = self.st(ex)
        ex.oblige("post[all three descriptors closed, each exactly once]", z3.And(z3.Not(s["open_i"]), z3.Not(s["open_r"]), z3.Not(s["open_w"])))


def close_resources_contract(sp):
    def h(ex, recv, a, k, n):
        s = sp.st(ex)
        ex.require("_close_resources[descriptors not released yet: no double close]", z3.And(z3.Not(s["released"]), s["open_i"], s["open_r"], s["open_w"]))
        for nm in ("open_i", "open_r", "open_w"):
            sp.g[nm] = z3.BoolVal(False)
        sp.g["released"] = z3.BoolVal(True)
        sp.released_by_me = True
        return None
    return h


class Close(InoSpec):
    qualname = "Inotify.close"

    def __init__(self, W, prop):
        self.W, self.world, self.prop = W, W, prop

    def globals(self):
        g = self.base_globals()
        g["Inotify._close_resources"] = close_resources_contract(self)
        return g

    def setup(self, ex):
        self.new_object(ex)
        self.released_by_me = False
        self.before = self.after = None
        self.entry = self.st(ex)
        return {"self": self.me}

    def on_release(self, ex):
        o, n = self.sec_start, self.st(ex)
        self.before, self.after = o, n
        # guarantee: close() releases the descriptors itself only when no read is in flight
        ex.oblige("release[guarantee: never releases under a read in flight]", z3.Implies(o["reading"], n["released"] == o["released"]), kind="guarantee")
        ex.oblige("release[guarantee: close() does not touch _is_reading]", n["reading"] == o["reading"], kind="guarantee")

    def post(self, ex, result):
        o, n = self.before, self.after
        if o is None:   # returned without a critical section: nothing was decided atomically
            ex.oblige("post[the closed test and the release are one critical section]", False)
            o = n = self.st(ex)
        ex.oblige("post[closed]", n["closed"])
        ex.oblige("post[released now, or left to the reader in flight with the wake-up byte written]", z3.Or(o["closed"], n["released"], z3.And(n["reading"], z3.BoolVal(self.kill_written))))
        ex.oblige("post[second close() is a no-op]", z3.Implies(o["closed"], z3.And(z3.BoolVal(not self.kill_written and not self.released_by_me and self.rm_watch_calls == 0))))
        ex.oblige("post[lock released]", LOCK not in ex.held)


class ReadEvents(InoSpec):
    qualname = "Inotify.read_events"
    inline = {"Inotify.remember_move_from_event", "Inotify.source_for_move", "Inotify.is_recursive", "InotifyEvent.src_path", "InotifyEvent.cookie"} | {
        "InotifyEvent." + p for p in ("is_moved_to", "is_moved_from", "is_directory", "is_create", "is_ignored", "is_delete_self", "is_move_self")}

    def __init__(self, W, prop, want=("fds", "safety", "maps")):
        self.W, self.world, self.prop, self.want = W, W, prop, want
        self.var_types = {"event_list": W.LEv, "events": W.LEv}
        hv = [("call", self.havoc_maps)]
        self.loops = {
            1: LoopSpec("os.walk(src_path)", self.inv_walk, modifies=[("call", self.havoc_sim)], ghost_start=self.gs_walk, every_element=True),
            2: LoopSpec("dirnames", self.inv_dirs, modifies=[("call", self.havoc_sim)], ghost_start=self.gs_sim_entry, ghost_end=self.ge_dir, every_element=True),
            3: LoopSpec("filenames", self.inv_files, modifies=[("call", self.havoc_sim)], ghost_start=self.gs_sim_entry, ghost_end=self.ge_file, every_element=True),
            4: LoopSpec("True", self.inv_prologue, modifies=[("call", self.havoc_shared_outside)]),
            5: LoopSpec("Inotify._parse_event_buffer(event_buffer)", self.inv_records, modifies=hv, ghost_start=self.gs_record, ghost_end=self.ge_record, every_element=True),
            6: LoopSpec("self._wd_for_path.copy()", self.inv_rekey, modifies=[("call", self.havoc_rekey)]),
        }
        self.expected_covers = ["loop1.body", "loop1.end", "loop2.body", "loop2.end", "loop3.body", "loop3.end", "loop4.body", "loop5.body", "loop5.end", "loop6.body", "loop6.end", "exit"]
        self.i_am_reader_flag = True

    # ------------------------------------------------------------------ environment
    def globals(self):
        W = self.W
        g = self.base_globals()
        g["Inotify._close_resources"] = close_resources_contract(self)
        g["Inotify._add_watch"] = self.h_add_watch
        g["Inotify._add_dir_watch"] = self.h_add_dir_watch
        g["Inotify._forget_paths"] = self.h_forget_paths
        g["Inotify._parse_event_buffer"] = self.h_parse
        g["os.walk"] = self.h_walk
        return g

    def h_parse(self, ex, recv, a, k, n):
        """C20's contract: the records of the buffer, in order.  E8: every record refers to a live descriptor or -1,
        carries exactly one event bit (+ IN_ISDIR); names are plain."""
        W = self.W
        self.recs = ex.fresh(W.LRec, "records")
        ex.assume(self.recs.n >= 0)
        return self.recs

    def h_add_watch(self, ex, recv, a, k, n):
        """call-side contract of _add_watch(path, mask) (proved by AddWatch): the kernel either refuses (OSError) or
        returns a descriptor - possibly one already handed out - which is then live and mapped both ways"""
        W = self.W
        p = W.Path.unwrap(a[0])
        self.add_calls = getattr(self, "add_calls", 0) + 1
        if ex.choose(2, "inotify_add_watch fails (ENOENT/ENOSPC/EACCES...)") == 1:
            if self.add_calls == 1:
                self.add_failed_first = True
            raise Raise(VExc("OSError"), "_add_watch()")
        wd = ex.fresh_term(z3.IntSort(), "new_wd")
        ex.assume(wd >= 1)
        H = ex.heap
        wp, pw = H[(self.me.id, "_wd_for_path")], H[(self.me.id, "_path_for_wd")]
        H[(self.me.id, "_wd_for_path")] = wp.with_(dom=z3.Store(wp.dom, p, True), val=z3.Store(wp.val, p, wd))
        H[(self.me.id, "_path_for_wd")] = pw.with_(dom=z3.Store(pw.dom, wd, True), val=z3.Store(pw.val, wd, p))
        self.g["K"] = z3.Store(self.g["K"], wd, True)
        self.added.append(p)
        return VInt(wd)

    def h_add_dir_watch(self, ex, recv, a, k, n):
        """call-side contract of _add_dir_watch(path, mask, recursive=True) (proved by AddDirWatch): raises OSError or
        returns with the path watched; either way path entries and live descriptors only accumulate and W1 holds"""
        W = self.W
        p = W.Path.unwrap(a[0])
        old = self.maps(ex)
        fails = ex.choose(2, "_add_dir_watch raises OSError (vanished, not a directory, kernel refused)") == 1
        self.havoc_maps(ex, move_records=False)
        new = self.maps(ex)
        w, q = z3.Const("dw", z3.IntSort()), z3.Const("dq", W.PS)
        ex.assume(z3.ForAll([q], z3.Implies(old["wp"].dom[q], new["wp"].dom[q])))
        ex.assume(z3.ForAll([w], z3.Implies(old["K"][w], new["K"][w])))
        ex.assume(z3.ForAll([w], z3.Implies(new["K"][w], new["pw"].dom[w])))
        self.dir_watch_calls = getattr(self, "dir_watch_calls", [])
        self.dir_watch_calls.append((p, fails))
        if fails:
            raise Raise(VExc("OSError"), "_add_dir_watch()")
        ex.assume(new["wp"].dom[p])
        return None

    def h_forget_paths(self, ex, recv, a, k, n):
        """call-side contract of _forget_paths(path) (proved by ForgetPaths): exactly the path entries at or below `path`
        are dropped, every other entry keeps its descriptor, the descriptor -> path map and the kernel are not touched"""
        W = self.W
        p = W.Path.unwrap(a[0])
        old = ex.heap[(self.me.id, "_wd_for_path")]
        new = ex.fresh(W.TWP, "_wd_for_path")
        q = z3.Const("fq", W.PS)
        ex.assume(z3.ForAll([q], new.dom[q] == z3.And(old.dom[q], q != p, z3.Not(W.under(p, q)))))
        ex.assume(z3.ForAll([q], z3.Implies(new.dom[q], new.val[q] == old.val[q])))
        ex.heap[(self.me.id, "_wd_for_path")] = new
        self.forgot = getattr(self, "forgot", [])
        self.forgot.append((p, len(getattr(self, "dir_watch_calls", []))))
        return None

    def h_walk(self, ex, a, k, n):
        W = self.W
        w = ex.fresh(W.LWalk, "walk")
        ex.assume(w.n >= 0)
        self.walk = w
        self.walk_top = W.Path.unwrap(a[0])
        return w

    # ------------------------------------------------------------------ setup
    def setup(self, ex):
        W = self.W
        for f in W.axioms():
            ex.assume(f)
        self.new_object(ex)
        self.i_am_reader = True
        self.released_by_me = False
        self.added = []
        self.recs = None
        self.dvis = z3.IntVal(0)
        self.walk = None
        self.cur = None
        s = self.st(ex)
        # the reader is not yet in flight on entry (one reader thread: InotifyBuffer.run)
        ex.assume(z3.Not(s["reading"]))
        for nm, f in self.J(s):
            ex.assume(f)
        for nm, f in self.map_inv(ex):
            ex.assume(f)
        self.maps0 = self.maps(ex)
        self.mf_entry = ex.heap[(self.me.id, "_moved_from_events")]
        return {"self": self.me, "event_buffer_size": VOpaque("size")}

    def maps(self, ex):
        H = ex.heap
        return {"wp": H[(self.me.id, "_wd_for_path")], "pw": H[(self.me.id, "_path_for_wd")], "K": self.g["K"]}

    def map_inv(self, ex):
        """W1: every live kernel descriptor has a path entry (the two maps are NOT assumed mutually inverse:
        inotify_add_watch may return a descriptor that is already in use for the same inode)"""
        m = self.maps(ex)
        w = z3.Const("mw", z3.IntSort())
        return [("every live kernel descriptor has a path entry", z3.ForAll([w], z3.Implies(m["K"][w], m["pw"].dom[w])))]

    # ------------------------------------------------------------------ havocs / invariants
    def havoc_shared_outside(self, ex):
        if LOCK not in ex.held:
            self.fresh_shared(ex)

    def inv_prologue(self, ex, _):
        s = self.st(ex)
        return [("lock-not-held-between-attempts", z3.BoolVal(LOCK not in ex.held))] + [("J:" + nm, f) for nm, f in self.J(s)] + [("not-reading-between-attempts", z3.Not(s["reading"])), ("nothing-released-by-this-call", z3.BoolVal(not self.released_by_me))]

    def havoc_maps(self, ex, move_records=True):
        W = self.W
        H = ex.heap
        H[(self.me.id, "_wd_for_path")] = ex.fresh(W.TWP, "_wd_for_path")
        H[(self.me.id, "_path_for_wd")] = ex.fresh(W.TPW, "_path_for_wd")
        if move_records:   # only the record loop writes them (a store inside another loop body is havocked by the engine's own
            H[(self.me.id, "_moved_from_events")] = ex.fresh(W.TMF, "_moved_from_events")   # mutated-lvalue analysis)
        self.g["K"] = ex.fresh_term(self.g["K"].sort(), "kernel_watches")

    def inv_records(self, ex, k):
        out = [("lock-held-while-translating", z3.BoolVal(LOCK in ex.held))] + self.map_inv(ex)
        el = ex.scope.lookup("event_list").vars["event_list"]
        out.append(("event_list-well-formed", el.n >= 0))
        if "maps" in self.want:
            c = z3.Const("mc", z3.IntSort())
            mf = ex.heap[(self.me.id, "_moved_from_events")]
            # the two halves of a rename may arrive in different read batches (the reader woke between them, or the buffer
            # was full): the remembered first half must still be there when the second half is translated
            out.append(("move records of earlier batches are kept (a rename split across two reads is still paired)",
                        isinstance(mf, VDict) and z3.ForAll([c], z3.Implies(self.mf_entry.dom[c], mf.dom[c]))))
        return out

    def gs_record(self, ex, k, el=None):
        """E8 for the record being processed"""
        W = self.W
        self.cur = el
        t = el.term if isinstance(el, VTuple) else el.t
        wd, mask = W.RecTT.proj[0](t), W.RecTT.proj[1](t)
        self.cur_wd, self.cur_mask = wd, mask
        bits = [z3.BitVecVal(T.ABI[b], 32) for b in EVENT_BITS]
        isd = z3.BitVecVal(T.ABI["IN_ISDIR"], 32)
        ex.assume(z3.Or(*[z3.Or(mask == b, mask == (b | isd)) for b in bits]))
        ex.assume(z3.Or(wd == -1, self.g["K"][wd]))
        # E8: records about a child of the watched directory (create/delete/moved_from/moved_to) carry the child's name
        child = z3.BitVecVal(T.ABI["IN_CREATE"] | T.ABI["IN_DELETE"] | T.ABI["IN_MOVED_FROM"] | T.ABI["IN_MOVED_TO"], 32)
        ex.assume(z3.Implies((mask & child) != 0, W.nonempty(W.RecTT.proj[3](t))))
        self.maps_rec0 = self.maps(ex)
        sc = ex.scope.lookup("event_list")
        self.el_rec0 = sc.vars["event_list"] if sc is not None else None
        self.mf_rec0 = ex.heap[(self.me.id, "_moved_from_events")]
        self.added = []
        self.add_failed_first = False
        self.add_calls = 0
        self.dir_watch_calls = []
        self.forgot = []
        # IN_IGNORED is the last record for its descriptor: the kernel has dropped that watch
        ign = (mask & z3.BitVecVal(T.ABI["IN_IGNORED"], 32)) != 0
        self.g["K"] = z3.If(ign, z3.Store(self.g["K"], wd, False), self.g["K"])

    def ge_record(self, ex, k, el=None):
        """C02 region contract of one record: what the watch maps look like afterwards"""
        if "maps" not in self.want:
            return
        W = self.W
        t = el.term if isinstance(el, VTuple) else el.t
        wd, mask, name = W.RecTT.proj[0](t), W.RecTT.proj[1](t), W.RecTT.proj[3](t)
        m0, m1 = self.maps_rec0, self.maps(ex)
        bit = lambda b: (mask & z3.BitVecVal(T.ABI[b], 32)) != 0
        isd = bit("IN_ISDIR")
        wd_path = m0["pw"].val[wd]
        src = z3.If(W.nonempty(name), W.join(wd_path, name), wd_path)
        rec = self.recursive
        live = wd != -1
        # what the batch hands on for this record: one event with the record's own fields whose path is the CURRENT path
        # of the record's descriptor (as of this record - an earlier record of the same batch may have renamed it) + name
        sc = ex.scope.lookup("event_list")
        el0, el1 = self.el_rec0, (sc.vars["event_list"] if sc is not None else None)
        if isinstance(el0, VList) and isinstance(el1, VList):
            ev = el1.arr[el0.n]
            P = W.NEvTT.proj
            ex.oblige("record[the event handed on carries the record's fields and the current path of its descriptor + name (also when an earlier record of the batch renamed that directory)]",
                      z3.Implies(live, z3.And(el1.n >= el0.n + 1, P[0](ev) == wd, P[1](ev) == mask, P[2](ev) == W.RecTT.proj[2](t), P[3](ev) == name, P[4](ev) == src)))
        else:
            ex.oblige("record[the batch is a list of native events]", False)
        if self.added:
            ex.oblige("record[watches are added only by a recursive instance, only for a directory announced by IN_CREATE]", z3.And(rec, bit("IN_CREATE"), isd))
        ex.oblige("record[IN_CREATE of a directory under a recursive watch: the new directory is watched (or the kernel refused it / it vanished)]",
                  z3.Implies(z3.And(live, rec, bit("IN_CREATE"), isd), z3.Or(m1["wp"].dom[src], z3.BoolVal(getattr(self, "add_failed_first", False)))))
        ex.oblige("record[IN_IGNORED: the descriptor's entry is pruned, and its path entry too if it still points at it]",
                  z3.Implies(z3.And(live, bit("IN_IGNORED")), z3.And(z3.Not(m1["pw"].dom[wd]), z3.Implies(z3.And(m0["wp"].dom[wd_path], m0["wp"].val[wd_path] == wd), z3.Not(m1["wp"].dom[wd_path])))))
        fp = z3.Const("fp", W.PS)
        ex.oblige("record[IN_IGNORED: every other path entry stays - in particular the entry of a name that was re-used for a new directory while the old descriptor was still draining]",
                  z3.Implies(z3.And(live, bit("IN_IGNORED")), z3.ForAll([fp], z3.Implies(z3.Not(z3.And(fp == wd_path, m0["wp"].val[fp] == wd)),
                                                                                        z3.And(m1["wp"].dom[fp] == m0["wp"].dom[fp], z3.Implies(m0["wp"].dom[fp], m1["wp"].val[fp] == m0["wp"].val[fp]))))))
        ex.oblige("record[IN_IGNORED: a path entry that meanwhile points at another descriptor (name re-used) is kept]",
                  z3.Implies(z3.And(live, bit("IN_IGNORED"), m0["wp"].dom[wd_path], m0["wp"].val[wd_path] != wd), z3.And(m1["wp"].dom[wd_path], m1["wp"].val[wd_path] == m0["wp"].val[wd_path])))
        # rename of a watched directory: found through the remembered MOVED_FROM with the same cookie
        mf = m0_mf = self.mf_rec0
        cookie = W.RecTT.proj[2](t)
        known = z3.And(mf.dom[cookie], m0["wp"].dom[W.NEvTT.proj[4](mf.val[cookie])])
        old = W.NEvTT.proj[4](mf.val[cookie])
        nv = m1["pw"].val[m0["wp"].val[old]]
        ex.oblige("record[second half of the rename of a watched directory: its entry moves to the new path, same descriptor, both maps]",
                  z3.Implies(z3.And(live, bit("IN_MOVED_TO"), known, old != src), z3.And(m1["wp"].dom[src], m1["wp"].val[src] == m0["wp"].val[old], z3.Or(nv == src, W.under(src, nv)), z3.Not(m1["wp"].dom[old]))))
        dwc = getattr(self, "dir_watch_calls", [])
        ex.oblige("record[a directory that arrives without a known watched source (moved in from outside, or renamed before its creation was processed) is watched by a recursive instance, unless it vanished or the kernel refused]",
                  z3.Implies(z3.And(live, rec, bit("IN_MOVED_TO"), isd, z3.Not(known)), z3.Or(m1["wp"].dom[src], z3.BoolVal(any(f for _p, f in dwc)))))
        for dp, _f in dwc:
            ex.oblige("record[a whole directory is put under watch only by a recursive instance, for the directory the record itself announces (IN_MOVED_TO without a known watched source)]",
                      z3.And(rec, bit("IN_MOVED_TO"), isd, z3.Not(known), dp == src))
        ex.oblige("record[at most one directory installation per record]", len(dwc) <= 1)
        fg = getattr(self, "forgot", [])
        # the path map may still hold entries at or below the arriving name: they belong to a directory that left the tree
        # earlier (its kernel watch lives on); a later rename of the NEW directory must not find them as its "source"
        ex.oblige("record[a directory that arrives without a known watched source: what the path map still held at or below its name is forgotten before the new tree is installed]",
                  z3.Implies(z3.And(live, rec, bit("IN_MOVED_TO"), isd, z3.Not(known)), z3.And(z3.BoolVal(len(fg) == 1 and fg[0][1] == 0), fg[0][0] == src if len(fg) == 1 else z3.BoolVal(False))))
        for fpth, _n in fg:
            ex.oblige("record[path entries are forgotten wholesale only for the name a directory arrives under without a known watched source]", z3.And(rec, bit("IN_MOVED_TO"), isd, z3.Not(known), fpth == src))
        ex.oblige("record[other kinds of records leave the path->descriptor map alone]",
                  z3.Implies(z3.And(live, z3.Not(bit("IN_MOVED_TO")), z3.Not(bit("IN_IGNORED")), z3.Not(z3.And(bit("IN_CREATE"), isd))), z3.And(m1["wp"].dom == m0["wp"].dom, m1["wp"].val == m0["wp"].val)))

    # ---- _recursive_simulate
    def havoc_sim(self, ex):
        self.havoc_maps(ex, move_records=False)
        self.dvis = ex.fresh_term(z3.IntSort(), "dirs_tried")

    def gs_walk(self, ex, k, el=None):
        self.dvis = z3.IntVal(0)

    def inv_walk(self, ex, k):
        sc = ex.scope.lookup("events")
        out = self.map_inv(ex)
        if not isinstance(k, bool) and z3.is_int_value(z3.simplify(k)) and z3.simplify(k).as_long() == 0 and ex.scope.lookup("root") is None:
            self.sim0 = self.maps(ex)   # entry of _recursive_simulate
        if getattr(self, "sim0", None) is not None:
            p = z3.Const("sp", self.W.PS)
            m = self.maps(ex)
            out.append(("watch entries only accumulate while simulating", z3.ForAll([p], z3.Implies(self.sim0["wp"].dom[p], z3.And(m["wp"].dom[p])))))
        if sc is not None and isinstance(sc.vars["events"], VList):
            out.append(("events-well-formed", sc.vars["events"].n >= 0))
        return out

    def inv_sim(self, ex, k):
        return self.inv_walk(ex, k)

    def inv_dirs(self, ex, k):
        return self.inv_walk(ex, k) + [("every listed sub-directory so far was tried (no failure abandons its siblings)", self.dvis == k)]

    def gs_sim_entry(self, ex, k, el=None):
        sc = ex.scope.lookup("events")
        self.sim_ev0 = sc.vars["events"] if sc is not None else None

    def simulated_record(self, ex, el, isdir):
        """a record the reader makes up for an entry it found by walking a directory that was populated before its watch
        existed: IN_CREATE (|IN_ISDIR) for exactly that entry - the listed name under the directory being listed"""
        W = self.W
        if "maps" not in self.want:      # a statement about paths: C02's, not C07's (exception freedom) or C12's (descriptors)
            return
        sc, rs = ex.scope.lookup("events"), ex.scope.lookup("root")
        e0, e1 = self.sim_ev0, (sc.vars["events"] if sc is not None else None)
        if not (isinstance(e0, VList) and isinstance(e1, VList) and rs is not None):
            ex.oblige("simulated[the walk appends native events]", False)
            return
        root = W.Path.unwrap(rs.vars["root"])
        name = W.Path.unwrap(el)
        ev = e1.arr[e0.n]
        P = W.NEvTT.proj
        want_mask = z3.BitVecVal(T.ABI["IN_CREATE"] | (T.ABI["IN_ISDIR"] if isdir else 0), 32)
        ex.oblige(f"simulated[{'directory' if isdir else 'file'}: at most one made-up record per listed entry, IN_CREATE{'|IN_ISDIR' if isdir else ''} for the listed name under the directory being listed]",
                  z3.Or(e1.n == e0.n, z3.And(e1.n == e0.n + 1, P[1](ev) == want_mask, P[3](ev) == name, P[4](ev) == W.join(root, name))))

    def ge_dir(self, ex, k, el=None):
        self.dvis = k + 1
        self.simulated_record(ex, el, True)

    def ge_file(self, ex, k, el=None):
        self.simulated_record(ex, el, False)

    def inv_files(self, ex, k):
        out = self.inv_walk(ex, k)
        if not isinstance(k, bool) and z3.is_int_value(z3.simplify(k)) and z3.simplify(k).as_long() == 0:
            dn = ex.scope.lookup("dirnames")
            if dn is not None and isinstance(dn.vars["dirnames"], VList):
                out.append(("all sub-directories of this level were tried before its files", self.dvis == dn.vars["dirnames"].n))
        return out

    # ---- re-key loop
    def havoc_rekey(self, ex):
        W = self.W
        H = ex.heap
        H[(self.me.id, "_wd_for_path")] = ex.fresh(W.TWP, "_wd_for_path")
        H[(self.me.id, "_path_for_wd")] = ex.fresh(W.TPW, "_path_for_wd")
        # E8: rename(2) refuses to move a directory into its own subtree (and vice versa): the trees below the old
        # and the new path are disjoint
        a, b = self.rekey_ctx(ex)
        k = z3.Const("dk", W.PS)
        ex.assume(z3.ForAll([k], z3.Not(z3.And(W.under(a, k), W.under(b, k)))))
        ex.assume(z3.And(z3.Not(W.under(a, b)), z3.Not(W.under(b, a))))

    def rekey_ctx(self, ex):
        """values at the re-key loop: old and new directory path"""
        W = self.W
        src = ex.scope.lookup("move_src_path").vars["move_src_path"]
        ev = ex.scope.lookup("inotify_event").vars["inotify_event"]
        a = W.Path.unwrap(src)
        b = W.NEvTT.proj[4](ev.t)
        return a, b

    def inv_rekey(self, ex, seen):
        W = self.W
        a, b = self.rekey_ctx(ex)
        m = self.maps(ex)
        if z3.is_true(z3.simplify(seen == z3.K(W.PS, z3.BoolVal(False)))):
            self.rk0 = m   # maps at loop entry (the copy being iterated is rk0's key set)
        wp0, pw0 = self.rk0["wp"], self.rk0["pw"]
        wp, pw = m["wp"], m["pw"]
        k, k2 = z3.Const("rk", W.PS), z3.Const("rk2", W.PS)
        w = z3.Const("rw", z3.IntSort())
        moved = lambda x: z3.And(seen[x], wp0.dom[x], W.under(a, x))
        # E8: rename(2) refuses to move a directory into its own subtree: the two trees are disjoint
        disj = z3.ForAll([k], z3.Not(z3.And(W.under(a, k), W.under(b, k))))
        inj0 = z3.ForAll([k, k2], z3.Implies(z3.And(wp0.dom[k], wp0.dom[k2], W.under(a, k), W.under(a, k2), wp0.val[k] == wp0.val[k2]), k == k2))
        return [
            ("every visited key below the old path is re-keyed by prefix substitution, same descriptor", z3.Implies(disj, z3.ForAll([k], z3.Implies(moved(k), z3.And(wp.dom[W.subst(a, b, k)], wp.val[W.subst(a, b, k)] == wp0.val[k]))))),
            ("the old keys are gone", z3.Implies(disj, z3.ForAll([k], z3.Implies(moved(k), z3.Not(wp.dom[k]))))),
            ("keys outside both trees are untouched", z3.ForAll([k], z3.Implies(z3.And(wp0.dom[k], z3.Not(W.under(a, k)), z3.Not(W.under(b, k))), z3.And(wp.dom[k], wp.val[k] == wp0.val[k])))),
            ("keys below the old path not yet visited are still there", z3.Implies(disj, z3.ForAll([k], z3.Implies(z3.And(wp0.dom[k], W.under(a, k), z3.Not(seen[k])), z3.And(wp.dom[k], wp.val[k] == wp0.val[k]))))),
            ("nothing appears outside the new tree", z3.ForAll([k], z3.Implies(z3.And(z3.Not(wp0.dom[k]), z3.Not(W.under(b, k))), z3.Not(wp.dom[k])))),
            ("no descriptor loses its path entry", z3.ForAll([w], z3.Implies(pw0.dom[w], pw.dom[w]))),
            ("a descriptor's path is unchanged or now lies below the new directory", z3.ForAll([w], z3.Implies(pw0.dom[w], z3.Or(pw.val[w] == pw0.val[w], W.under(b, pw.val[w]))))),
            ("re-keyed descriptors point at the rewritten path", z3.Implies(z3.And(disj, inj0), z3.ForAll([k], z3.Implies(moved(k), z3.And(pw.dom[wp0.val[k]], pw.val[wp0.val[k]] == W.subst(a, b, k)))))),
        ] + self.map_inv(ex)

    # ------------------------------------------------------------------ posts
    def on_release(self, ex):
        o, n = self.sec_start, self.st(ex)
        self.last_section = (o, n)

    def post(self, ex, result):
        s = self.st(ex)
        if "maps" in self.want:
            c = z3.Const("xc", z3.IntSort())
            mfx = ex.heap[(self.me.id, "_moved_from_events")]
            ex.oblige("post[move records are still there when the batch is done: the second half of a rename may come with the next read]",
                      isinstance(mfx, VDict) and z3.ForAll([c], z3.Implies(self.mf_entry.dom[c], mfx.dom[c])))
        ex.oblige("post[lock released]", LOCK not in ex.held)
        if self.released_by_me or getattr(self, "returned_closed", False):
            ex.oblige("post[after close() the reader gets an empty batch (its loop can end)]", isinstance(result, (list, VOpaque)) and (result == [] or getattr(result, "kind", "") == "emptylist"))
        if "fds" in self.want:
            ex.oblige("post[no read left in flight]", z3.Not(s["reading"]))
            ex.oblige("post[descriptors released by the reader only after close()]", z3.Implies(z3.BoolVal(self.released_by_me), s["closed"]))
        if "maps" in self.want or "safety" in self.want:
            for nm, f in self.map_inv(ex):
                ex.oblige(f"post[{nm}]", f)

    def post_raise(self, ex, exc, site):
        ex.oblige(f"no-uncaught[{exc.cls}@{site}] (the reader thread must not die)", False, kind="exception")


# ====================================================================================== _add_watch / _add_dir_watch
class AddWatch(InoSpec):
    qualname = "Inotify._add_watch"

    def __init__(self, W, prop):
        self.W, self.world, self.prop = W, W, prop

    def on_field(self, ex, obj, field, write):
        pass

    def setup(self, ex):
        W = self.W
        self.new_object(ex)
        ex.assume(self.g["open_i"])
        self.p = ex.fresh_term(W.PS, "path")
        self.m0 = {"wp": ex.heap[(self.me.id, "_wd_for_path")], "pw": ex.heap[(self.me.id, "_path_for_wd")]}
        self.last_add = None
        return {"self": self.me, "path": W.Path.wrap(self.p), "mask": VOpaque("mask")}

    def post(self, ex, result):
        W = self.W
        wp, pw = ex.heap[(self.me.id, "_wd_for_path")], ex.heap[(self.me.id, "_path_for_wd")]
        wd = TInt.unwrap(result)
        ex.oblige("post[asked the kernel for this path]", self.last_add is not None and z3.is_true(z3.simplify(self.last_add[0] == self.p)))
        ex.oblige("post[returns the kernel's descriptor]", wd == self.last_add[1])
        ex.oblige("post[path -> descriptor recorded, other paths untouched]", z3.And(wp.dom == z3.Store(self.m0["wp"].dom, self.p, True), wp.val == z3.Store(self.m0["wp"].val, self.p, wd)))
        ex.oblige("post[descriptor -> path recorded, other descriptors untouched]", z3.And(pw.dom == z3.Store(self.m0["pw"].dom, wd, True), pw.val == z3.Store(self.m0["pw"].val, wd, self.p)))

    def post_raise(self, ex, exc, site):
        wp, pw = ex.heap[(self.me.id, "_wd_for_path")], ex.heap[(self.me.id, "_path_for_wd")]
        ex.oblige("raises[only when the kernel refused the watch]", exc.cls == "OSError" and self.last_add is not None)
        if self.last_add is not None:
            ex.oblige("raises[kernel said -1]", self.last_add[1] == -1)
        ex.oblige("raises[maps unchanged]", z3.And(wp.dom == self.m0["wp"].dom, wp.val == self.m0["wp"].val, pw.dom == self.m0["pw"].dom, pw.val == self.m0["pw"].val))


class ForgetPaths(InoSpec):
    """Inotify._forget_paths(path): drops exactly the path -> descriptor entries at or below `path`"""
    qualname = "Inotify._forget_paths"

    def __init__(self, W, prop):
        self.W, self.world, self.prop = W, W, prop
        self.loops = {1: LoopSpec("self._wd_for_path.copy()", self.inv, modifies=[("call", self.havoc_wp)])}
        self.expected_covers = ["loop1.body", "loop1.end", "exit"]

    def on_field(self, ex, obj, field, write):
        pass

    def havoc_wp(self, ex):
        ex.heap[(self.me.id, "_wd_for_path")] = ex.fresh(self.W.TWP, "_wd_for_path")

    def setup(self, ex):
        W = self.W
        for f in W.axioms():
            ex.assume(f)
        self.new_object(ex)
        self.p = ex.fresh_term(W.PS, "path")
        self.m0 = {"wp": ex.heap[(self.me.id, "_wd_for_path")], "pw": ex.heap[(self.me.id, "_path_for_wd")]}
        return {"self": self.me, "path": W.Path.wrap(self.p)}

    def hit(self, q):
        return z3.Or(q == self.p, self.W.under(self.p, q))

    def inv(self, ex, seen):
        W = self.W
        wp0, wp = self.m0["wp"], ex.heap[(self.me.id, "_wd_for_path")]
        q = z3.Const("gq", W.PS)
        return [("visited entries at or below the path are gone", z3.ForAll([q], z3.Implies(z3.And(seen[q], wp0.dom[q], self.hit(q)), z3.Not(wp.dom[q])))),
                ("every other entry of the map is as it was", z3.ForAll([q], z3.Implies(z3.Not(z3.And(seen[q], self.hit(q))), z3.And(wp.dom[q] == wp0.dom[q], z3.Implies(wp0.dom[q], wp.val[q] == wp0.val[q])))))]

    def post(self, ex, result):
        W = self.W
        wp0, wp, pw = self.m0["wp"], ex.heap[(self.me.id, "_wd_for_path")], ex.heap[(self.me.id, "_path_for_wd")]
        q = z3.Const("gq", W.PS)
        ex.oblige("post[exactly the path entries at or below the path are dropped]", z3.ForAll([q], wp.dom[q] == z3.And(wp0.dom[q], z3.Not(self.hit(q)))))
        ex.oblige("post[every kept entry keeps its descriptor]", z3.ForAll([q], z3.Implies(wp.dom[q], wp.val[q] == wp0.val[q])))
        ex.oblige("post[the descriptor -> path map is not touched]", z3.And(pw.dom == self.m0["pw"].dom, pw.val == self.m0["pw"].val))

    def post_raise(self, ex, exc, site):
        ex.oblige(f"no-uncaught[{exc.cls}@{site}] (called from the reader's loop)", False, kind="exception")


class AddDirWatch(InoSpec):
    qualname = "Inotify._add_dir_watch"

    def __init__(self, W, prop):
        self.W, self.world, self.prop = W, W, prop
        self.loops = {1: LoopSpec("os.walk(path, followlinks=self._follow_symlink)", self.inv_outer, modifies=[("call", self.havoc_wp)], ghost_start=self.gs_outer),
                      2: LoopSpec("dirnames", self.inv_inner, modifies=[("call", self.havoc_wp)])}
        self.expected_covers = ["loop1.body", "loop1.end", "loop2.body", "loop2.end", "exit"]

    def on_field(self, ex, obj, field, write):
        pass

    def globals(self):
        W = self.W
        g = self.base_globals()
        self.islink = z3.Function("os_path_islink", W.PS, z3.BoolSort())
        self.isdir = z3.Function("os_path_isdir_n", W.PS, z3.BoolSort())

        def add(ex, recv, a, k, n):
            p = W.Path.unwrap(a[0])
            if ex.choose(2, "_add_watch raises OSError") == 1:
                raise Raise(VExc("OSError"), "_add_watch()")
            wd = ex.fresh_term(z3.IntSort(), "wd")
            ex.assume(wd >= 1)
            wp, pw = ex.heap[(self.me.id, "_wd_for_path")], ex.heap[(self.me.id, "_path_for_wd")]
            ex.heap[(self.me.id, "_wd_for_path")] = wp.with_(dom=z3.Store(wp.dom, p, True), val=z3.Store(wp.val, p, wd))
            ex.heap[(self.me.id, "_path_for_wd")] = pw.with_(dom=z3.Store(pw.dom, wd, True), val=z3.Store(pw.val, wd, p))
            self.g["K"] = z3.Store(self.g["K"], wd, True)   # E8: the descriptor the kernel returned is live
            self.adds += 1
            return VInt(wd)

        def walk(ex, a, k, n):
            ex.oblige("walk starts at the watched root", W.Path.unwrap(a[0]) == self.p)
            fl = k.get("followlinks")
            ex.oblige("walk follows links iff the watch does", fl is not None and TBool.unwrap(fl) is not None and z3.is_true(z3.simplify(TBool.unwrap(fl) == self.follow)))
            self.walk = ex.fresh(W.LWalk, "walk")
            ex.assume(self.walk.n >= 0)
            return self.walk
        g.update({"Inotify._add_watch": add, "os.walk": walk, "os.path.isdir": lambda ex, a, k, n: VBool(self.isdir(W.Path.unwrap(a[0]))), "os.path.islink": lambda ex, a, k, n: VBool(self.islink(W.Path.unwrap(a[0]))),
                  "os.strerror": lambda ex, a, k, n: VOpaque("msg"), "errno.ENOTDIR": VOpaque("errno", 20)})
        return g

    def havoc_wp(self, ex):
        ex.heap[(self.me.id, "_wd_for_path")] = ex.fresh(self.W.TWP, "_wd_for_path")
        ex.heap[(self.me.id, "_path_for_wd")] = ex.fresh(self.W.TPW, "_path_for_wd")
        self.g["K"] = ex.fresh_term(self.g["K"].sort(), "kernel_watches")

    def accumulate(self, ex):
        """what a caller inside read_events relies on, whether the call returns or raises: nothing is forgotten - path
        entries, live descriptors and W1 (every live descriptor has a path entry) survive"""
        W = self.W
        w, p = z3.Const("cw", z3.IntSort()), z3.Const("cp", W.PS)
        wp, pw = ex.heap[(self.me.id, "_wd_for_path")], ex.heap[(self.me.id, "_path_for_wd")]
        return [("path entries only accumulate", z3.ForAll([p], z3.Implies(self.wp0.dom[p], wp.dom[p]))),
                ("live descriptors stay live", z3.ForAll([w], z3.Implies(self.K0[w], self.g["K"][w]))),
                ("every live kernel descriptor has a path entry", z3.ForAll([w], z3.Implies(self.g["K"][w], pw.dom[w])))]

    def setup(self, ex):
        W = self.W
        self.new_object(ex)
        self.p = ex.fresh_term(W.PS, "path")
        self.follow = TBool.unwrap(ex.heap[(self.me.id, "_follow_symlink")])
        self.rec = bool(ex.choose(2, "recursive"))
        self.wp0 = ex.heap[(self.me.id, "_wd_for_path")]
        self.K0 = self.g["K"]
        w = z3.Const("cw0", z3.IntSort())
        ex.assume(z3.ForAll([w], z3.Implies(self.K0[w], ex.heap[(self.me.id, "_path_for_wd")].dom[w])))   # requires W1
        self.walk = None
        self.adds = 0
        self.kk = None
        return {"self": self.me, "path": W.Path.wrap(self.p), "mask": VOpaque("mask"), "recursive": self.rec}

    def tri(self, j):
        W = self.W
        t = self.walk.arr[j]
        return W.WTrip.proj[0](t), TList(W.Path).wrap(W.WTrip.proj[1](t))

    def want(self, j, i):
        W = self.W
        root, dirs = self.tri(j)
        full = W.join(root, dirs.arr[i])
        return full, z3.Or(self.follow, z3.Not(self.islink(full)))

    def gs_outer(self, ex, k, el=None):
        self.kk = k

    def grows(self, ex):
        W = self.W
        p = z3.Const("gp", W.PS)
        wp = ex.heap[(self.me.id, "_wd_for_path")]
        return z3.ForAll([p], z3.Implies(z3.Or(self.wp0.dom[p], p == self.p), wp.dom[p]))

    def inv_outer(self, ex, k):
        wp = ex.heap[(self.me.id, "_wd_for_path")]
        j, i = z3.Const("aj", z3.IntSort()), z3.Const("ai", z3.IntSort())
        full = lambda j, i: self.want(j, i)
        return self.accumulate(ex) + [("watches only accumulate (root included)", self.grows(ex)),
                ("every directory of the walked prefix is watched (symlinks skipped unless followed)", z3.ForAll([j, i], z3.Implies(z3.And(0 <= j, j < k, 0 <= i, i < self.tri(j)[1].n, self.want(j, i)[1]), wp.dom[self.want(j, i)[0]])))]

    def inv_inner(self, ex, i):
        wp = ex.heap[(self.me.id, "_wd_for_path")]
        t = z3.Const("at", z3.IntSort())
        return self.inv_outer(ex, self.kk) + [("directories of this level so far", z3.ForAll([t], z3.Implies(z3.And(0 <= t, t < i, self.want(self.kk, t)[1]), wp.dom[self.want(self.kk, t)[0]])))]

    def post(self, ex, result):
        W = self.W
        wp = ex.heap[(self.me.id, "_wd_for_path")]
        ex.oblige("post[the root is watched]", wp.dom[self.p])
        if self.rec:
            J, I = ex.fresh_term(z3.IntSort(), "J"), ex.fresh_term(z3.IntSort(), "I")
            ex.oblige("post[the tree was walked]", self.walk is not None)
            if self.walk is not None:
                ex.oblige("post[recursive: every directory found under the root is watched (symlinks skipped unless followed)]",
                          z3.Implies(z3.And(0 <= J, J < self.walk.n, 0 <= I, I < self.tri(J)[1].n, self.want(J, I)[1]), wp.dom[self.want(J, I)[0]]))
        else:
            p = z3.Const("pp", W.PS)
            ex.oblige("post[non-recursive: only the root is watched]", z3.And(z3.BoolVal(self.adds == 1), z3.ForAll([p], wp.dom[p] == z3.Or(self.wp0.dom[p], p == self.p))))

        for nm, f in self.accumulate(ex):
            ex.oblige(f"post[{nm}]", f)

    def post_raise(self, ex, exc, site):
        ex.oblige("raises[only OSError: not a directory, or the kernel refused a watch]", exc.cls == "OSError")
        for nm, f in self.accumulate(ex):
            ex.oblige(f"raises[{nm}]", f)


# ====================================================================================== Inotify.__init__
class Init(InoSpec):
    qualname = "Inotify.__init__"

    def __init__(self, W, prop):
        self.W, self.world, self.prop = W, W, prop
        self.var_types = {"self._wd_for_path": W.TWP, "self._path_for_wd": W.TPW, "self._moved_from_events": W.TMF}

    def on_field(self, ex, obj, field, write):
        pass

    def fd_open(self, f):
        t = z3.BoolVal(False)
        for fd, flag in self.fds:
            t = z3.If(f == fd, flag[0], t)
        return t

    def globals(self):
        W = self.W
        g = self.base_globals()

        def newfd(ex, nm):
            f = ex.fresh_term(W.FdS, nm)
            for other, _fl in self.fds:
                ex.assume(f != other)
            self.fds.append((f, [z3.BoolVal(True)]))
            return f

        def init(ex, a, k, n):
            if ex.choose(2, "inotify_init fails") == 1:
                self.init_failed = True
                return -1
            return W.Fd.wrap(newfd(ex, "inotify_fd"))

        def pipe(ex, a, k, n):
            return VTuple([W.Fd.wrap(newfd(ex, "kill_r")), W.Fd.wrap(newfd(ex, "kill_w"))])

        def raise_error(ex, recv, a, k, n):
            raise Raise(VExc("OSError"), "_raise_error()")

        def close_res(ex, recv, a, k, n):
            H = ex.heap
            for fld in ("_inotify_fd", "_kill_r", "_kill_w"):
                v = H.get((self.me.id, fld))
                ok = isinstance(v, VRef)
                ex.oblige(f"_close_resources[{fld} is set]", ok)
                if ok:
                    for fd, flag in self.fds:
                        if fd.eq(v.t):
                            ex.oblige(f"_close_resources[{fld} still open: closed exactly once]", flag[0])
                            flag[0] = z3.BoolVal(False)
            return None

        def add_any(name):
            def h(ex, recv, a, k, n):
                self.adds.append(name)
                if ex.choose(2, name + " raises OSError") == 1:
                    raise Raise(VExc("OSError"), name + "()")
                return None
            return h
        g.update({"inotify_init": init, "os.pipe": pipe, "Inotify._raise_error": raise_error, "Inotify._close_resources": close_res, "Inotify._add_dir_watch": add_any("_add_dir_watch"), "Inotify._add_watch": add_any("_add_watch"),
                  "threading.Lock": lambda ex, a, k, n: VOpaque("lock", LOCK), "select.poll": lambda ex, a, k, n: VOpaque("poller"), "poller.register": lambda ex, recv, a, k, n: None,
                  "select.POLLIN": 1, "os.path.isdir": lambda ex, a, k, n: VBool(ex.fresh_term(z3.BoolSort(), "isdir"))})
        return g

    def setup(self, ex):
        W = self.W
        self.me = VObj("Inotify")
        self.constructing = True
        self.fds = []
        self.adds = []
        self.init_failed = False
        self.g = {}
        p = ex.fresh_term(W.PS, "path")
        mask = None if ex.choose(2, "event_mask given") == 0 else VBits(ex.fresh_term(z3.BitVecSort(32), "event_mask"))
        return {"self": self.me, "path": W.Path.wrap(p), "recursive": VBool(ex.fresh_term(z3.BoolSort(), "recursive")), "event_mask": mask, "follow_symlink": VBool(ex.fresh_term(z3.BoolSort(), "follow_symlink"))}

    def post(self, ex, result):
        H = ex.heap
        ex.oblige("post[three descriptors opened]", len(self.fds) == 3)
        for fd, flag in self.fds:
            ex.oblige("post[every descriptor still open and owned by the object]", flag[0])
        ex.oblige("post[not closed, no read in flight (J established)]", H.get((self.me.id, "_closed")) is False and H.get((self.me.id, "_is_reading")) is False)
        ex.oblige("post[exactly one watch installation]", len(self.adds) == 1)
        if getattr(self, "check_mask", False):
            # C11: whether the watch follows a symbolic link is the watch's follow_symlink setting - not a side effect of
            # passing a filter-derived event mask (a filtered watch on a symlinked root must not see more than the unfiltered one)
            m = H.get((self.me.id, "_event_mask"))
            fs = TBool.unwrap(ex.scope.lookup("follow_symlink").vars["follow_symlink"])
            bit = z3.BitVecVal(T.SPECIAL["IN_DONT_FOLLOW"], 32)
            ex.oblige("post[IN_DONT_FOLLOW is in the kernel mask iff the watch does not follow symlinks, with or without a filter-derived mask]",
                      ((TBits.unwrap(m) & bit) != 0) == z3.Not(fs) if m is not None else False)

    def post_raise(self, ex, exc, site):
        ex.oblige("raises[only OSError]", exc.cls == "OSError")
        for fd, flag in self.fds:
            ex.oblige("raises[nothing leaked: every descriptor opened by the failed constructor is closed again]", z3.Not(flag[0]))
