"""Shared world for the observer registry (api.py): C13 (registry consistency), C04 (routing / exactly once),
C05 (no callback after removal).  The registry is four collections of BaseObserver; the abstract view is
E : Watch -> Emitter (partial) and H(w) = _handlers.get(w, {})."""
from __future__ import annotations
import z3
from pyvc.sym import *
from pyvc.engine import FnSpec, LoopSpec, Obligation, Raise
from pyvc import ground

API = "watchdog/observers/api.py"
PROTECTED = ("_handlers", "_emitters", "_emitter_for_watch", "_watches")


class ObsWorld:
    def __init__(self):
        self.WS = ground.usort("Watch")
        self.HS = ground.usort("Handler")
        self.ES = ground.usort("Emitter")
        self.EvS = ground.usort("FsEvent")
        self.watch_of = z3.Function("watch_of", self.ES, self.WS)
        self.Watch = TRef("Watch", self.WS)
        self.Handler = TRef("Handler", self.HS, methods={"dispatch": self.m_dispatch})
        self.Emitter = TRef("Emitter", self.ES, attrs={"watch": lambda ex, r: self.Watch.wrap(self.watch_of(r.t))},
                            methods={"start": self.m_estart, "stop": self.m_estop, "join": self.m_ejoin, "is_alive": self.m_ealive,
                                     "should_keep_running": lambda ex, r, a, k, n: VBool(z3.Not(ex.ghost["stopped"].t[r.t]))})
        self.Event = TRef("FsEvent", self.EvS)
        self.HSet = TSet(self.Handler)
        self.TH = TDict(self.Watch, self.HSet, default=lambda: self.HSet.empty())
        self.TE = TDict(self.Watch, self.Emitter)
        self.Entry = TTup(self.Event, self.Watch)

    def is_(self, ex, l, r):
        """`threading.current_thread() is <observer>`: true in a handler callback, false in an application thread"""
        for a, b in ((l, r), (r, l)):
            if isinstance(a, VOpaque) and a.kind == "current-thread" and isinstance(b, VObj) and b.cls == "BaseObserver":
                if "on_own_thread" not in ex.ghost:
                    ex.ghost["on_own_thread"] = VBool(ex.fresh_term(z3.BoolSort(), "caller_is_the_observer_thread"))
                return ex.ghost["on_own_thread"].t
        return NotImplemented

    # ---------------- emitter thread contracts (E7)
    def m_estart(self, ex, r, args, kw, node):
        """BaseThread.start of an emitter: runs on_thread_start (may raise, e.g. OSError from inotify) then starts"""
        c = ex.choose(3, "emitter.start: ok / OSError (watch construction) / RuntimeError (the thread cannot be started)")
        if c:
            ex.ghost["start_failed"] = VSet(z3.Store(ex.ghost["start_failed"].t, r.t, True), self.Emitter)
            raise Raise(VExc("OSError" if c == 1 else "RuntimeError"), "emitter.start()")
        ex.ghost["started"] = VSet(z3.Store(ex.ghost["started"].t, r.t, True), self.Emitter)
        return None

    def m_ealive(self, ex, r, args, kw, node):
        """Thread.is_alive(): True only between the thread's start and its end.  False does NOT mean 'never started':
        BaseObserver.start() starts the emitters without the registry lock, so an emitter may be past on_thread_start()
        but not yet alive - it still has to be told to stop"""
        a = ex.fresh_term(z3.BoolSort(), "emitter_is_alive")
        ex.assume(z3.Implies(a, z3.And(ex.ghost["started"].t[r.t], z3.Not(ex.ghost["joined"].t[r.t]))))
        return VBool(a)

    def m_estop(self, ex, r, args, kw, node):
        ex.ghost["stopped"] = VSet(z3.Store(ex.ghost["stopped"].t, r.t, True), self.Emitter)
        return None

    def m_ejoin(self, ex, r, args, kw, node):
        """Thread.join: RuntimeError if the thread was never started; otherwise returns only when it is dead.
        Joining a thread that was not asked to stop would block forever: obligation."""
        if not ex.branch(ex.ghost["started"].t[r.t], "emitter started"):
            raise Raise(VExc("RuntimeError"), "emitter.join()")
        ex.require("join-only-after-stop", ex.ghost["stopped"].t[r.t])
        if args or kw:
            ex.oblige("join-without-timeout (a bounded join may return while the emitter still runs)", False, kind="pre")
        ex.ghost["joined"] = VSet(z3.Store(ex.ghost["joined"].t, r.t, True), self.Emitter)
        return None

    # ---------------- handler callback (user code; may re-enter the API of its own observer)
    def m_dispatch(self, ex, r, args, kw, node):
        sp = ex.spec
        sp.on_callback(ex, r.t, args[0])
        return None

    # ---------------- observer object
    def new_observer(self, ex):
        me = VObj("BaseObserver")
        H = ex.heap
        H[(me.id, "_lock")] = VOpaque("lock", "observer._lock")
        H[(me.id, "_watches")] = ex.fresh(TSet(self.Watch), "_watches")
        H[(me.id, "_handlers")] = ex.fresh(self.TH, "_handlers")
        H[(me.id, "_emitters")] = ex.fresh(TSet(self.Emitter), "_emitters")
        H[(me.id, "_emitter_for_watch")] = ex.fresh(self.TE, "_emitter_for_watch")
        H[(me.id, "_event_queue")] = VOpaque("event_queue")
        H[(me.id, "_timeout")] = VReal(ex.fresh_term(z3.RealSort(), "timeout"))
        H[(me.id, "_emitter_class")] = VOpaque("callable", self.h_emitter_class)
        for g in ("started", "stopped", "joined", "start_failed"):
            ex.ghost[g] = ex.fresh(TSet(self.Emitter), g)
        ex.ghost["alive"] = VBool(ex.fresh_term(z3.BoolSort(), "observer_alive"))
        ex.ghost["created"] = TSet(self.Emitter).empty()
        return me

    def h_emitter_class(self, ex, args, kw, node):
        """self._emitter_class(event_queue, watch, timeout=..., event_filter=...): may raise; else a fresh emitter"""
        w = self.Watch.unwrap(args[1])
        if ex.choose(2, "emitter constructor raises") == 1:
            raise Raise(VExc("OSError"), "emitter_class()")
        e = ex.fresh_term(self.ES, "new_emitter")
        ex.assume(self.watch_of(e) == w)
        # fresh: not in any collection yet, never started
        st = ex.spec.pre
        ex.assume(z3.Not(st["emitters"][e]))
        x = z3.Const("xw", self.WS)
        ex.assume(z3.ForAll([x], z3.Implies(st["E"].dom[x], st["E"].val[x] != e)))
        for g in ("started", "stopped", "joined"):
            ex.assume(z3.Not(ex.ghost[g].t[e]))
        ex.ghost["created"] = VSet(z3.Store(ex.ghost["created"].t, e, True), self.Emitter)
        return self.Emitter.wrap(e)

    def view(self, ex, me):
        H = ex.heap
        return {"watches": H[(me.id, "_watches")].t, "H": H[(me.id, "_handlers")], "emitters": H[(me.id, "_emitters")].t, "E": H[(me.id, "_emitter_for_watch")]}

    def hview(self, Hd: VDict, w):
        """H(w) = _handlers.get(w, {})"""
        return z3.If(Hd.dom[w], Hd.val[w], z3.K(self.HS, z3.BoolVal(False)))

    def inv(self, v):
        """class invariant of the registry"""
        w, e = z3.Const("iw", self.WS), z3.Const("ie", self.ES)
        E = v["E"]
        return [
            ("emitters=ran(E)", z3.ForAll([e], v["emitters"][e] == z3.And(E.dom[self.watch_of(e)], E.val[self.watch_of(e)] == e))),
            ("E[w].watch=w", z3.ForAll([w], z3.Implies(E.dom[w], self.watch_of(E.val[w]) == w))),
            ("dom(E)<=watches", z3.ForAll([w], z3.Implies(E.dom[w], v["watches"][w]))),
            ("dom(E)<=dom(handlers)", z3.ForAll([w], z3.Implies(E.dom[w], v["H"].dom[w]))),
        ]

    def same_H(self, a: VDict, b: VDict, except_w=None):
        w = z3.Const("sw", self.WS)
        body = self.hview(a, w) == self.hview(b, w)
        if except_w is not None:
            body = z3.Implies(w != except_w, body)
        return z3.ForAll([w], body)

    def same_E(self, a: VDict, b: VDict, except_w=None):
        w = z3.Const("sw", self.WS)
        body = z3.And(a.dom[w] == b.dom[w], z3.Implies(a.dom[w], a.val[w] == b.val[w]))
        if except_w is not None:
            body = z3.Implies(w != except_w, body)
        return z3.ForAll([w], body)

    def same_set(self, a, b, sort, except_x=None):
        x = z3.Const("sx", sort)
        body = a[x] == b[x]
        if except_x is not None:
            body = z3.Implies(x != except_x, body)
        return z3.ForAll([x], body)


class ObsSpec(FnSpec):
    """Common behaviour of the BaseObserver method specs: lock tracking, protected-field discipline."""
    relpath, prop = API, ""
    needs_lock_on_entry = False  # private helpers are called with the lock held (requires)
    inline = {"BaseObserver._add_emitter", "BaseObserver._remove_emitter", "BaseObserver._add_handler_for_watch", "BaseObserver._remove_handlers_for_watch", "BaseObserver._clear_emitters",
              "EventDispatcher.event_queue", "EventDispatcher.timeout", "BaseObserver.emitters"}

    def base_globals(self):
        W = self.W
        return {
            "BaseObserver.is_alive": lambda ex, recv, a, k, n: ex.ghost["alive"],
            "ObservedWatch": self.h_watch_ctor,
            "EventDispatcher.stop_event": VOpaque("stop_event"),
            # the API is called from application threads AND from handler callbacks (= the observer's own thread): which
            # thread runs the call is unknown - one boolean per path
            "threading.current_thread": lambda ex, a, k, n: VOpaque("current-thread"),
        }

    def globals(self):
        return self.base_globals()

    def h_watch_ctor(self, ex, args, kw, node):
        """ObservedWatch(path, recursive=, event_filter=, follow_symlink=): equal keys <=> equal watches (proved on
        ObservedWatch itself); here a watch value determined by (path, recursive, event_filter)."""
        return self.W.Watch.wrap(self.new_watch)

    def on_with(self, ex, cv, node, entering):
        if isinstance(cv, VOpaque) and cv.kind == "lock":
            reg = cv.data == "observer._lock" and getattr(self, "me", None) is not None
            if entering:
                if reg and cv.data not in ex.held:
                    self.sections = getattr(self, "sections", 0) + 1
                    if self.sections > 1:
                        # rely: while this thread did not hold the lock other API calls ran - the registry is arbitrary
                        # within the class invariant; facts read in an earlier section do not survive
                        W = self.W
                        for f, ty in (("_watches", TSet(W.Watch)), ("_handlers", W.TH), ("_emitters", TSet(W.Emitter)), ("_emitter_for_watch", W.TE)):
                            ex.heap[(self.me.id, f)] = ex.fresh(ty, f)
                        for nm, fml in W.inv(W.view(ex, self.me)):
                            ex.assume(fml)
                ex.held.append(cv.data)
            else:
                ex.held.remove(cv.data)
                if reg and cv.data not in ex.held:
                    # guarantee: every critical section leaves the class invariant intact (what the other threads rely on)
                    for nm, fml in self.W.inv(self.W.view(ex, self.me)):
                        ex.oblige(f"release[I:{nm}]", fml, kind="lock-invariant")
            return
        raise Unsupported(f"with {cv!r}")

    def on_field(self, ex, obj, field, write):
        if field in PROTECTED and getattr(self, "me", None) is obj:
            ex.oblige(f"lock-held[{'write' if write else 'read'} {field}]", "observer._lock" in ex.held, kind="lock", site=field)

    def start_state(self, ex):
        W = self.W
        self.me = W.new_observer(ex)
        self.sections = 1 if self.needs_lock_on_entry else 0
        self.pre = W.view(ex, self.me)
        self.pre_ghost = {g: ex.ghost[g].t for g in ("started", "stopped", "joined")}
        for nm, f in W.inv(self.pre):
            ex.assume(f)
        if self.needs_lock_on_entry:
            ex.held.append("observer._lock")

    def oblige_inv(self, ex, tag="post"):
        W = self.W
        for nm, f in W.inv(W.view(ex, self.me)):
            ex.oblige(f"{tag}[invariant:{nm}]", f)

    def oblige_unchanged(self, ex, tag, what=("E", "H", "watches", "emitters")):
        W = self.W
        now = W.view(ex, self.me)
        if "E" in what:
            ex.oblige(f"{tag}[emitter map unchanged]", W.same_E(self.pre["E"], now["E"]))
        if "H" in what:
            ex.oblige(f"{tag}[handlers unchanged]", W.same_H(self.pre["H"], now["H"]))
        if "watches" in what:
            ex.oblige(f"{tag}[watches unchanged]", W.same_set(self.pre["watches"], now["watches"], W.WS))
        if "emitters" in what:
            ex.oblige(f"{tag}[emitters unchanged]", W.same_set(self.pre["emitters"], now["emitters"], W.ES))

    def on_callback(self, ex, h, ev):
        raise Unsupported("callback in a function that should not dispatch")
