"""C05 — after unschedule/remove/stop returns, the removed handler is never called again.

The same lock invariant as C04 read the other way: every callback is made inside a lock hold in which
`handler in handlers(watch)` was established at that instant (dispatch_events, re-entrant variant), and the
removers' postconditions (`h not in handlers'(w)`, emitter stopped and joined) are established under the same
lock; so no later section can call the handler until someone registers it again."""
from __future__ import annotations
import z3
from pyvc.sym import *
from pyvc.engine import FnSpec, LoopSpec, Obligation, Raise
from specs.obs_world import ObsWorld, ObsSpec, API
from specs import c13, c04

PROP = "C05"
GROUNDABLE = True
BATTERY = "c05_battery.py"


class RemoveEmitter(ObsSpec):
    """private helper (lock held): emitter unmapped, stopped, and joined unless it never ran"""
    qualname, prop = "BaseObserver._remove_emitter", PROP
    needs_lock_on_entry = True
    inline = ObsSpec.inline - {"BaseObserver._remove_emitter"}

    def __init__(self, W):
        self.W, self.world = W, W

    def setup(self, ex):
        W = self.W
        self.start_state(ex)
        self.e = ex.fresh_term(W.ES, "emitter")
        ex.assume(self.pre["emitters"][self.e])  # requires: a registered emitter
        return {"self": self.me, "emitter": W.Emitter.wrap(self.e)}

    def post(self, ex, result):
        W, e = self.W, self.e
        now = W.view(ex, self.me)
        ex.oblige("post[emitter unmapped]", z3.And(z3.Not(now["E"].dom[W.watch_of(e)]), z3.Not(now["emitters"][e])))
        ex.oblige("post[emitter stopped before the call returns]", ex.ghost["stopped"].t[e])
        ex.oblige("post[emitter thread joined (dead) if it ever ran]", z3.Implies(ex.ghost["started"].t[e], ex.ghost["joined"].t[e]))
        ex.oblige("post[other emitters untouched]", W.same_E(self.pre["E"], now["E"], except_w=W.watch_of(e)))


class OnThreadStop(ObsSpec):
    """stop() of the observer = BaseThread.stop -> on_thread_stop -> unschedule_all"""
    qualname, prop = "BaseObserver.on_thread_stop", PROP

    def __init__(self, W):
        self.W, self.world = W, W

    def globals(self):
        g = self.base_globals()

        def ua(ex, recv, args, kw, node):
            ex.ghost["unschedule_all_called"] = True
            return None
        g["BaseObserver.unschedule_all"] = ua
        return g

    def setup(self, ex):
        self.start_state(ex)
        ex.ghost["unschedule_all_called"] = False
        return {"self": self.me}

    def post(self, ex, result):
        ex.oblige("post[stop() removes every handler and stops every emitter: unschedule_all called]", bool(ex.ghost["unschedule_all_called"]))


def make_specs():
    W = c04.DispatchWorld()
    out = [c04.Dispatch(W, True, PROP), RemoveEmitter(W), OnThreadStop(W)]
    for sp in c13.make_specs():
        if sp.qualname in ("BaseObserver.unschedule", "BaseObserver.unschedule_all", "BaseObserver._clear_emitters", "BaseObserver.remove_handler_for_watch", "BaseObserver.schedule"):
            sp.prop = PROP
            out.append(sp)
    # stop() of the observer = EventDispatcher.stop -> BaseThread.stop -> on_thread_stop: every stop() call performs the
    # removal itself before it returns (a second stop() must not return while the first is still waiting for the lock)
    from specs import c06
    # "the emitter of an unscheduled watch has stopped producing events": an emitter thread looks at its stop flag before
    # every round (so one that was stopped before it started produces nothing)
    for sp in (c06.ThreadStop(), c06.DispatcherStop(), c06.RunLoop("EventEmitter")):
        sp.prop = PROP
        out.append(sp)
    return out


EXPECTED_CLAUSES = ["dispatch_events.callback[handler is registered for this watch at the instant", "dispatch_events.callback[observer lock held]", "unschedule.post[no handler left for w]",
                    "unschedule.post[emitter stopped]", "unschedule.post[emitter joined if it ever ran]", "remove_handler_for_watch.post[handler removed]", "unschedule_all.post[no handler anywhere]",
                    "_remove_emitter.post[emitter thread joined", "on_thread_stop.post[stop()", "unschedule.lock-held[", "remove_handler_for_watch.lock-held["]
CANARIES = [
    {"name": "remove the `handler in self._handlers[watch]` re-check", "file": API, "fn": "BaseObserver.dispatch_events", "find": "if handler in self._handlers[watch]:", "replace": "if True:"},
    {"name": "drop `del self._handlers[watch]` in unschedule", "file": API, "fn": "BaseObserver.unschedule", "find": "            del self._handlers[watch]\n", "replace": ""},
    {"name": "drop emitter.join() in _remove_emitter", "file": API, "fn": "BaseObserver._remove_emitter", "find": "            emitter.join()", "replace": "            pass"},
]
TRUSTED = c04.TRUSTED
ASSUMPTIONS = c04.ASSUMPTIONS + ["the removal and every callback are sections of the same re-entrant lock (proved: lock-held obligations on both sides); 'never called again' then follows because each callback re-establishes membership at the instant of the call"]
UNDECIDED_PARTS = ["that join() returns (the emitter thread really terminates) is liveness: C06's necessary conditions only"]
