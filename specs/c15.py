"""C15 — handlers call exactly the callbacks the event type and the match rules dictate.

Contracts on FileSystemEventHandler.dispatch, PatternMatchingEventHandler.dispatch,
RegexMatchingEventHandler.dispatch (events.py), _match_path, filter_paths, match_any_paths (patterns.py).
pathlib.PurePath.match, re.Pattern.match and str.lower are uninterpreted pure functions (E9)."""
from __future__ import annotations
import z3
from pyvc.sym import *
from pyvc.engine import FnSpec, LoopSpec, Obligation, Raise
from pyvc import ground, source
from specs.common import EventWorld, EVENTS, event_classes

PROP = "C15"
GROUNDABLE = True
BATTERY = "c15_battery.py"
PATTERNS = "watchdog/utils/patterns.py"

# the callback each event class must reach, written from the public API documentation (not from events.py)
CALLBACK = {"FileSystemMovedEvent": "on_moved", "FileMovedEvent": "on_moved", "DirMovedEvent": "on_moved", "FileDeletedEvent": "on_deleted", "DirDeletedEvent": "on_deleted",
            "FileCreatedEvent": "on_created", "DirCreatedEvent": "on_created", "FileModifiedEvent": "on_modified", "DirModifiedEvent": "on_modified",
            "FileClosedEvent": "on_closed", "FileClosedNoWriteEvent": "on_closed_no_write", "FileOpenedEvent": "on_opened"}
METHODS = ["on_any_event", "on_moved", "on_created", "on_deleted", "on_modified", "on_closed", "on_closed_no_write", "on_opened"]


class World:
    def __init__(self):
        self.PathS = ground.usort("EvPath")     # event path values (str or bytes)
        self.StrS = ground.usort("PStr")        # decoded path strings
        self.PatS = ground.usort("Pattern")
        self.RxS = ground.usort("Regex")
        self.nonempty = z3.Function("path_nonempty", self.PathS, z3.BoolSort())
        self.EPath = TRef("EvPath", self.PathS, truthy=lambda t: self.nonempty(t))
        self.PStr = TRef("PStr", self.StrS)
        self.Pat = TRef("Pattern", self.PatS, methods={"lower": lambda ex, r, a, k, n: self.Pat.wrap(self.lower(r.t))})
        self.fsdecode = z3.Function("fsdecode", self.PathS, self.StrS)
        self.lower = z3.Function("str_lower", self.PatS, self.PatS)
        self.FlS, (self.POSIX, self.WINDOWS) = ground.enum_sort("Flavour", ["posix", "windows"])
        self.M = z3.Function("PurePath_match", self.FlS, self.StrS, self.PatS, z3.BoolSort())
        self.RM = z3.Function("re_match", self.RxS, self.StrS, z3.BoolSort())
        self.STAR = z3.Const("pattern_star", self.PatS)
        self.Rx = TRef("Regex", self.RxS, methods={"match": lambda ex, r, a, k, n: VBool(self.RM(r.t, self.PStr.unwrap(a[0])))})
        self.PPathTT = TTup(TRef("Flavour", self.FlS), self.PStr)
        self.PPath = TRef("PurePath", self.PPathTT.sort, methods={"match": self._pp_match})
        self.EW = EventWorld(self.EPath, tag="15")
        self.MethS, ms = ground.enum_sort("Callback", METHODS)
        self.meth = dict(zip(METHODS, ms))
        self.Call = TTup(TRef("Callback", self.MethS), self.EW.Event)
        self.Calls = TList(self.Call)
        self.empty_path = z3.Const("empty_path", self.PathS)

    def _pp_match(self, ex, r, args, kw, node):
        fl, raw = self.PPathTT.proj[0](r.t), self.PPathTT.proj[1](r.t)
        return VBool(self.M(fl, raw, self.pat(args[0])))

    def pat(self, v):
        if isinstance(v, str):
            if v == "*":
                return self.STAR
            return z3.Const("pattern_lit_" + v.encode().hex(), self.PatS)
        return self.Pat.unwrap(v)

    def patset(self, v):
        """VSet of patterns from a symbolic set or a concrete collection of literals"""
        if isinstance(v, VSet):
            return v.t
        if isinstance(v, (frozenset, set, list, tuple)):
            t = z3.K(self.PatS, z3.BoolVal(False))
            for x in v:
                t = z3.Store(t, self.pat(x), True)
            return t
        if isinstance(v, VOpaque) and v.kind == "emptyset":
            return z3.K(self.PatS, z3.BoolVal(False))
        if isinstance(v, VOpaque) and v.kind == "listofset":
            return v.data.t
        raise Unsupported(f"pattern set from {v!r}")

    # the match rule of the statement, over decoded path string p
    def rule(self, p, inc, exc, cs):
        """inc/exc: Array Pat Bool (already defaulted); cs: z3 Bool"""
        x = z3.Const("rx", self.PatS)
        i2 = lambda q: z3.If(cs, inc[q], z3.Exists([x], z3.And(inc[x], self.lower(x) == q)))
        e2 = lambda q: z3.If(cs, exc[q], z3.Exists([x], z3.And(exc[x], self.lower(x) == q)))
        fl = z3.If(cs, self.POSIX, self.WINDOWS)
        q = z3.Const("rq", self.PatS)
        return z3.And(z3.Exists([q], z3.And(i2(q), self.M(fl, p, q))), z3.Not(z3.Exists([q], z3.And(e2(q), self.M(fl, p, q)))))

    def conflict(self, inc, exc, cs):
        x, y, q = z3.Const("cx", self.PatS), z3.Const("cy", self.PatS), z3.Const("cq", self.PatS)
        return z3.If(cs, z3.Exists([q], z3.And(inc[q], exc[q])), z3.Exists([x, y], z3.And(inc[x], exc[y], self.lower(x) == self.lower(y))))

    # world hooks used by the engine
    def hasattr(self, ex, obj, name):
        if isinstance(obj, VRef) and obj.ty is self.EW.Event:
            return name in ("src_path", "dest_path", "is_synthetic", "is_directory", "event_type")
        raise Unsupported("hasattr")

    def isinstance(self, ex, v, cls):
        if isinstance(cls, VGlobal) and cls.dotted in ("str", "builtins.str"):
            if isinstance(v, VOpaque) and v.kind == "listofset":
                return False
            if isinstance(v, VList):
                return False
            if isinstance(v, str):
                return True
        raise Unsupported(f"isinstance({v!r},{cls!r})")

    def getattr(self, ex, obj, name):
        """getattr(self, f"on_{event.event_type}") -> case split over the event classes read from the real source"""
        if not (isinstance(obj, VObj) and isinstance(name, VOpaque) and name.kind == "fstring"):
            raise Unsupported("getattr")
        parts = name.data
        if len(parts) != 2 or not isinstance(parts[0], str) or not (isinstance(parts[1], VOpaque) and parts[1].kind == "event_type"):
            raise Unsupported("getattr with unexpected name")
        cterm = parts[1].data
        classes = self.EW.classes
        for cname in self.EW.names:
            if ex.branch(cterm == self.EW.cls[cname], f"event class {cname}"):
                mname = parts[0] + str(classes[cname]["event_type"])
                fm = source.find_method(obj.cls, mname, ex.classes)
                if fm is None:
                    raise Raise(VExc("AttributeError"), f"getattr({mname})")
                return VBound(obj, mname)
        raise Unsupported("event class outside the lattice")


def log_handlers(W):
    """call-side contract of the user-overridable callbacks: they only record (method, event) in the ghost log"""
    g = {}
    for m in METHODS:
        def h(ex, recv, args, kw, node, m=m):
            ex.emit("calls", VTuple([W.Call.tys[0].wrap(W.meth[m]), args[0]], W.Call))
            return None
        for cls in ("FileSystemEventHandler", "PatternMatchingEventHandler", "RegexMatchingEventHandler"):
            g[f"{cls}.{m}"] = h
        g[f"FileSystemEventHandler.{m}"] = h
    return g


def base_dispatch_contract(W):
    """call-side contract of FileSystemEventHandler.dispatch (proved by BaseDispatch below)"""
    def h(ex, recv, args, kw, node):
        ev = W.EW.Event.unwrap(args[0])
        ex.require("base-dispatch:concrete-event-class", z3.Not(W.EW.e_cls(ev) == W.EW.cls["FileSystemEvent"]))
        ex.emit("calls", VTuple([W.Call.tys[0].wrap(W.meth["on_any_event"]), args[0]], W.Call))
        ex.emit("calls", VTuple([W.Call.tys[0].wrap(expected_cb(W, ev)), args[0]], W.Call))
        return None
    return h


def expected_cb(W, ev):
    t = W.meth["on_any_event"]
    for cname, m in CALLBACK.items():
        t = z3.If(W.EW.e_cls(ev) == W.EW.cls[cname], W.meth[m], t)
    return t


class BaseDispatch(FnSpec):
    relpath, qualname, prop = EVENTS, "FileSystemEventHandler.dispatch", PROP

    def __init__(self, W):
        self.W, self.world = W, W

    def globals(self):
        return log_handlers(self.W)

    def setup(self, ex):
        W = self.W
        self.ev = ex.fresh_term(W.EW.EvS, "event")
        ex.assume(z3.Not(W.EW.e_cls(self.ev) == W.EW.cls["FileSystemEvent"]))  # the abstract base is never delivered
        ex.ghost["calls"] = W.Calls.empty()
        return {"self": VObj("FileSystemEventHandler"), "event": W.EW.Event.wrap(self.ev)}

    def post(self, ex, result):
        W = self.W
        c = ex.ghost["calls"]
        ex.oblige("post[exactly-two-callbacks]", c.n == 2)
        ex.oblige("post[first=on_any_event(event)]", c.arr[0] == W.Call.mk(W.meth["on_any_event"], self.ev))
        ex.oblige("post[second=on_<type>(event)]", c.arr[1] == W.Call.mk(expected_cb(W, self.ev), self.ev))


class PatternDispatch(FnSpec):
    relpath, qualname, prop = EVENTS, "PatternMatchingEventHandler.dispatch", PROP
    inline = {"PatternMatchingEventHandler.patterns", "PatternMatchingEventHandler.ignore_patterns", "PatternMatchingEventHandler.ignore_directories", "PatternMatchingEventHandler.case_sensitive"}

    def __init__(self, W):
        self.W, self.world = W, W

    def globals(self):
        W = self.W
        g = log_handlers(W)
        g["FileSystemEventHandler.dispatch"] = base_dispatch_contract(W)
        g["os.fsdecode"] = lambda ex, a, k, n: W.PStr.wrap(W.fsdecode(W.EPath.unwrap(a[0])))
        g["match_any_paths"] = self.h_match_any
        return g

    def h_match_any(self, ex, args, kw, node):
        """call-side contract of match_any_paths (proved by MatchAny below)"""
        W = self.W
        paths = args[0]
        if not isinstance(paths, VList):
            raise Unsupported("paths is not a list")
        inc = defaulted(W, kw.get("included_patterns"), True)
        exc = defaulted(W, kw.get("excluded_patterns"), False)
        cs = TBool.unwrap(kw.get("case_sensitive", True))
        if ex.branch(z3.And(paths.n > 0, W.conflict(inc, exc, cs)), "conflicting patterns"):
            raise Raise(VExc("ValueError"), "match_any_paths")
        j = ex.fresh_term(z3.IntSort(), "mj")
        return VBool(z3.Exists([j], z3.And(j >= 0, j < paths.n, W.rule(paths.arr[j], inc, exc, cs))))

    def setup(self, ex):
        W = self.W
        self.me = VObj("PatternMatchingEventHandler")
        self.ev = ex.fresh_term(W.EW.EvS, "event")
        ex.assume(z3.Not(W.EW.e_cls(self.ev) == W.EW.cls["FileSystemEvent"]))
        self.pats = ex.fresh(TOpt(TSet(W.Pat)), "patterns")
        self.ign = ex.fresh(TOpt(TSet(W.Pat)), "ignore_patterns")
        self.igd = ex.fresh_term(z3.BoolSort(), "ignore_directories")
        self.cs = ex.fresh_term(z3.BoolSort(), "case_sensitive")
        as_list = lambda o: VOpt(o.some, VOpaque("listofset", o.val))
        H = ex.heap
        H[(self.me.id, "_patterns")] = as_list(self.pats)
        H[(self.me.id, "_ignore_patterns")] = as_list(self.ign)
        H[(self.me.id, "_ignore_directories")] = VBool(self.igd)
        H[(self.me.id, "_case_sensitive")] = VBool(self.cs)
        ex.ghost["calls"] = W.Calls.empty()
        ex.assume(W.empty_path == W.empty_path)
        return {"self": self.me, "event": W.EW.Event.wrap(self.ev)}

    def should_dispatch(self, ex):
        """the rule of the statement"""
        W = self.W
        inc = z3.If(self.pats.some, self.pats.val.t, z3.Store(z3.K(W.PatS, z3.BoolVal(False)), W.STAR, True))
        exc = z3.If(self.ign.some, self.ign.val.t, z3.K(W.PatS, z3.BoolVal(False)))
        src, dest = W.EW.e_src(self.ev), W.EW.e_dest(self.ev)
        # "its paths": dest_path (present on every event) and the non-empty src_path
        some_path = z3.Or(W.rule(W.fsdecode(dest), inc, exc, self.cs), z3.And(W.nonempty(src), W.rule(W.fsdecode(src), inc, exc, self.cs)))
        ignored_dir = z3.And(self.igd, W.EW.is_directory(W.EW.e_cls(self.ev)))
        return z3.And(z3.Not(ignored_dir), some_path), ignored_dir, W.conflict(inc, exc, self.cs)

    def post(self, ex, result):
        W = self.W
        c = ex.ghost["calls"]
        sd, ignored_dir, conflict = self.should_dispatch(ex)
        ex.oblige("post[no-conflict-on-normal-return-unless-ignored-directory]", z3.Or(ignored_dir, z3.Not(conflict)))
        ex.oblige("post[dispatches-iff-rule:=>]", z3.Implies(c.n > 0, sd))
        ex.oblige("post[dispatches-iff-rule:<=]", z3.Implies(sd, c.n == 2))
        ex.oblige("post[callbacks-are-the-base-dispatch]", z3.Or(c.n == 0, z3.And(c.n == 2, c.arr[0] == W.Call.mk(W.meth["on_any_event"], self.ev), c.arr[1] == W.Call.mk(expected_cb(W, self.ev), self.ev))))

    def post_raise(self, ex, exc, site):
        sd, ignored_dir, conflict = self.should_dispatch(ex)
        if exc.cls == "ValueError":
            ex.oblige("raises[ValueError only for conflicting patterns]", z3.And(conflict, z3.Not(ignored_dir)))
            ex.oblige("raises[no callback before the rejection]", ex.ghost["calls"].n == 0)
        else:
            ex.oblige(f"no-uncaught[{exc.cls}@{site}]", False, kind="exception")


def defaulted(W, v, is_include):
    """the pattern set denoted by an Optional[list] argument with the documented defaults"""
    default = z3.Store(z3.K(W.PatS, z3.BoolVal(False)), W.STAR, True) if is_include else z3.K(W.PatS, z3.BoolVal(False))
    if v is None:
        return default
    if isinstance(v, VOpt):
        inner = v.val.data.t if isinstance(v.val, VOpaque) else v.val.t
        return z3.If(v.some, inner, default)
    return W.patset(v)


class RegexDispatch(FnSpec):
    relpath, qualname, prop = EVENTS, "RegexMatchingEventHandler.dispatch", PROP
    inline = {"RegexMatchingEventHandler.regexes", "RegexMatchingEventHandler.ignore_regexes", "RegexMatchingEventHandler.ignore_directories", "RegexMatchingEventHandler.case_sensitive"}

    def __init__(self, W):
        self.W, self.world = W, W

    def globals(self):
        W = self.W
        g = log_handlers(W)
        g["FileSystemEventHandler.dispatch"] = base_dispatch_contract(W)
        g["os.fsdecode"] = lambda ex, a, k, n: W.PStr.wrap(W.fsdecode(W.EPath.unwrap(a[0])))
        return g

    def setup(self, ex):
        W = self.W
        self.me = VObj("RegexMatchingEventHandler")
        self.ev = ex.fresh_term(W.EW.EvS, "event")
        ex.assume(z3.Not(W.EW.e_cls(self.ev) == W.EW.cls["FileSystemEvent"]))
        self.rx = ex.fresh(TList(W.Rx), "regexes")
        self.irx = ex.fresh(TList(W.Rx), "ignore_regexes")
        ex.assume(z3.And(self.rx.n >= 0, self.irx.n >= 0))
        self.igd = ex.fresh_term(z3.BoolSort(), "ignore_directories")
        H = ex.heap
        H[(self.me.id, "_regexes")] = self.rx
        H[(self.me.id, "_ignore_regexes")] = self.irx
        H[(self.me.id, "_ignore_directories")] = VBool(self.igd)
        H[(self.me.id, "_case_sensitive")] = VBool(ex.fresh_term(z3.BoolSort(), "cs"))
        ex.ghost["calls"] = W.Calls.empty()
        return {"self": self.me, "event": W.EW.Event.wrap(self.ev)}

    def post(self, ex, result):
        W = self.W
        c = ex.ghost["calls"]
        src, dest = W.EW.e_src(self.ev), W.EW.e_dest(self.ev)
        i = z3.Const("ri", z3.IntSort())
        anyp = lambda L: z3.Exists([i], z3.And(i >= 0, i < L.n, z3.Or(W.RM(L.arr[i], W.fsdecode(dest)), z3.And(W.nonempty(src), W.RM(L.arr[i], W.fsdecode(src))))))
        ignored_dir = z3.And(self.igd, W.EW.is_directory(W.EW.e_cls(self.ev)))
        sd = z3.And(z3.Not(ignored_dir), z3.Not(anyp(self.irx)), anyp(self.rx))
        ex.oblige("post[dispatches-iff-rule:=>]", z3.Implies(c.n > 0, sd))
        ex.oblige("post[dispatches-iff-rule:<=]", z3.Implies(sd, c.n == 2))
        ex.oblige("post[callbacks-are-the-base-dispatch]", z3.Or(c.n == 0, z3.And(c.n == 2, c.arr[0] == W.Call.mk(W.meth["on_any_event"], self.ev), c.arr[1] == W.Call.mk(expected_cb(W, self.ev), self.ev))))


# ------------------------------------------------------------------------------------------------ patterns.py
class MatchPath(FnSpec):
    relpath, qualname, prop = PATTERNS, "_match_path", PROP

    def __init__(self, W):
        self.W, self.world = W, W

    def globals(self):
        W = self.W
        mk = lambda fl: (lambda ex, a, k, n: W.PPath.wrap(W.PPathTT.mk(fl, W.PStr.unwrap(a[0]))))
        return {"PurePosixPath": mk(W.POSIX), "PureWindowsPath": mk(W.WINDOWS)}

    def setup(self, ex):
        W = self.W
        self.p = ex.fresh_term(W.StrS, "raw_path")
        self.inc = ex.fresh(TSet(W.Pat), "included")
        self.exc = ex.fresh(TSet(W.Pat), "excluded")
        self.cs = ex.fresh_term(z3.BoolSort(), "case_sensitive")
        return {"raw_path": W.PStr.wrap(self.p), "included_patterns": self.inc, "excluded_patterns": self.exc, "case_sensitive": VBool(self.cs)}

    def post(self, ex, result):
        W = self.W
        ex.oblige("post[no-conflict]", z3.Not(W.conflict(self.inc.t, self.exc.t, self.cs)))
        ex.oblige("post[result=rule]", TBool.unwrap(result) == W.rule(self.p, self.inc.t, self.exc.t, self.cs))

    def post_raise(self, ex, exc, site):
        W = self.W
        if exc.cls == "ValueError":
            ex.oblige("raises[ValueError iff conflict]", W.conflict(self.inc.t, self.exc.t, self.cs))
        else:
            ex.oblige(f"no-uncaught[{exc.cls}@{site}]", False, kind="exception")


def match_path_contract(W):
    def h(ex, args, kw, node):
        p = W.PStr.unwrap(args[0])
        inc, exc = W.patset(args[1]), W.patset(args[2])
        cs = TBool.unwrap(kw["case_sensitive"])
        if ex.branch(W.conflict(inc, exc, cs), "conflict"):
            raise Raise(VExc("ValueError"), "_match_path")
        return VBool(W.rule(p, inc, exc, cs))
    return h


class FilterPaths(FnSpec):
    relpath, qualname, prop = PATTERNS, "filter_paths", PROP

    def __init__(self, W):
        self.W, self.world = W, W
        self.loops = {1: LoopSpec("paths", self.inv, modifies=[("ghost", "kept")], ghost_start=self.gs)}

    def globals(self):
        return {"_match_path": match_path_contract(self.W)}

    def setup(self, ex):
        W = self.W
        self.paths = ex.fresh(TList(W.PStr), "paths")
        ex.assume(self.paths.n >= 0)
        self.inc = ex.fresh(TOpt(TSet(W.Pat)), "included")
        self.exc = ex.fresh(TOpt(TSet(W.Pat)), "excluded")
        self.cs = ex.fresh_term(z3.BoolSort(), "case_sensitive")
        as_list = lambda o: VOpt(o.some, VOpaque("listofset", o.val))
        # ghost: kept[j] <=> paths[j] was yielded (at iteration j)
        ex.ghost["kept"] = VSet(z3.K(z3.IntSort(), z3.BoolVal(False)), TInt)
        self.k = None
        return {"paths": self.paths, "included_patterns": as_list(self.inc), "excluded_patterns": as_list(self.exc), "case_sensitive": VBool(self.cs)}

    def sets(self):
        W = self.W
        inc = z3.If(self.inc.some, self.inc.val.t, z3.Store(z3.K(W.PatS, z3.BoolVal(False)), W.STAR, True))
        exc = z3.If(self.exc.some, self.exc.val.t, z3.K(W.PatS, z3.BoolVal(False)))
        return inc, exc

    def gs(self, ex, k, el=None):
        self.k = k

    def inv(self, ex, k):
        inc, exc = self.sets()
        j = z3.Const("fj", z3.IntSort())
        kept = ex.ghost["kept"].t
        return [("kept-iff-rule", z3.ForAll([j], kept[j] == z3.And(j >= 0, j < k, self.W.rule(self.paths.arr[j], inc, exc, self.cs)))),
                ("examined-without-conflict", z3.Or(k == 0, z3.Not(self.W.conflict(inc, exc, self.cs))))]

    def on_yield(self, ex, value):
        W = self.W
        if self.k is None:
            ex.oblige("yield-only-inside-the-loop", False)
            return
        kept = ex.ghost["kept"]
        ex.oblige("yield[the current element]", W.PStr.unwrap(value) == self.paths.arr[self.k])
        ex.oblige("yield[at most once per element]", z3.Not(kept.t[self.k]))
        ex.ghost["kept"] = VSet(z3.Store(kept.t, self.k, True), TInt)

    def post(self, ex, result):
        inc, exc = self.sets()
        J = ex.fresh_term(z3.IntSort(), "J")
        kept = ex.ghost["kept"].t
        ex.oblige("post[output is the sub-sequence of paths that satisfy the rule]", kept[J] == z3.And(J >= 0, J < self.paths.n, self.W.rule(self.paths.arr[J], inc, exc, self.cs)))
        ex.oblige("post[no-conflict-if-any-path-examined]", z3.Or(self.paths.n == 0, z3.Not(self.W.conflict(inc, exc, self.cs))))

    def post_raise(self, ex, exc, site):
        inc, excl = self.sets()
        if exc.cls == "ValueError":
            ex.oblige("raises[ValueError iff conflict and a path is examined]", z3.And(self.paths.n > 0, self.W.conflict(inc, excl, self.cs)))
        else:
            ex.oblige(f"no-uncaught[{exc.cls}@{site}]", False, kind="exception")


class MatchAny(FnSpec):
    relpath, qualname, prop = PATTERNS, "match_any_paths", PROP

    def __init__(self, W):
        self.W, self.world = W, W

    def globals(self):
        W = self.W

        def fp(ex, args, kw, node):
            """call-side contract of filter_paths (proved by FilterPaths)"""
            paths = args[0]
            inc = defaulted(W, kw.get("included_patterns"), True)
            exc = defaulted(W, kw.get("excluded_patterns"), False)
            cs = TBool.unwrap(kw.get("case_sensitive", True))
            self.seen = (paths, inc, exc, cs)
            if ex.branch(z3.And(paths.n > 0, W.conflict(inc, exc, cs)), "conflict"):
                raise Raise(VExc("ValueError"), "filter_paths")
            j = ex.fresh_term(z3.IntSort(), "aj")
            return VOpaque("gen_nonempty", z3.Exists([j], z3.And(j >= 0, j < paths.n, W.rule(paths.arr[j], inc, exc, cs))))
        return {"filter_paths": fp}

    def setup(self, ex):
        W = self.W
        self.paths = ex.fresh(TList(W.PStr), "paths")
        ex.assume(self.paths.n >= 0)
        self.inc = ex.fresh(TOpt(TSet(W.Pat)), "included")
        self.exc = ex.fresh(TOpt(TSet(W.Pat)), "excluded")
        self.cs = ex.fresh_term(z3.BoolSort(), "case_sensitive")
        as_list = lambda o: VOpt(o.some, VOpaque("listofset", o.val))
        return {"paths": self.paths, "included_patterns": as_list(self.inc), "excluded_patterns": as_list(self.exc), "case_sensitive": VBool(self.cs)}

    def post(self, ex, result):
        W = self.W
        inc = z3.If(self.inc.some, self.inc.val.t, z3.Store(z3.K(W.PatS, z3.BoolVal(False)), W.STAR, True))
        exc = z3.If(self.exc.some, self.exc.val.t, z3.K(W.PatS, z3.BoolVal(False)))
        j = z3.Const("pj", z3.IntSort())
        ex.oblige("post[any path satisfies the rule]", TBool.unwrap(result) == z3.Exists([j], z3.And(j >= 0, j < self.paths.n, W.rule(self.paths.arr[j], inc, exc, self.cs))))

    def post_raise(self, ex, exc, site):
        W = self.W
        inc = z3.If(self.inc.some, self.inc.val.t, z3.Store(z3.K(W.PatS, z3.BoolVal(False)), W.STAR, True))
        excl = z3.If(self.exc.some, self.exc.val.t, z3.K(W.PatS, z3.BoolVal(False)))
        if exc.cls == "ValueError":
            ex.oblige("raises[ValueError iff conflict and a path is examined]", z3.And(self.paths.n > 0, W.conflict(inc, excl, self.cs)))
        else:
            ex.oblige(f"no-uncaught[{exc.cls}@{site}]", False, kind="exception")


class RegexInit(FnSpec):
    """RegexMatchingEventHandler.__init__: the compiled lists are the given lists element by element (case folded iff not
    case_sensitive); None means 'include everything' / 'ignore nothing'; an EMPTY include list stays empty (nothing is
    dispatched) - it is not the default"""
    relpath, qualname, prop = EVENTS, "RegexMatchingEventHandler.__init__", PROP

    def __init__(self, W):
        self.W = W
        self.world = self
        self.SrcS = ground.usort("RegexSource")
        self.Src = TRef("RegexSource", self.SrcS)
        self.RC = z3.Function("re_compile", self.SrcS, z3.BoolSort(), W.RxS)

    def isinstance(self, ex, v, cls):
        name = cls.dotted if isinstance(cls, VGlobal) else getattr(cls, "name", None)
        if name in ("str", "builtins.str"):
            return isinstance(v, str)      # the symbolic argument is a list (a single string is the documented shortcut, not modelled)
        raise Unsupported("isinstance")

    def src(self, v):
        if isinstance(v, str):
            return z3.Const("regex_lit_" + v.encode().hex(), self.SrcS)
        return self.Src.unwrap(v)

    def globals(self):
        W = self.W

        def compile_(ex, a, k, n):
            ic = len(a) > 1
            return W.Rx.wrap(self.RC(self.src(a[0]), z3.BoolVal(ic)))
        return {"re.compile": compile_, "re.IGNORECASE": VOpaque("re.IGNORECASE"), "re.I": VOpaque("re.IGNORECASE"), "super.__init__": lambda ex, recv, a, k, n: None,
                "FileSystemEventHandler.__init__": lambda ex, recv, a, k, n: None}

    def setup(self, ex):
        self.me = VObj("RegexMatchingEventHandler")
        L = TList(self.Src)
        self.rx = ex.fresh(TOpt(L), "regexes")
        self.irx = ex.fresh(TOpt(L), "ignore_regexes")
        ex.assume(z3.And(self.rx.val.n >= 0, self.irx.val.n >= 0))
        self.cs = ex.fresh_term(z3.BoolSort(), "case_sensitive")
        self.igd = ex.fresh_term(z3.BoolSort(), "ignore_directories")
        return {"self": self.me, "regexes": self.rx, "ignore_regexes": self.irx, "ignore_directories": VBool(self.igd), "case_sensitive": VBool(self.cs)}

    def same(self, ex, got, given, default_lits, tag):
        """got: what the constructor stored; given: TOpt(list of sources)"""
        ic = z3.Not(self.cs)
        k = z3.Const("rk", z3.IntSort())
        if isinstance(got, list):          # a concrete python list of compiled patterns: only legitimate for the default
            want = [self.RC(self.src(l), ic) for l in default_lits]
            ok = len(got) == len(want) and all(isinstance(g, VRef) for g in got)
            ex.oblige(f"post[{tag}: a literal list is stored only when None was given, and it is the documented default]",
                      z3.And(z3.Not(given.some), z3.BoolVal(ok), *[g.t == w for g, w in zip(got, want)]) if ok else False)
        elif isinstance(got, VList):
            ex.oblige(f"post[{tag}: the given list compiled element by element, case folded iff not case_sensitive (an empty list stays empty)]",
                      z3.And(given.some, got.n == given.val.n, z3.ForAll([k], z3.Implies(z3.And(k >= 0, k < got.n), got.arr[k] == self.RC(given.val.arr[k], ic)))))
        else:
            ex.oblige(f"post[{tag}: a list of compiled patterns is stored]", False)

    def post(self, ex, result):
        H = ex.heap
        self.same(ex, H.get((self.me.id, "_regexes")), self.rx, [".*"], "regexes")
        self.same(ex, H.get((self.me.id, "_ignore_regexes")), self.irx, [], "ignore_regexes")
        ex.oblige("post[flags stored]", z3.And(TBool.unwrap(H.get((self.me.id, "_ignore_directories"))) == self.igd, TBool.unwrap(H.get((self.me.id, "_case_sensitive"))) == self.cs))


def make_specs():
    W = World()
    return [BaseDispatch(W), PatternDispatch(W), RegexDispatch(W), RegexInit(W), MatchPath(W), FilterPaths(W), MatchAny(W)]


def lemmas():
    """every concrete event class names an existing callback (read from the real class bodies)"""
    classes = event_classes()
    table = source.class_table()
    out = []
    for cname, want in CALLBACK.items():
        ok = cname in classes and ("on_" + str(classes[cname]["event_type"])) == want and source.find_method("FileSystemEventHandler", want, table) is not None
        out.append(Obligation(f"lemma[{cname}.event_type names {want}]", "lemma", [], z3.BoolVal(bool(ok)), "", "event classes"))
    extra = [c for c in classes if c not in CALLBACK and c != "FileSystemEvent"]
    out.append(Obligation("lemma[no event class outside the documented lattice]", "lemma", [], z3.BoolVal(not extra), "", "event classes"))
    return out


EXPECTED_CLAUSES = ["post[second=on_<type>(event)]", "PatternMatchingEventHandler.dispatch.post[dispatches-iff-rule:<=]", "RegexMatchingEventHandler.dispatch.post[dispatches-iff-rule:=>]",
                    "_match_path.post[result=rule]", "filter_paths.post[output is the sub-sequence", "match_any_paths.post[any path", "raises[ValueError"]
CANARIES = [
    {"name": "`and not any(` -> `or not any(` in _match_path", "file": PATTERNS, "fn": "_match_path", "find": "for p in included_patterns) and not any(", "replace": "for p in included_patterns) or not any("},
    {"name": "on_any_event after the typed callback", "file": EVENTS, "fn": "FileSystemEventHandler.dispatch", "find": "        self.on_any_event(event)\n        getattr(self, f\"on_{event.event_type}\")(event)", "replace": "        getattr(self, f\"on_{event.event_type}\")(event)\n        self.on_any_event(event)"},
    {"name": "ignore-directories test inverted", "file": EVENTS, "fn": "PatternMatchingEventHandler.dispatch", "find": "if self.ignore_directories and event.is_directory:", "replace": "if self.ignore_directories and not event.is_directory:"},
    {"name": "skip .lower() of excluded patterns", "file": PATTERNS, "fn": "_match_path", "find": "excluded_patterns = {pattern.lower() for pattern in excluded_patterns}", "replace": "excluded_patterns = set(excluded_patterns)"},
]
TRUSTED = ["E9 pathlib.PurePath.match(flavour, path, pattern), re.Pattern.match, str.lower, os.fsdecode are pure (uninterpreted) functions",
           "E10 event dataclass fields; hasattr(event, 'dest_path') is true for every event", "user callbacks on_* are arbitrary but only observed through the ghost call log (they do not touch the handler's configuration)"]
ASSUMPTIONS = ["'its paths' is read as: dest_path (present on every event, '' for non-moves) and src_path when non-empty; the abstract base FileSystemEvent is never delivered",
               "pattern lists are treated as sets (the code converts them with set())"]
UNDECIDED_PARTS = ["agreement with pathlib's own matching is the [bounded] battery only (PurePath.match is uninterpreted in the proof)", "RegexMatchingEventHandler.__init__ (regex compilation flags) is covered by the battery only"]
