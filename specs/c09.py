"""C09 — a snapshot diff is a correct, minimal, inode-faithful description of the change.

Contracts on: DirectorySnapshotDiff.__init__, DirectorySnapshot.{paths,path,inode,isdir,mtime,size,__sub__},
EmptyDirectorySnapshot.{path,paths}.  Top-level postconditions are transcribed from the property statement."""
from __future__ import annotations
import z3
from pyvc.sym import *
from pyvc.engine import FnSpec, LoopSpec, Obligation
from pyvc import ground

PROP = "C09"
GROUNDABLE = True
BATTERY = "c09_battery.py"
FILE = "watchdog/utils/dirsnapshot.py"


class World:
    def __init__(self):
        self.PathS = ground.usort("Path")
        self.InoS = ground.usort("Ino")
        self.DevS = ground.usort("Dev")
        self.SnapS = ground.usort("Snap")
        self.StatS = ground.usort("Stat")
        self.nonempty = z3.Function("nonempty", self.PathS, z3.BoolSort())
        self.Ino = TRef("Ino", self.InoS)
        self.Dev = TRef("Dev", self.DevS)
        self.Path = TRef("Path", self.PathS, truthy=lambda t: self.nonempty(t))
        self.Key = TTup(self.Ino, self.Dev)
        self.Pair = TTup(self.Path, self.Path)
        P, S, K = self.PathS, self.SnapS, self.Key.sort
        self.paths = z3.Function("paths", S, z3.ArraySort(P, z3.BoolSort()))
        self.ino = z3.Function("ino", S, P, self.InoS)
        self.dev = z3.Function("dev", S, P, self.DevS)
        self.mt = z3.Function("mt", S, P, z3.RealSort())
        self.sz = z3.Function("sz", S, P, z3.IntSort())
        self.isd = z3.Function("isd", S, P, z3.BoolSort())
        self.has = z3.Function("has", S, K, z3.BoolSort())
        self.pathof = z3.Function("pathof", S, K, P)
        # stat records (for the accessor contracts)
        self.st_ino = z3.Function("st_ino", self.StatS, self.InoS)
        self.st_dev = z3.Function("st_dev", self.StatS, self.DevS)
        self.st_mtime = z3.Function("st_mtime", self.StatS, z3.RealSort())
        self.st_size = z3.Function("st_size", self.StatS, z3.IntSort())
        self.ModeS = ground.usort("Mode")
        self.st_mode = z3.Function("st_mode", self.StatS, self.ModeS)
        self.s_isdir = z3.Function("S_ISDIR", self.ModeS, z3.BoolSort())
        self.Mode = TRef("Mode", self.ModeS)
        self.Stat = TRef("Stat", self.StatS, attrs={
            "st_ino": lambda ex, r: self.Ino.wrap(self.st_ino(r.t)),
            "st_dev": lambda ex, r: self.Dev.wrap(self.st_dev(r.t)),
            "st_mtime": lambda ex, r: VReal(self.st_mtime(r.t)),
            "st_size": lambda ex, r: VInt(self.st_size(r.t)),
            "st_mode": lambda ex, r: self.Mode.wrap(self.st_mode(r.t)),
        })
        self.Snap = TRef("Snap", self.SnapS, attrs={"paths": self._a_paths},
                         methods={"inode": self._m_inode, "path": self._m_path, "mtime": self._m_get(self.mt, TReal, "mtime"),
                                  "size": self._m_get(self.sz, TInt, "size"), "isdir": self._m_get(self.isd, TBool, "isdir"), "stat_info": self._m_stat_info})

    def _sfx(self):
        return "" if ground.SCOPE is None else f"_fin{ground.SCOPE}"

    def key(self, s, p):
        return self.Key.mk(self.ino(s, p), self.dev(s, p))

    # ---- call-side contracts of the snapshot accessors (verified against the real bodies below)
    def _a_paths(self, ex, r):
        return VSet(self.paths(r.t), self.Path)

    def _m_inode(self, ex, r, args, kw, node):
        p = self.Path.unwrap(args[0])
        ex.implicit_exc("KeyError", self.paths(r.t)[p], ex.site(node))
        return VTuple([self.Ino.wrap(self.ino(r.t, p)), self.Dev.wrap(self.dev(r.t, p))], self.Key, self.key(r.t, p))

    def _m_path(self, ex, r, args, kw, node):
        k = self.Key.unwrap(args[0])
        return VOpt(self.has(r.t, k), self.Path.wrap(self.pathof(r.t, k)))

    def stat_matches(self, st, s, p):
        """the stat record st is the one the view of snapshot s is defined by at path p"""
        return z3.And(self.ino(s, p) == self.st_ino(st), self.dev(s, p) == self.st_dev(st), self.mt(s, p) == self.st_mtime(st), self.sz(s, p) == self.st_size(st),
                      self.isd(s, p) == self.s_isdir(self.st_mode(st)))

    def _m_stat_info(self, ex, r, args, kw, node):
        p = self.Path.unwrap(args[0])
        ex.implicit_exc("KeyError", self.paths(r.t)[p], ex.site(node))
        st = ex.fresh_term(self.StatS, "stat_info")
        ex.assume(self.stat_matches(st, r.t, p))
        return self.Stat.wrap(st)

    def _m_get(self, f, ty, nm):
        def h(ex, r, args, kw, node):
            p = self.Path.unwrap(args[0])
            ex.implicit_exc("KeyError", self.paths(r.t)[p], ex.site(node))
            return ty.wrap(f(r.t, p))
        return h

    # ---- well-formedness
    def wf0(self, s):
        k = z3.Const("k", self.Key.sort)
        p = z3.Const("p", self.PathS)
        return [z3.ForAll([k], z3.Implies(self.has(s, k), self.paths(s)[self.pathof(s, k)])),
                z3.ForAll([p], z3.Implies(self.paths(s)[p], self.nonempty(p)))]

    def wf(self, s):
        k = z3.Const("k", self.Key.sort)
        p = z3.Const("p", self.PathS)
        return [z3.ForAll([p], z3.Implies(self.paths(s)[p], z3.And(self.has(s, self.key(s, p)), self.pathof(s, self.key(s, p)) == p, self.nonempty(p)))),
                z3.ForAll([k], z3.Implies(self.has(s, k), z3.And(self.paths(s)[self.pathof(s, k)], self.key(s, self.pathof(s, k)) == k)))]

    def globals(self):
        return {"S_ISDIR": lambda ex, args, kw, node: VBool(self.s_isdir(self.Mode.unwrap(args[0])))}


# --------------------------------------------------------------------------------- DirectorySnapshotDiff.__init__
class DiffInit(FnSpec):
    relpath, qualname, prop = FILE, "DirectorySnapshotDiff.__init__", PROP

    def __init__(self, W: World, mode: str):
        """mode: 'wf0' (safety only: no KeyError for any pair of snapshots DirectorySnapshot.__init__ can build),
        'laws' (wf, ignore_device symbolic), 'dev' (law 7: snapshots differ only in st_dev, ignore_device=True)"""
        self.W, self.mode, self.world = W, mode, W
        self.var_types = {"moved": TSet(W.Pair), "modified": TSet(W.Path)}
        self.loops = {
            1: LoopSpec("ref.paths & snapshot.paths", self.inv1),
            2: LoopSpec("set(deleted)", self.inv2),
            3: LoopSpec("set(created)", self.inv3),
            4: LoopSpec("ref.paths & snapshot.paths", self.inv4),
            5: LoopSpec("moved", self.inv5),
        }
        self.tag = mode
        if mode == "dev":
            # with identical trees nothing is created/deleted/moved: loops 2, 3, 5 are (rightly) unreachable
            self.expected_covers = ["loop1.body", "loop1.end", "loop4.body", "loop4.end", "exit"]

    def globals(self):
        return self.W.globals()

    def setup(self, ex):
        W = self.W
        self.ref = ex.fresh_term(W.SnapS, "ref")
        self.snap = ex.fresh_term(W.SnapS, "snap")
        self.me = VObj("DirectorySnapshotDiff")
        if self.mode == "dev":
            ign = True
        else:
            ign = VBool(ex.fresh_term(z3.BoolSort(), "ignore_device"))
        self.ign = ign
        wf = W.wf0 if self.mode == "wf0" else W.wf
        for f in wf(self.ref) + wf(self.snap):
            ex.assume(f)
        if self.mode == "dev":
            p = z3.Const("p", W.PathS)
            r, s = self.ref, self.snap
            ex.assume(W.paths(r) == W.paths(s))
            ex.assume(z3.ForAll([p], z3.Implies(W.paths(r)[p], z3.And(W.ino(r, p) == W.ino(s, p), W.mt(r, p) == W.mt(s, p), W.sz(r, p) == W.sz(s, p), W.isd(r, p) == W.isd(s, p)))))
            # ids stay unique when the device is ignored (one device per snapshot)
            q = z3.Const("q", W.PathS)
            for x in (r, s):
                ex.assume(z3.ForAll([p, q], z3.Implies(z3.And(W.paths(x)[p], W.paths(x)[q]), W.dev(x, p) == W.dev(x, q))))
        return {"self": self.me, "ref": W.Snap.wrap(self.ref), "snapshot": W.Snap.wrap(self.snap), "ignore_device": ign}

    # ---- spec-level predicates (independent of the code)
    def gi_eq(self, x):
        """get_inode(ref,x) == get_inode(snapshot,x) for the current ignore_device"""
        W, r, s = self.W, self.ref, self.snap
        full = W.key(r, x) == W.key(s, x)
        inoonly = W.ino(r, x) == W.ino(s, x)
        if self.ign is True:
            return inoonly
        return z3.If(self.ign.t, inoonly, full)

    def differs(self, x):
        W = self.W
        return z3.And(W.paths(self.ref)[x], W.paths(self.snap)[x], z3.Not(self.gi_eq(x)))

    def c0(self, x):
        W = self.W
        return z3.Or(z3.And(W.paths(self.snap)[x], z3.Not(W.paths(self.ref)[x])), self.differs(x))

    def d0(self, x):
        W = self.W
        return z3.Or(z3.And(W.paths(self.ref)[x], z3.Not(W.paths(self.snap)[x])), self.differs(x))

    def mv1(self, a, b):
        W = self.W
        return z3.And(self.d0(a), W.has(self.snap, W.key(self.ref, a)), b == W.pathof(self.snap, W.key(self.ref, a)), W.nonempty(b))

    def mv2(self, a, b):
        W = self.W
        return z3.And(self.c0(b), W.has(self.ref, W.key(self.snap, b)), a == W.pathof(self.ref, W.key(self.snap, b)), W.nonempty(a))

    def mvF(self, a, b):
        return z3.Or(self.mv1(a, b), self.mv2(a, b))

    def unm(self, x):
        W, r, s = self.W, self.ref, self.snap
        return z3.And(W.paths(r)[x], W.paths(s)[x], self.gi_eq(x), z3.Or(W.mt(r, x) != W.mt(s, x), W.sz(r, x) != W.sz(s, x)))

    def _v(self, ex, name):
        return ex.scope.lookup(name).vars[name]

    # ---- loop invariants
    def inv1(self, ex, seen):
        W = self.W
        p = z3.Const("p", W.PathS)
        cr, de = self._v(ex, "created").t, self._v(ex, "deleted").t
        bc = z3.And(W.paths(self.snap)[p], z3.Not(W.paths(self.ref)[p]))
        bd = z3.And(W.paths(self.ref)[p], z3.Not(W.paths(self.snap)[p]))
        return [("created", z3.ForAll([p], cr[p] == z3.Or(bc, z3.And(seen[p], self.differs(p))))),
                ("deleted", z3.ForAll([p], de[p] == z3.Or(bd, z3.And(seen[p], self.differs(p)))))]

    def inv2(self, ex, seen):
        W = self.W
        p = z3.Const("p", W.PathS)
        pr = z3.Const("pr", W.Pair.sort)
        a, b = W.Pair.proj[0](pr), W.Pair.proj[1](pr)
        de, mv = self._v(ex, "deleted").t, self._v(ex, "moved").t
        hit = lambda x: z3.And(W.has(self.snap, W.key(self.ref, x)), W.nonempty(W.pathof(self.snap, W.key(self.ref, x))))
        return [("deleted", z3.ForAll([p], de[p] == z3.And(self.d0(p), z3.Not(z3.And(seen[p], hit(p)))))),
                ("moved", z3.ForAll([pr], mv[pr] == z3.And(seen[a], self.mv1(a, b))))]

    def inv3(self, ex, seen):
        W = self.W
        p = z3.Const("p", W.PathS)
        pr = z3.Const("pr", W.Pair.sort)
        a, b = W.Pair.proj[0](pr), W.Pair.proj[1](pr)
        cr, mv = self._v(ex, "created").t, self._v(ex, "moved").t
        hit = lambda x: z3.And(W.has(self.ref, W.key(self.snap, x)), W.nonempty(W.pathof(self.ref, W.key(self.snap, x))))
        return [("created", z3.ForAll([p], cr[p] == z3.And(self.c0(p), z3.Not(z3.And(seen[p], hit(p)))))),
                ("moved", z3.ForAll([pr], mv[pr] == z3.Or(self.mv1(a, b), z3.And(seen[b], self.mv2(a, b)))))]

    def inv4(self, ex, seen):
        W = self.W
        p = z3.Const("p", W.PathS)
        mo = self._v(ex, "modified").t
        return [("modified", z3.ForAll([p], mo[p] == z3.And(seen[p], self.unm(p))))]

    def inv5(self, ex, seen):
        W, r, s = self.W, self.ref, self.snap
        p, q = z3.Const("p", W.PathS), z3.Const("q", W.PathS)
        mo = self._v(ex, "modified").t
        ch = lambda a, b: z3.Or(W.mt(r, a) != W.mt(s, b), W.sz(r, a) != W.sz(s, b))
        return [("modified", z3.ForAll([p], mo[p] == z3.Or(self.unm(p), z3.Exists([q], z3.And(seen[W.Pair.mk(p, q)], ch(p, q))))))]

    # ---- postconditions: the laws of the statement
    def post(self, ex, result):
        W, r, s = self.W, self.ref, self.snap
        H = lambda f: ex.heap[(self.me.id, f)]

        def as_set(v, what):
            if isinstance(v, VOpaque) and v.kind == "listofset":
                return v.data.t
            raise Unsupported(f"{what} is not a duplicate-free list of a set: {v!r}")

        dc, dd, dm, dmv = [as_set(H(f), f) for f in ("_dirs_created", "_dirs_deleted", "_dirs_modified", "_dirs_moved")]
        fc, fd, fm, fmv = [as_set(H(f), f) for f in ("_files_created", "_files_deleted", "_files_modified", "_files_moved")]
        p, q = z3.Const("p", W.PathS), z3.Const("q", W.PathS)
        P0, Q0 = ex.fresh_term(W.PathS, "P0"), ex.fresh_term(W.PathS, "Q0")
        crt = lambda x: z3.Or(dc[x], fc[x])
        dele = lambda x: z3.Or(dd[x], fd[x])
        modi = lambda x: z3.Or(dm[x], fm[x])
        mvd = lambda a, b: z3.Or(dmv[W.Pair.mk(a, b)], fmv[W.Pair.mk(a, b)])
        if self.mode == "wf0":
            return  # only the safety obligations generated during execution
        if self.mode == "dev":
            for nm, t in (("dirs_created", dc), ("dirs_deleted", dd), ("dirs_modified", dm), ("files_created", fc), ("files_deleted", fd), ("files_modified", fm)):
                ex.oblige(f"post[ignore_device:{nm}-empty]", z3.Not(t[P0]))
            for nm, t in (("dirs_moved", dmv), ("files_moved", fmv)):
                ex.oblige(f"post[ignore_device:{nm}-empty]", z3.Not(t[W.Pair.mk(P0, Q0)]))
            return
        # From here: ignore_device = False branch carries the laws as stated (identity = (inode, device)).
        laws = z3.Not(self.ign.t)
        ex.assume(laws)
        same_id = lambda a, b: W.key(r, a) == W.key(s, b)
        inR, inS = (lambda x: W.paths(r)[x]), (lambda x: W.paths(s)[x])
        # characterisation lemmas (proved first, then used as hypotheses: Dafny-style chaining)
        lem_mv = z3.ForAll([p, q], mvd(p, q) == z3.And(inR(p), inS(q), same_id(p, q), p != q))
        lem_c = z3.ForAll([p], crt(p) == z3.And(inS(p), z3.Not(W.has(r, W.key(s, p)))))
        lem_d = z3.ForAll([p], dele(p) == z3.And(inR(p), z3.Not(W.has(s, W.key(r, p)))))
        # law 2: moved iff same inode under a different path
        ex.oblige("post[moved-iff-same-id-different-path:=>]", z3.Implies(mvd(P0, Q0), z3.And(inR(P0), inS(Q0), same_id(P0, Q0), P0 != Q0)))
        ex.oblige("post[moved-iff-same-id-different-path:<=]", z3.Implies(z3.And(inR(P0), inS(Q0), same_id(P0, Q0), P0 != Q0), mvd(P0, Q0)))
        # law 3: created/deleted only if the inode is absent from the other snapshot (and exact characterisation)
        ex.oblige("post[created-iff-new-id:=>]", z3.Implies(crt(P0), z3.And(inS(P0), z3.Not(W.has(r, W.key(s, P0))))))
        ex.oblige("post[created-iff-new-id:<=]", z3.Implies(z3.And(inS(P0), z3.Not(W.has(r, W.key(s, P0)))), crt(P0)))
        ex.oblige("post[deleted-iff-id-gone:=>]", z3.Implies(dele(P0), z3.And(inR(P0), z3.Not(W.has(s, W.key(r, P0))))))
        ex.oblige("post[deleted-iff-id-gone:<=]", z3.Implies(z3.And(inR(P0), z3.Not(W.has(s, W.key(r, P0)))), dele(P0)))
        saved = list(ex.pc)
        ex.assume(lem_mv)
        ex.assume(lem_c)
        ex.assume(lem_d)
        # law 1: (ref.paths \ deleted \ src(moved)) ∪ created ∪ dst(moved) = snap.paths
        lhs = lambda x: z3.Or(z3.And(inR(x), z3.Not(dele(x)), z3.Not(z3.Exists([q], mvd(x, q)))), crt(x), z3.Exists([q], mvd(q, x)))
        ex.oblige("post[pathset:=>]", z3.Implies(inS(P0), z3.Or(z3.And(inR(P0), z3.Not(dele(P0)), z3.Not(z3.Exists([q], mvd(P0, q)))), crt(P0), mvd(W.pathof(r, W.key(s, P0)), P0))))
        ex.oblige("post[pathset:<=]", z3.Implies(z3.Or(z3.And(inR(P0), z3.Not(dele(P0)), z3.Not(mvd(P0, W.pathof(s, W.key(r, P0))))), crt(P0), mvd(Q0, P0)), inS(P0)))
        # law 4: modified iff it kept its identity (same path, or as a move source) and mtime or size changed
        ch = lambda a, b: z3.Or(W.mt(r, a) != W.mt(s, b), W.sz(r, a) != W.sz(s, b))
        kept_same = z3.And(inR(P0), inS(P0), same_id(P0, P0), ch(P0, P0))
        partner = W.pathof(s, W.key(r, P0))
        kept_moved = z3.And(inR(P0), W.has(s, W.key(r, P0)), partner != P0, ch(P0, partner))
        ex.oblige("post[modified-iff-kept-identity-and-changed:=>]", z3.Implies(modi(P0), z3.Or(kept_same, kept_moved)))
        ex.oblige("post[modified-iff-kept-identity-and-changed:<=]", z3.Implies(z3.Or(kept_same, kept_moved), modi(P0)))
        # law 5: kinds partition each list by the kind in the snapshot the entry comes from
        ex.oblige("post[kind:created]", z3.And(z3.Not(z3.And(dc[P0], fc[P0])), z3.Implies(dc[P0], W.isd(s, P0)), z3.Implies(fc[P0], z3.Not(W.isd(s, P0)))))
        ex.oblige("post[kind:deleted]", z3.And(z3.Not(z3.And(dd[P0], fd[P0])), z3.Implies(dd[P0], W.isd(r, P0)), z3.Implies(fd[P0], z3.Not(W.isd(r, P0)))))
        ex.oblige("post[kind:modified]", z3.And(z3.Not(z3.And(dm[P0], fm[P0])), z3.Implies(dm[P0], W.isd(r, P0)), z3.Implies(fm[P0], z3.Not(W.isd(r, P0)))))
        pr0 = W.Pair.mk(P0, Q0)
        ex.oblige("post[kind:moved]", z3.And(z3.Not(z3.And(dmv[pr0], fmv[pr0])), z3.Implies(dmv[pr0], W.isd(r, P0)), z3.Implies(fmv[pr0], z3.Not(W.isd(r, P0)))))
        # law 6a: diffing a snapshot against itself is empty
        same = z3.And(W.paths(r) == W.paths(s), z3.ForAll([p], z3.Implies(inR(p), z3.And(W.key(r, p) == W.key(s, p), W.mt(r, p) == W.mt(s, p), W.sz(r, p) == W.sz(s, p)))),
                      z3.ForAll([z3.Const("k", W.Key.sort)], z3.And(W.has(r, z3.Const("k", W.Key.sort)) == W.has(s, z3.Const("k", W.Key.sort)), W.pathof(r, z3.Const("k", W.Key.sort)) == W.pathof(s, z3.Const("k", W.Key.sort)))))
        ex.pc.append(same)
        ex.oblige("post[self-diff-empty]", z3.And(z3.Not(crt(P0)), z3.Not(dele(P0)), z3.Not(modi(P0)), z3.Not(mvd(P0, Q0))))
        ex.pc[:] = saved


# --------------------------------------------------------------------------------- accessors against the view
class Accessor(FnSpec):
    """DirectorySnapshot.<accessor>: self is an object whose two dicts define the abstract view."""
    relpath, prop = FILE, PROP
    implicit = {"KeyError": "fork"}

    def __init__(self, W: World, name: str):
        self.W, self.world, self.name = W, W, name
        self.qualname = "DirectorySnapshot." + name

    def globals(self):
        return self.W.globals()

    def setup(self, ex):
        W = self.W
        self.me = VObj("DirectorySnapshot")
        self.s = ex.fresh_term(W.SnapS, "self_view")
        si = ex.fresh(TDict(W.Path, W.Stat), "_stat_info")
        ip = ex.fresh(TDict(W.Key, W.Path), "_inode_to_path")
        ex.heap[(self.me.id, "_stat_info")] = si
        ex.heap[(self.me.id, "_inode_to_path")] = ip
        p, k = z3.Const("p", W.PathS), z3.Const("k", W.Key.sort)
        s = self.s
        # abstraction function: the view is *defined* by the fields
        ex.assume(W.paths(s) == si.dom)
        ex.assume(z3.ForAll([p], z3.And(W.ino(s, p) == W.st_ino(si.val[p]), W.dev(s, p) == W.st_dev(si.val[p]), W.mt(s, p) == W.st_mtime(si.val[p]),
                                        W.sz(s, p) == W.st_size(si.val[p]), W.isd(s, p) == W.s_isdir(W.st_mode(si.val[p])))))
        ex.assume(z3.ForAll([k], z3.And(W.has(s, k) == ip.dom[k], W.pathof(s, k) == ip.val[k])))
        self.arg = None
        env = {"self": self.me}
        if self.name in ("inode", "isdir", "mtime", "size", "stat_info"):
            self.arg = ex.fresh_term(W.PathS, "path")
            env["path"] = W.Path.wrap(self.arg)
        elif self.name == "path":
            self.arg = ex.fresh_term(W.Key.sort, "uid")
            env["uid"] = W.Key.wrap(self.arg)
        elif self.name == "__sub__":
            self.arg = ex.fresh_term(W.SnapS, "previous")
            env["previous_dirsnap"] = W.Snap.wrap(self.arg)
        return env

    def post(self, ex, result):
        W, s, a = self.W, self.s, self.arg
        n = self.name
        if n == "paths":
            ex.oblige("post[paths=view]", z3.BoolVal(isinstance(result, VSet)) if not isinstance(result, VSet) else result.t == W.paths(s))
        elif n == "inode":
            ex.oblige("post[in-paths]", W.paths(s)[a])
            ex.oblige("post[inode=key]", W.Key.unwrap(result) == W.key(s, a))
        elif n == "path":
            if not isinstance(result, VOpt):
                ex.oblige("post[path=by_id.get]", False)
            else:
                ex.oblige("post[path=by_id.get]", z3.And(result.some == W.has(s, a), z3.Implies(result.some, W.Path.unwrap(result.val) == W.pathof(s, a))))
        elif n in ("isdir", "mtime", "size"):
            f, ty = {"isdir": (W.isd, TBool), "mtime": (W.mt, TReal), "size": (W.sz, TInt)}[n]
            ex.oblige("post[in-paths]", W.paths(s)[a])
            ex.oblige(f"post[{n}=view]", ty.unwrap(result) == f(s, a))
        elif n == "stat_info":
            ex.oblige("post[in-paths]", W.paths(s)[a])
            ex.oblige("post[stat_info=the record the view is defined by]", W.stat_matches(W.Stat.unwrap(result), s, a))
        elif n == "__sub__":
            ok = isinstance(result, VOpaque) and result.kind == "diff" and z3.is_true(z3.simplify(z3.And(result.data[0] == a, result.data[1] == self.me_term)))
            ex.oblige("post[sub=Diff(previous,self)]", bool(ok))

    def post_raise(self, ex, exc, site):
        W = self.W
        if exc.cls == "KeyError" and self.name in ("inode", "isdir", "mtime", "size", "stat_info"):
            ex.oblige("raises[KeyError only when path not in snapshot]", z3.Not(W.paths(self.s)[self.arg]))
        else:
            ex.oblige(f"no-uncaught[{exc.cls}@{site}]", False, kind="exception")


class SubSpec(Accessor):
    def __init__(self, W):
        super().__init__(W, "__sub__")

    def globals(self):
        g = dict(self.W.globals())

        def ctor(ex, args, kw, node):
            a0 = args[0]
            a1 = args[1]
            t0 = a0.t if isinstance(a0, VRef) else None
            return VOpaque("diff", (t0, a1))
        g["DirectorySnapshotDiff"] = ctor
        return g

    def post(self, ex, result):
        ok = isinstance(result, VOpaque) and result.kind == "diff" and result.data[0] is not None and z3.eq(result.data[0], self.arg) and result.data[1] is self.me
        ex.oblige("post[sub=Diff(previous,self)]", bool(ok))


class EmptyAcc(FnSpec):
    relpath, prop = FILE, PROP

    def __init__(self, W, name):
        self.W, self.world, self.name = W, W, name
        self.qualname = "EmptyDirectorySnapshot." + name

    def setup(self, ex):
        if self.name == "path":
            return {"_": self.W.Key.wrap(ex.fresh_term(self.W.Key.sort, "uid"))}
        return {"self": VObj("EmptyDirectorySnapshot")}

    def post(self, ex, result):
        if self.name == "path":
            ex.oblige("post[path-is-None]", result is None)
        else:
            ok = (isinstance(result, VOpaque) and result.kind == "emptyset") or (isinstance(result, frozenset) and not result)
            ex.oblige("post[paths-empty]", bool(ok))


def make_specs():
    W = World()
    out = [DiffInit(W, "wf0"), DiffInit(W, "laws"), DiffInit(W, "dev")] + [Accessor(W, n) for n in ("paths", "inode", "path", "isdir", "mtime", "size", "stat_info")] + [SubSpec(W), EmptyAcc(W, "path"), EmptyAcc(W, "paths")]
    # the laws are proved for well-formed snapshots (every path's identity is in the index): what the constructor establishes
    from specs import c10
    si = c10.SnapInit(c10.WalkWorld())
    si.prop = PROP
    out.append(si)
    return out


def lemmas():
    """Law 6b (swapping the arguments swaps created/deleted and reverses moves) is a consequence of the
    characterisations proved as postconditions (laws 2, 3), with no code involved."""
    W = World()
    a, b = z3.Const("A", W.SnapS), z3.Const("B", W.SnapS)
    p, q = z3.Const("P", W.PathS), z3.Const("Q", W.PathS)
    created = lambda r, s, x: z3.And(W.paths(s)[x], z3.Not(W.has(r, W.key(s, x))))
    deleted = lambda r, s, x: z3.And(W.paths(r)[x], z3.Not(W.has(s, W.key(r, x))))
    moved = lambda r, s, x, y: z3.And(W.paths(r)[x], W.paths(s)[y], W.key(r, x) == W.key(s, y), x != y)
    pc = W.wf(a) + W.wf(b)
    out = [Obligation("lemma[swap:created<->deleted]", "lemma", pc, created(a, b, p) == deleted(b, a, p), "", "swap-symmetry"),
           Obligation("lemma[swap:moves-reversed]", "lemma", pc, moved(a, b, p, q) == moved(b, a, q, p), "", "swap-symmetry"),
           # EmptyDirectorySnapshot (paths = {}, path() = None) is a well-formed view
           Obligation("lemma[empty-snapshot-wf]", "lemma", [W.paths(a) == z3.K(W.PathS, z3.BoolVal(False)), z3.ForAll([z3.Const("k", W.Key.sort)], z3.Not(W.has(a, z3.Const("k", W.Key.sort))))], z3.And(*W.wf(a)), "", "EmptyDirectorySnapshot")]
    return out


EXPECTED_CLAUSES = ["DirectorySnapshot.__init__.post[the root's own inode is in the index", "post[pathset:=>]", "post[pathset:<=]", "post[moved-iff", "post[created-iff", "post[deleted-iff", "post[modified-iff", "post[kind:created]", "post[kind:moved]",
                    "post[self-diff-empty]", "post[ignore_device:files_moved-empty]", "loop5.preserved", "lemma[swap", "post[sub=Diff", "post[inode=key]"]

CANARIES = [
    {"name": "first move loop looks the inode up in ref instead of snapshot", "file": FILE, "fn": "DirectorySnapshotDiff.__init__", "find": "new_path = snapshot.path(inode)", "replace": "new_path = ref.path(inode)"},
    {"name": "_dirs_deleted classified by snapshot.isdir", "file": FILE, "fn": "DirectorySnapshotDiff.__init__", "find": "for path in deleted if ref.isdir(path)", "replace": "for path in deleted if snapshot.isdir(path)"},
    {"name": "__sub__ with swapped arguments", "file": FILE, "fn": "DirectorySnapshot.__sub__", "find": "DirectorySnapshotDiff(previous_dirsnap, self)", "replace": "DirectorySnapshotDiff(self, previous_dirsnap)"},
    {"name": "or -> and in the modified test", "file": FILE, "fn": "DirectorySnapshotDiff.__init__", "find": "ref.mtime(path) != snapshot.mtime(path) or ref.size(path)", "replace": "ref.mtime(path) != snapshot.mtime(path) and ref.size(path)"},
]

TRUSTED = ["E5: builtin set/dict/list/tuple semantics as modelled in pyvc/builtins_model.py (iteration over a set visits each element exactly once, in arbitrary order)",
           "os.stat_result fields and stat.S_ISDIR are uninterpreted pure functions",
           "attribute lookup is resolved statically on the declared classes (no monkey-patching)"]
ASSUMPTIONS = ["wf(snapshot): the inode->path map is exactly the inverse of path->(st_ino,st_dev) ('every inode has one path'), as the property statement requires; the KeyError-freedom part is proved under the weaker wf0",
               "mtime is modelled as a real, size as an unbounded int (Python semantics)", "all snapshot paths are non-empty strings (stat('') fails)"]
UNDECIDED_PARTS = []
