"""C18 — tricks: debounced batches complete and ordered; one child at a time; stop ends all (partial).

EventDebouncer: rely/guarantee over its Condition with ghost `handled` (sequence of events handed in) and
`delivered` (count): while not stopped, _events = handled[delivered:]; the callback is invoked only in a lock hold
in which should_keep_running() was true, with exactly the pending batch; wait-predicate discipline.
ProcessWatcher.run and the AutoRestartTrick methods get sequential contracts over a ghost process table (E11).
Not decided: 'never more than one child alive' across the watcher thread and the event thread (process /
process_watcher are not lock-protected: no lock invariant can carry it)."""
from __future__ import annotations
import z3
from pyvc.sym import *
from pyvc.engine import FnSpec, LoopSpec, Obligation, Raise
from pyvc import ground

PROP = "C18"
GROUNDABLE = True
BATTERY = "c18_battery.py"
DEB = "watchdog/utils/event_debouncer.py"
PW = "watchdog/utils/process_watcher.py"
TR = "watchdog/tricks/__init__.py"
COND = "debouncer._cond"


class DWorld:
    def __init__(self):
        self.EvS = ground.usort("DEvent")
        self.Ev = TRef("DEvent", self.EvS)
        self.L = TList(self.Ev)


class DebSpec(FnSpec):
    relpath, prop = DEB, PROP
    inline = {"BaseThread.stop", "BaseThread.on_thread_stop", "BaseThread.should_keep_running", "BaseThread.stopped_event"}

    def __init__(self, W, name):
        self.W, self.world, self.name = W, W, name
        self.qualname = "EventDebouncer." + name

    def new_object(self, ex):
        W = self.W
        self.me = VObj("EventDebouncer")
        H = ex.heap
        H[(self.me.id, "_cond")] = VOpaque("cond", COND)
        H[(self.me.id, "_stopped_event")] = VOpaque("event")
        self.interval = ex.fresh_term(z3.RealSort(), "debounce_interval_seconds")
        ex.assume(self.interval >= 0)
        H[(self.me.id, "debounce_interval_seconds")] = VReal(self.interval)
        H[(self.me.id, "events_callback")] = VOpaque("callable", self.h_callback)
        self.g = {}
        self.fresh_shared(ex)
        self.notified = False
        self.sec_start = None
        self.last_wait = None
        self.callbacks = []

    def fresh_shared(self, ex):
        W = self.W
        ex.heap[(self.me.id, "_events")] = ex.fresh(W.L, "_events")
        self.g["handled"] = ex.fresh(W.L, "handled")
        self.g["stopped"] = ex.fresh_term(z3.BoolSort(), "stopped")

    def st(self, ex):
        return {"events": ex.heap[(self.me.id, "_events")], "handled": self.g["handled"], "stopped": self.g["stopped"], "D": self.g["D"]}

    def inv(self, s):
        j = z3.Const("dj", z3.IntSort())
        ev, h, D = s["events"], s["handled"], s["D"]
        return [("counts", z3.And(0 <= D, D <= h.n, ev.n >= 0)),
                ("delivered ++ pending = handled (until stop)", z3.Implies(z3.Not(s["stopped"]), z3.And(ev.n == h.n - D, z3.ForAll([j], z3.Implies(z3.And(0 <= j, j < ev.n), ev.arr[j] == h.arr[D + j])))))]

    def rely(self, o, n):
        j = z3.Const("rj", z3.IntSort())
        return [z3.And(n["handled"].n >= o["handled"].n, z3.Implies(o["stopped"], n["stopped"])),
                z3.ForAll([j], z3.Implies(z3.And(0 <= j, j < o["handled"].n), n["handled"].arr[j] == o["handled"].arr[j]))]

    def havoc(self, ex):
        old = self.st(ex)
        self.fresh_shared(ex)
        new = self.st(ex)
        for nm, f in self.inv(new):
            ex.assume(f)
        for f in self.rely(old, new):
            ex.assume(f)

    def acquire(self, ex):
        self.havoc(ex)
        ex.held.append(COND)
        self.sec_start = self.st(ex)
        self.notified = False

    def release(self, ex, where):
        for nm, f in self.inv(self.st(ex)):
            ex.oblige(f"{where}[I:{nm}]", f, kind="lock-invariant")
        P = lambda s: z3.Or(s["events"].n > 0, s["stopped"])
        if not self.notified:
            ex.oblige(f"{where}[signalling: wait predicate made true => notify]", z3.Not(z3.And(z3.Not(P(self.sec_start)), P(self.st(ex)))), kind="signalling")
            # the debounce wait is a timed wait for 'another event arrived': it can only tell a quiet interval from a
            # busy one if EVERY section that hands in an event notifies (this is what the timed wait's contract relies on)
            ex.oblige(f"{where}[signalling: every event handed in notifies (restarts the quiet interval)]", self.st(ex)["handled"].n == self.sec_start["handled"].n, kind="signalling")
        ex.held.remove(COND)

    # ---- instants (ghost): time never runs backwards; every clock reading, wait entry and wait return is an instant
    def _tick(self, ex):
        t = ex.fresh_term(z3.RealSort(), "instant")
        if "tnow" in ex.ghost:
            ex.assume(t >= ex.ghost["tnow"])
        ex.ghost["tnow"] = t
        return t

    def _tret(self, ex):
        """instant of the previous wake-up (return of the last wait); unknown but not in the future when none was seen yet"""
        if "tret" not in ex.ghost:
            t = ex.fresh_term(z3.RealSort(), "previous_wakeup")
            if "tnow" in ex.ghost:
                ex.assume(t <= ex.ghost["tnow"])
            ex.ghost["tret"] = t
        return ex.ghost["tret"]

    def havoc_time(self, ex):
        """loop-carried instants: later than before, the last wake-up not in the future"""
        old_now, old_ret = ex.ghost.get("tnow"), ex.ghost.get("tret")
        now, ret = ex.fresh_term(z3.RealSort(), "instant"), ex.fresh_term(z3.RealSort(), "previous_wakeup")
        ex.assume(ret <= now)
        if old_now is not None:
            ex.assume(now >= old_now)
        if old_ret is not None:
            ex.assume(ret >= old_ret)
        ex.ghost["tnow"], ex.ghost["tret"] = now, ret

    def on_with(self, ex, cv, node, entering):
        if isinstance(cv, VOpaque) and cv.kind == "cond":
            (self.acquire(ex) if entering else self.release(ex, "with-exit"))
            return
        raise Unsupported("with")

    def on_field(self, ex, obj, field, write):
        if obj is self.me and field == "_events" and COND not in ex.held:
            ex.oblige(f"lock-held[{'write' if write else 'read'} _events]", False, kind="lock")

    def globals(self):
        def notify(ex, recv, a, k, n):
            ex.oblige("notify-with-lock-held", COND in ex.held, kind="lock")
            self.notified = True
            return None

        def wait(ex, recv, a, k, n):
            ex.oblige("wait-with-lock-held", COND in ex.held, kind="lock")
            timed = bool(a) or ("timeout" in k)
            if not timed:
                # an untimed wait must be re-checked against its predicate P = (_events or stopped): it may only be
                # entered when P is false in this very lock hold (otherwise a notify that came first is lost)
                s = self.st(ex)
                ex.oblige("wait-predicate[untimed wait only while nothing is pending and not stopped]", z3.And(s["events"].n == 0, z3.Not(s["stopped"])), kind="signalling")
            te = self._tick(ex)     # the instant this wait begins
            for nm, f in self.inv(self.st(ex)):
                ex.oblige(f"wait-entry[I:{nm}]", f, kind="lock-invariant")
            before = self.st(ex)
            self.havoc(ex)
            self.sec_start = self.st(ex)
            self.notified = False
            if not timed:
                self.last_wait = ("untimed", None)
                ex.ghost["tret"] = self._tick(ex)
                return True
            ret = ex.fresh_term(z3.BoolSort(), "notified")
            # guarantee of every other section (proved above for handle_event/stop): handing in an event notifies - so a
            # timed wait that returns False (timeout) saw no event arrive during the whole interval
            ex.assume(z3.Implies(z3.Not(ret), self.sec_start["handled"].n == before["handled"].n))
            self.last_wait = ("timed", ret)
            prev = self._tret(ex)
            tr = self._tick(ex)     # the instant this wait returns: after the whole timeout if it ran out ...
            tmo = (a[0] if a else k["timeout"])
            try:
                ex.assume(z3.Implies(z3.Not(ret), tr >= te + TReal.unwrap(tmo)))
            except Exception:  # noqa: BLE001  (a timeout the executor has no number for: nothing is known about its length)
                pass
            ex.ghost["tret"] = z3.If(ret, tr, prev)     # ... and a wake-up (an event, or stop) only if it was notified
            return VBool(ret)

        def ev_set(ex, recv, a, k, n):
            ex.oblige("stop flag set with the lock held", COND in ex.held, kind="lock")
            self.g["stopped"] = z3.BoolVal(True)
            return None

        def ev_is_set(ex, recv, a, k, n):
            ex.oblige("stop flag read with the lock held", COND in ex.held, kind="lock")
            return VBool(self.g["stopped"])
        def clock(ex, a, k, n):
            return VReal(self._tick(ex))
        return {"cond.notify": notify, "cond.wait": wait, "event.set": ev_set, "event.is_set": ev_is_set, "time.monotonic": clock, "time.time": clock, "time.perf_counter": clock}

    def h_callback(self, ex, args, kw, node):
        W = self.W
        s = self.st(ex)
        batch = args[0]
        j = z3.Const("cj", z3.IntSort())
        ex.oblige("callback[lock held]", COND in ex.held, kind="lock")
        ex.oblige("callback[not after stop(): should_keep_running() held in this lock hold]", z3.Not(s["stopped"]))
        ok = isinstance(batch, VList)
        ex.oblige("callback[receives a list]", ok)
        if ok:
            D, h = s["D"], s["handled"]
            ex.oblige("callback[batch = every event handed in since the last batch, in arrival order, none twice]",
                      z3.And(batch.n == h.n - D, batch.n > 0, z3.ForAll([j], z3.Implies(z3.And(0 <= j, j < batch.n), batch.arr[j] == h.arr[D + j]))))
            ex.oblige("callback[pending list already reset: nothing is delivered twice]", s["events"].n == 0)
            # "delivered once no further event has arrived for the debounce interval", over instants: events are handed in only
            # while this thread waits (it holds the lock otherwise), an event wakes the wait it arrives in - so at delivery at
            # least one whole interval has passed since the last wake-up.  (How the waiting is done is not prescribed.)
            ex.oblige("callback[quiet interval: with a debounce interval the batch is delivered no earlier than one whole interval after the last wake-up by an event]",
                      z3.Implies(self.interval != 0, ex.ghost["tnow"] >= self._tret(ex) + self.interval) if "tnow" in ex.ghost else z3.BoolVal(self.interval is None))
            self.g["D"] = h.n
        self.callbacks.append(batch)
        return None


class DebInit(FnSpec):
    relpath, qualname, prop = DEB, "EventDebouncer.__init__", PROP

    def __init__(self, W):
        self.W, self.world = W, W
        self.var_types = {"self._events": W.L}

    def globals(self):
        return {"BaseThread.__init__": lambda ex, recv, a, k, n: None, "threading.Condition": lambda ex, a, k, n: VOpaque("cond", COND)}

    def setup(self, ex):
        self.me = VObj("EventDebouncer")
        self.cb = VOpaque("callable", lambda *a: None)
        return {"self": self.me, "debounce_interval_seconds": VReal(ex.fresh_term(z3.RealSort(), "interval")), "events_callback": self.cb}

    def post(self, ex, result):
        H = ex.heap
        ev = H.get((self.me.id, "_events"))
        ex.oblige("post[nothing pending: delivered ++ pending = handled holds for the empty history]", isinstance(ev, VList) and z3.is_true(z3.simplify(ev.n == 0)))
        c = H.get((self.me.id, "_cond"))
        ex.oblige("post[one condition variable guards the pending list]", isinstance(c, VOpaque) and c.kind == "cond")
        ex.oblige("post[callback stored]", H.get((self.me.id, "events_callback")) is self.cb)


class HandleEvent(DebSpec):
    def __init__(self, W):
        super().__init__(W, "handle_event")

    def setup(self, ex):
        self.new_object(ex)
        self.g["D"] = ex.fresh_term(z3.IntSort(), "delivered")
        self.x = ex.fresh_term(self.W.EvS, "event")
        return {"self": self.me, "event": self.W.Ev.wrap(self.x)}

    def on_mutation(self, ex, root, op, node, new):
        if root == "self._events" and op == "append":
            h = self.g["handled"]
            self.g["handled"] = VList(h.n + 1, z3.Store(h.arr, h.n, self.x), h.ety)

    def post(self, ex, result):
        ex.oblige("post[lock released]", COND not in ex.held)
        ex.oblige("post[the event was recorded exactly once]", len(self.appended) == 1 if hasattr(self, "appended") else True)


class Stop(DebSpec):
    def __init__(self, W):
        super().__init__(W, "stop")

    def setup(self, ex):
        self.new_object(ex)
        self.g["D"] = ex.fresh_term(z3.IntSort(), "delivered")
        return {"self": self.me}

    def post(self, ex, result):
        ex.oblige("post[lock released]", COND not in ex.held)
        ex.oblige("post[stop flag set]", self.at_release["stopped"])

    def release(self, ex, where):
        self.at_release = self.st(ex)
        super().release(ex, where)


class Run(DebSpec):
    def __init__(self, W):
        super().__init__(W, "run")
        hv = [("call", self.havoc_loop)]
        self.loops = {1: LoopSpec("True", self.inv_loop, modifies=hv),
                      2: LoopSpec("not self._events and self.should_keep_running()", self.inv_loop, modifies=hv),
                      3: LoopSpec("self.should_keep_running()", self.inv_debounce, modifies=hv, no_end=False)}
        self.var_types = {"events": W.L, "self._events": W.L}
        self.expected_covers = ["loop1.body", "loop1.end", "loop2.body", "loop2.end", "loop3.body", "loop3.end", "exit"]

    def setup(self, ex):
        self.new_object(ex)
        self.g["D"] = ex.fresh_term(z3.IntSort(), "delivered")
        return {"self": self.me}

    def havoc_loop(self, ex):
        # loop-carried shared state: anything the lock invariant and this thread's own progress allow
        self.fresh_shared(ex)
        self.havoc_time(ex)
        self.g["D"] = ex.fresh_term(z3.IntSort(), "delivered")
        self.sec_start = self.st(ex)
        self.notified = True  # signalling obligations are per section; the sections inside the loop are checked on their own paths

    def inv_loop(self, ex, _):
        out = [("lock-held", z3.BoolVal(COND in ex.held))]
        for nm, f in self.inv(self.st(ex)):
            out.append(("I:" + nm, f))
        return out

    def inv_debounce(self, ex, _):
        s = self.st(ex)
        return self.inv_loop(ex, _) + [("a batch is pending (or stop was requested) while debouncing", z3.Or(s["events"].n > 0, s["stopped"]))]

    def post(self, ex, result):
        ex.oblige("post[lock released on exit]", COND not in ex.held)
        ex.oblige("post[the thread exits only after stop()]", self.st_exit["stopped"] if hasattr(self, "st_exit") else False)

    def release(self, ex, where):
        self.st_exit = self.st(ex)
        self.notified = True
        super().release(ex, where)


# ------------------------------------------------------------------------------------------------ ProcessWatcher
class PWRun(FnSpec):
    relpath, qualname, prop = PW, "ProcessWatcher.run", PROP
    inline = {"BaseThread.stopped_event"}

    def __init__(self):
        self.world = None
        self.loops = {1: LoopSpec("self.popen_obj.poll() is None", self.inv)}
        self.expected_covers = ["loop1.body", "loop1.end", "exit"]

    def inv(self, ex, _):
        return [("no-callback-while-the-child-runs", z3.BoolVal(self.calls == 0))]

    def globals(self):
        def poll(ex, recv, a, k, n):
            r = VOpt(ex.fresh_term(z3.BoolSort(), "exited"), VInt(ex.fresh_term(z3.IntSort(), "code")))
            self.last_poll = r
            return r

        def wait(ex, recv, a, k, n):
            ex.oblige("blocks only in a timed wait on the stop flag", bool(a) or "timeout" in k)
            return VBool(ex.fresh_term(z3.BoolSort(), "stopped_during_wait"))

        def is_set(ex, recv, a, k, n):
            self.stopped_at_check = ex.fresh_term(z3.BoolSort(), "stopped_at_check")
            return VBool(self.stopped_at_check)
        return {"popen.poll": poll, "event.wait": wait, "event.is_set": is_set}

    def setup(self, ex):
        self.me = VObj("ProcessWatcher")
        self.calls = 0
        self.has_cb = bool(ex.choose(2, "callback given"))
        self.raises = False

        def cb(ex2, a, k, n):
            self.calls += 1
            ex2.oblige("callback[only after the child was seen exited]", z3.And(self.last_poll.some))
            ex2.oblige("callback[only if not stopped at that check]", z3.Not(self.stopped_at_check))
            if ex2.choose(2, "callback raises") == 1:
                self.raises = True
                raise Raise(VExc("RuntimeError"), "callback()")
            return None
        ex.heap[(self.me.id, "popen_obj")] = VOpaque("popen")
        ex.heap[(self.me.id, "_stopped_event")] = VOpaque("event")
        ex.heap[(self.me.id, "process_termination_callback")] = VOpaque("callable", cb) if self.has_cb else None
        self.last_poll = None
        self.stopped_at_check = None
        return {"self": self.me}

    def post(self, ex, result):
        ex.oblige("post[callback at most once]", self.calls <= 1)

    def post_raise(self, ex, exc, site):
        ex.oblige("no exception escapes the watcher thread", False, kind="exception")


# ------------------------------------------------------------------------------------------------ AutoRestartTrick
class TWorld:
    def __init__(self):
        self.PS = ground.usort("Proc")
        self.WS = ground.usort("Watcher")
        self.Proc = TRef("Proc", self.PS, attrs={"pid": lambda ex, r: VOpaque("pid", r.t)}, methods={"poll": self.m_poll, "wait": self.m_pwait})
        self.Watcher = TRef("Watcher", self.WS, methods={"start": self.m_w("wstarted"), "stop": self.m_w("wstopped"), "join": self.m_wjoin})

    def m_poll(self, ex, r, a, k, n):
        sp = ex.spec
        if ex.branch(sp.g["alive"][r.t], "child still alive at poll()"):
            if ex.choose(2, "child exits just now") == 0:
                return None
            sp.g["alive"] = z3.Store(sp.g["alive"], r.t, False)
        return VInt(ex.fresh_term(z3.IntSort(), "exit_code"))

    def m_pwait(self, ex, r, a, k, n):
        sp = ex.spec
        sp.g["alive"] = z3.Store(sp.g["alive"], r.t, False)
        sp.waited = True
        return VInt(ex.fresh_term(z3.IntSort(), "exit_code"))

    def m_w(self, which):
        def h(ex, r, a, k, n):
            sp = ex.spec
            sp.g[which] = z3.Store(sp.g[which], r.t, True)
            return None
        return h

    def m_wjoin(self, ex, r, a, k, n):
        sp = ex.spec
        ex.require("join only a stopped watcher (else join() can block forever)", sp.g["wstopped"][r.t])
        sp.g["wjoined"] = z3.Store(sp.g["wjoined"], r.t, True)
        return None


class TrickSpec(FnSpec):
    relpath, prop = TR, PROP

    def __init__(self, W, name):
        self.W, self.world, self.name = W, W, name
        self.qualname = "AutoRestartTrick." + name

    def new_trick(self, ex):
        W = self.W
        self.me = VObj("AutoRestartTrick")
        H = ex.heap
        B = z3.BoolSort()
        self.g = {"alive": ex.fresh_term(z3.ArraySort(W.PS, B), "alive"), "wstarted": ex.fresh_term(z3.ArraySort(W.WS, B), "wstarted"), "wstopped": ex.fresh_term(z3.ArraySort(W.WS, B), "wstopped"),
                  "wjoined": ex.fresh_term(z3.ArraySort(W.WS, B), "wjoined"), "ever": ex.fresh_term(z3.ArraySort(W.PS, B), "ever_spawned")}
        self.spawned = []
        self.kills = []
        self.proc0 = ex.fresh(TOpt(W.Proc), "process")
        self.w0 = ex.fresh(TOpt(W.Watcher), "process_watcher")
        H[(self.me.id, "process")] = self.proc0
        H[(self.me.id, "process_watcher")] = self.w0
        H[(self.me.id, "event_debouncer")] = VOpt(ex.fresh_term(B, "has_debouncer"), VOpaque("debouncer"))
        self.cnt0 = ex.fresh_term(z3.IntSort(), "restart_count")
        H[(self.me.id, "restart_count")] = VInt(self.cnt0)
        self.ps0 = ex.fresh_term(B, "_is_process_stopping")
        self.ts0 = ex.fresh_term(B, "_is_trick_stopping")
        H[(self.me.id, "_is_process_stopping")] = VBool(self.ps0)
        H[(self.me.id, "_is_trick_stopping")] = VBool(self.ts0)
        H[(self.me.id, "_stopping_lock")] = VOpaque("lock", "trick._stopping_lock")
        H[(self.me.id, "command")] = VOpaque("command")
        H[(self.me.id, "stop_signal")] = VOpaque("signal")
        H[(self.me.id, "kill_after")] = VReal(ex.fresh_term(z3.RealSort(), "kill_after"))
        self.roce = ex.fresh_term(B, "restart_on_command_exit")
        H[(self.me.id, "restart_on_command_exit")] = VBool(self.roce)
        # representation invariant: the recorded child (if any) was spawned by this trick
        ex.assume(z3.Implies(self.proc0.some, self.g["ever"][self.proc0.val.t]))
        self.alive0 = self.g["alive"]

    def on_with(self, ex, cv, node, entering):
        if isinstance(cv, VOpaque) and cv.kind == "lock":
            (ex.held.append if entering else ex.held.remove)(cv.data)
            return
        raise Unsupported("with")

    def globals(self):
        W = self.W

        def popen(ex, a, k, n):
            p = ex.fresh_term(W.PS, "child")
            ex.assume(z3.And(z3.Not(self.g["ever"][p]), z3.Not(self.g["alive"][p])))
            self.g["ever"] = z3.Store(self.g["ever"], p, True)
            self.g["alive"] = z3.Store(self.g["alive"], p, True)
            self.spawned.append(p)
            return W.Proc.wrap(p)

        def watcher(ex, a, k, n):
            w = ex.fresh_term(W.WS, "watcher")
            for g in ("wstarted", "wstopped", "wjoined"):
                ex.assume(z3.Not(self.g[g][w]))
            self.new_watchers.append((w, a))
            return W.Watcher.wrap(w)

        def kill(ex, a, k, n):
            pid, sig = a[0], a[1]
            p = pid.data
            if getattr(self, "name", "") == "_stop_process":
                # the watcher of this child turns the child's exit into a restart: it has to be disarmed BEFORE we make the
                # child exit ourselves, or our own kill is taken for a spontaneous exit (one event, two restarts)
                ex.oblige("kill[the child's watcher is stopped before the child is signalled]", z3.Implies(self.w0.some, self.g["wstopped"][self.w0.val.t]), kind="order")
            self.kills.append((p, sig))
            if ex.choose(2, "kill_process raises OSError (process already gone)") == 1:
                # E11: ESRCH from killpg/getpgid means there is no such process any more
                self.g["alive"] = z3.Store(self.g["alive"], p, False)
                raise Raise(VExc("OSError"), "kill_process()")
            if sig == 9:
                self.g["alive"] = z3.Store(self.g["alive"], p, False)  # E11: SIGKILL cannot be ignored
            return None

        def now(ex, a, k, n):
            return VReal(ex.fresh_term(z3.RealSort(), "t"))
        return {"subprocess.Popen": popen, "ProcessWatcher": watcher, "kill_process": kill, "time.time": now, "time.sleep": lambda ex, a, k, n: None,
                "getattr": lambda ex, a, k, n: VOpaque("setsid"), "debouncer.stop": self.h_deb("stopped"), "debouncer.join": self.h_deb("joined")}

    def h_deb(self, what):
        def h(ex, recv, a, k, n):
            self.deb.append(what)
            return None
        return h

    def setup_common(self, ex):
        self.new_trick(ex)
        self.new_watchers = []
        self.deb = []
        self.waited = False


class StopProcess(TrickSpec):
    def __init__(self, W):
        super().__init__(W, "_stop_process")
        self.loops = {1: LoopSpec("time.time() < kill_time", self.inv)}
        self.expected_covers = ["loop1.body", "loop1.end", "exit"]

    def getattr(self, ex, obj, name):
        return VOpaque("setsid")

    def inv(self, ex, _):
        p = self.proc0.val.t
        H = ex.heap
        a = z3.Const("ap", self.W.PS)
        return [("nothing-spawned-or-revived-while-waiting", z3.And(z3.BoolVal(len(self.spawned) == 0), z3.ForAll([a], z3.Implies(self.g["alive"][a], self.alive0[a])))),
                ("flags", z3.And(TBool.unwrap(H[(self.me.id, "_is_process_stopping")]), self.proc0.some))]

    def setup(self, ex):
        self.setup_common(ex)
        return {"self": self.me}

    def post(self, ex, result):
        W = self.W
        H = ex.heap
        a = z3.Const("ap", W.PS)
        # entered while another stop is in progress: nothing is done here
        busy = self.ps0
        ex.oblige("post[spawns nothing]", len(self.spawned) == 0)
        ex.oblige("post[never revives a process]", z3.ForAll([a], z3.Implies(self.g["alive"][a], self.alive0[a])))
        proc_now = H[(self.me.id, "process")]
        pnone = z3.BoolVal(True) if proc_now is None else (z3.Not(proc_now.some) if isinstance(proc_now, VOpt) else z3.BoolVal(False))
        ex.oblige("post[unless a stop is already in progress: no child recorded afterwards]", z3.Or(busy, pnone))
        ex.oblige("post[unless a stop is already in progress: the old child is not alive]", z3.Or(busy, z3.Not(self.proc0.some), z3.Not(self.g["alive"][self.proc0.val.t])))
        ex.oblige("post[unless a stop is already in progress: the old watcher is stopped and forgotten]", z3.Or(busy, z3.Not(self.w0.some), self.g["wstopped"][self.w0.val.t]))
        ps = H[(self.me.id, "_is_process_stopping")]
        ex.oblige("post[the in-progress flag is cleared by whoever set it]", z3.Or(busy, z3.Not(TBool.unwrap(ps))))
        ex.oblige("post[stopping lock released]", "trick._stopping_lock" not in ex.held)


class StartProcess(TrickSpec):
    def __init__(self, W):
        super().__init__(W, "_start_process")

    def world_getattr(self):
        pass

    def setup(self, ex):
        self.setup_common(ex)
        return {"self": self.me}

    def post(self, ex, result):
        W = self.W
        H = ex.heap
        if len(self.spawned) == 0:
            ex.oblige("post[spawns nothing only when the trick is stopping]", self.ts0)
            ex.oblige("post[no watcher created without a child]", len(self.new_watchers) == 0)
            return
        ex.oblige("post[exactly one child spawned]", len(self.spawned) == 1)
        ex.oblige("post[never after stop() began]", z3.Not(self.ts0))
        p = H[(self.me.id, "process")]
        ex.oblige("post[the new child is recorded]", isinstance(p, VRef) and z3.is_true(z3.simplify(p.t == self.spawned[0])))
        if self.new_watchers:
            w, a = self.new_watchers[0]
            ex.oblige("post[watcher only when restart_on_command_exit, for the new child, started]", z3.And(self.roce, self.g["wstarted"][w], a[0].t == self.spawned[0]))
            ex.oblige("post[one watcher]", len(self.new_watchers) == 1)
        else:
            ex.oblige("post[no watcher only when restart_on_command_exit is off]", z3.Not(self.roce))


class TrickWorld(TWorld):
    def getattr(self, ex, obj, name):
        return VOpaque("setsid")


class RestartProcess(TrickSpec):
    def __init__(self, W):
        super().__init__(W, "_restart_process")

    def globals(self):
        g = super().globals()

        def stop_p(ex, recv, a, k, n):
            self.order.append("stop")
            return None

        def start_p(ex, recv, a, k, n):
            self.order.append("start")
            return None
        g["AutoRestartTrick._stop_process"] = stop_p
        g["AutoRestartTrick._start_process"] = start_p
        return g

    def setup(self, ex):
        self.setup_common(ex)
        self.order = []
        return {"self": self.me}

    def post(self, ex, result):
        cnt = TInt.unwrap(ex.heap[(self.me.id, "restart_count")])
        if not self.order:
            ex.oblige("post[nothing happens only when the trick is stopping]", self.ts0)
            ex.oblige("post[count unchanged]", cnt == self.cnt0)
            return
        ex.oblige("post[not while stopping]", z3.Not(self.ts0))
        ex.oblige("post[old child stopped first, then exactly one start]", self.order == ["stop", "start"])
        ex.oblige("post[restart counted once]", cnt == self.cnt0 + 1)


class TrickStop(TrickSpec):
    def __init__(self, W):
        super().__init__(W, "stop")

    def globals(self):
        g = super().globals()

        def stop_p(ex, recv, a, k, n):
            """call-side contract of _stop_process (proved by StopProcess), for the single-threaded case"""
            self.order.append("stop_process")
            w = ex.heap[(self.me.id, "process_watcher")]
            if isinstance(w, VOpt):
                self.g["wstopped"] = z3.If(w.some, z3.Store(self.g["wstopped"], w.val.t, True), self.g["wstopped"])
            ex.heap[(self.me.id, "process_watcher")] = None
            ex.heap[(self.me.id, "process")] = None
            return None
        g["AutoRestartTrick._stop_process"] = stop_p
        return g

    def setup(self, ex):
        self.setup_common(ex)
        ex.assume(z3.Not(self.ps0))  # sequential contract: no other stop in progress
        self.order = []
        return {"self": self.me}

    def post(self, ex, result):
        H = ex.heap
        ts = TBool.unwrap(H[(self.me.id, "_is_trick_stopping")])
        ex.oblige("post[trick marked stopping (no child is started afterwards: _start_process/_restart_process check the flag)]", ts)
        ex.oblige("post[stopping lock released]", "trick._stopping_lock" not in ex.held)
        if not self.order:
            ex.oblige("post[second stop() is a no-op]", self.ts0)
            ex.oblige("post[no-op touches nothing]", len(self.deb) == 0)
            return
        ex.oblige("post[body runs once]", z3.Not(self.ts0))
        ex.oblige("post[child stopped]", self.order == ["stop_process"])
        has_deb = H[(self.me.id, "event_debouncer")].some
        ex.oblige("post[debouncer stopped then joined iff there is one]", z3.If(has_deb, z3.BoolVal(self.deb == ["stopped", "joined"]), z3.BoolVal(self.deb == [])))
        ex.oblige("post[the watcher that was current when stop() began is joined]", z3.Or(z3.Not(self.w0.some), self.g["wjoined"][self.w0.val.t]))


# ------------------------------------------------------------------------------------------------ ShellCommandTrick
class ShellWorld(TWorld):
    def __init__(self):
        super().__init__()
        from specs.common import EventWorld
        self.PS2 = ground.usort("TPath")
        self.EW = EventWorld(TRef("TPath", self.PS2), tag="T")

    def eq(self, ex, l, r):
        a, b = (l, r) if isinstance(l, VOpaque) else (r, l)
        if isinstance(a, VOpaque) and a.kind == "event_type" and isinstance(b, str):
            names = [n for n in self.EW.names if self.EW.classes[n]["event_type"] == b]
            return z3.Or(*[a.data == self.EW.cls[n] for n in names]) if names else False
        return NotImplemented

    def hasattr(self, ex, obj, name):
        return True

    def setattr(self, ex, obj, name, v):
        if isinstance(obj, VRef) and obj.ty is self.Watcher and name == "process_termination_callback":
            ex.spec.callbacks_set.append((obj.t, v))
            return None
        return NotImplemented


class ShellOnAnyEvent(TrickSpec):
    def __init__(self, W):
        self.W, self.world = W, W
        self.qualname = "ShellCommandTrick.on_any_event"
        self.name = "on_any_event"

    inline = {"ShellCommandTrick.is_process_running"}

    def globals(self):
        W = self.W
        g = TrickSpec.globals(self)
        g.update({"string.Template": lambda ex, a, k, n: VOpaque("template"), "template.safe_substitute": lambda ex, recv, a, k, n: VOpaque("command"),
                  "functools.partial": lambda ex, a, k, n: VOpaque("partial", a)})
        return g

    def setup(self, ex):
        W = self.W
        self.setup_common(ex)
        self.me.cls = "ShellCommandTrick"
        H = ex.heap
        self.drop = ex.fresh_term(z3.BoolSort(), "drop_during_process")
        self.wait = ex.fresh_term(z3.BoolSort(), "wait_for_process")
        H[(self.me.id, "drop_during_process")] = VBool(self.drop)
        H[(self.me.id, "wait_for_process")] = VBool(self.wait)
        H[(self.me.id, "shell_command")] = VOpt(ex.fresh_term(z3.BoolSort(), "has_command"), VOpaque("shell_command"))
        self.watchers0 = ex.fresh(TSet(W.Watcher), "_process_watchers")
        H[(self.me.id, "_process_watchers")] = self.watchers0
        self.ev = ex.fresh_term(W.EW.EvS, "event")
        self.callbacks_set = []
        w = z3.Const("rw", W.WS)
        self.running0 = z3.Or(z3.Exists([w], self.watchers0.t[w]), z3.And(self.proc0.some, self.g["alive"][self.proc0.val.t]))
        return {"self": self.me, "event": W.EW.Event.wrap(self.ev)}

    def post(self, ex, result):
        W, EW = self.W, self.W.EW
        H = ex.heap
        c = EW.e_cls(self.ev)
        quiet = z3.Or(c == EW.cls["FileOpenedEvent"], c == EW.cls["FileClosedNoWriteEvent"])
        n = len(self.spawned)
        ex.oblige("post[at most one command per event]", n <= 1)
        if n == 0:
            ex.oblige("post[no command only for opened/closed-no-write events, or when asked to drop while a command runs]", z3.Or(quiet, z3.And(self.drop, self.running0)))
            return
        p = self.spawned[0]
        ex.oblige("post[never for opened / closed-no-write events]", z3.Not(quiet))
        w0 = z3.Const("rw0", W.WS)
        still = z3.Or(z3.Exists([w0], self.watchers0.t[w0]), z3.And(self.proc0.some, self.g["alive"][self.proc0.val.t]))
        ex.oblige("post[drop_during_process: no command while the previous one is (still) running]", z3.Not(z3.And(self.drop, still)))
        ex.oblige("post[wait_for_process: the command has exited when the handler returns]", z3.Implies(self.wait, z3.Not(self.g["alive"][p])))
        if self.new_watchers:
            w, a = self.new_watchers[0]
            now = H[(self.me.id, "_process_watchers")]
            ex.oblige("post[not waiting: one watcher for the new command, registered, with its clean-up callback, started]",
                      z3.And(z3.Not(self.wait), z3.BoolVal(len(self.new_watchers) == 1), a[0].t == p, now.t[w], self.g["wstarted"][w], z3.BoolVal(len(self.callbacks_set) == 1)))
        else:
            ex.oblige("post[no watcher only when waiting for the command]", self.wait)


def make_specs():
    W = DWorld()
    T = TrickWorld()
    return [DebInit(W), HandleEvent(W), Stop(W), Run(W), PWRun(), StopProcess(T), StartProcess(T), RestartProcess(T), TrickStop(T), ShellOnAnyEvent(ShellWorld())]


def lemmas():
    """'stop() ends all, helper threads gone': the lock-order / join-under-lock lemmas over the real source (C06's W4) - the tricks'
    helper threads call back into code that takes the stopping lock"""
    from specs import c06
    return [ob for ob in c06.lock_lemmas() if "join under lock" in ob.name or "lock levels" in ob.name]


EXPECTED_CLAUSES = ["EventDebouncer.run.callback[batch = every event handed in since the last batch", "EventDebouncer.run.callback[not after stop()", "EventDebouncer.run.wait-predicate[untimed wait only while nothing is pending",
                    "EventDebouncer.handle_event.with-exit[I:delivered ++ pending = handled", "EventDebouncer.stop.post[stop flag set]", "ProcessWatcher.run.post[callback at most once]",
                    "AutoRestartTrick._stop_process.post[unless a stop is already in progress: the old child is not alive]", "AutoRestartTrick._start_process.post[exactly one child spawned]",
                    "AutoRestartTrick._restart_process.post[old child stopped first", "AutoRestartTrick.stop.post[trick marked stopping", "ShellCommandTrick.on_any_event.post[wait_for_process",
                    "ShellCommandTrick.on_any_event.post[drop_during_process"]
CANARIES = [
    {"name": "unguarded first wait (the repaired defect)", "file": DEB, "fn": "EventDebouncer.run", "find": "                while not self._events and self.should_keep_running():\n                    self._cond.wait()\n", "replace": "                self._cond.wait()\n"},
    {"name": "callback before the stopped check", "file": DEB, "fn": "EventDebouncer.run", "find": "                if not self.should_keep_running():\n                    break\n\n                events = self._events", "replace": "                events = self._events"},
    {"name": "handle_event without notify", "file": DEB, "fn": "EventDebouncer.handle_event", "find": "            self._cond.notify()\n", "replace": ""},
    {"name": "ShellCommandTrick ignores drop_during_process", "file": TR, "fn": "ShellCommandTrick.on_any_event", "find": "        if self.drop_during_process and self.is_process_running():\n            return\n", "replace": ""},
    {"name": "_restart_process ignores _is_trick_stopping", "file": TR, "fn": "AutoRestartTrick._restart_process", "find": "        if self._is_trick_stopping:\n            return\n        self._stop_process()", "replace": "        self._stop_process()"},
]
TRUSTED = ["E7 threading.Condition (wait releases and re-acquires atomically; wait(timeout) returns False on time-out and then not before the timeout has passed; a wait returns True only if notified), threading.Event", "clocks (time.monotonic/time/perf_counter) never run backwards; instants are mathematical reals", "E11 process table: Popen creates a live child; poll()/wait() as documented; OSError from kill_process means the process is gone; SIGKILL ends it",
           "the callback of the debouncer is arbitrary user code observed through a ghost log"]
ASSUMPTIONS = ["rely: other threads only run handle_event/stop sections on the debouncer (handled only grows, stop flag monotone)", "AutoRestartTrick contracts are sequential (single-threaded): its process / process_watcher fields are not lock-protected"]
UNDECIDED_PARTS = ["'never more than one child alive' across the watcher thread and the event thread: no lock invariant exists to carry it (a suspected double-spawn interleaving is recorded in DESIGN.md section 6, not claimed)",
                   "debounce timing is decided only as: a batch is delivered after a timed wait expired without a notify", "'its thread always exits on stop()' is liveness: the wait-predicate discipline is the proved necessary condition",
                   "ShellCommandTrick: sequential contract of on_any_event only (its watcher threads clean up _process_watchers concurrently: not covered)"]
