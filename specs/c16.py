"""C16 — the event queue drops only true consecutive duplicates and never anything else.

SkipRepeatsQueue (bricks.py) under E6 (queue.Queue: put/get are critical sections of the queue's mutex that call
self._put / self._get).  Ghost: enq (sequence of accepted items), deq (number taken out); the underlying deque is
enq[deq:].  Invariant under the mutex:  _last_item is None  or  (_last_item is enq[-1] and deq < len(enq)).
put()'s two unlocked reads of _last_item are one-instruction atomic sections (shared state havocked under the
invariant and the rely before each)."""
from __future__ import annotations
import ast
import z3
from pyvc.sym import *
from pyvc.engine import FnSpec, LoopSpec, Obligation, Raise
from pyvc import ground, source

PROP = "C16"
GROUNDABLE = True
BATTERY = "c16_battery.py"
FILE = "watchdog/utils/bricks.py"
MUTEX = "Queue.mutex"


class World:
    def __init__(self):
        self.IS = ground.usort("Item")
        self.Item = TRef("Item", self.IS)
        self.eqv = z3.Function("py_eq", self.IS, self.IS, z3.BoolSort())
        self.OptItem = TOpt(self.Item)

    def eq_axioms(self):
        a, b, c = z3.Consts("qa qb qc", self.IS)
        return [z3.ForAll([a], self.eqv(a, a)), z3.ForAll([a, b], self.eqv(a, b) == self.eqv(b, a)), z3.ForAll([a, b, c], z3.Implies(z3.And(self.eqv(a, b), self.eqv(b, c)), self.eqv(a, c)))]

    # engine hooks: == is the items' __eq__, `is` is identity
    def eq(self, ex, l, r):
        if isinstance(l, VRef) and isinstance(r, VRef) and l.ty is self.Item and r.ty is self.Item:
            return self.eqv(l.t, r.t)
        return NotImplemented

    def is_(self, ex, l, r):
        if isinstance(l, VRef) and isinstance(r, VRef):
            return l.t == r.t
        if isinstance(l, VOpt) or isinstance(r, VOpt):
            o, x = (l, r) if isinstance(l, VOpt) else (r, l)
            if x is None:
                return z3.Not(o.some)
            if isinstance(x, VRef):
                return z3.And(o.some, o.val.t == x.t)
            if isinstance(x, VOpt):
                return z3.Or(z3.And(z3.Not(o.some), z3.Not(x.some)), z3.And(o.some, x.some, o.val.t == x.val.t))
        return NotImplemented


class QSpec(FnSpec):
    relpath, prop = FILE, PROP

    def __init__(self, W, name):
        self.W, self.world, self.name = W, W, name
        self.qualname = "SkipRepeatsQueue." + name

    def new_object(self, ex):
        self.me = VObj("SkipRepeatsQueue")
        self.g = {}
        self.fresh_shared(ex)
        for f in self.W.eq_axioms():
            ex.assume(f)

    def fresh_shared(self, ex):
        W = self.W
        self.g = {"enq": ex.fresh_term(z3.ArraySort(z3.IntSort(), W.IS), "enq"), "n": ex.fresh_term(z3.IntSort(), "n_enq"), "deq": ex.fresh_term(z3.IntSort(), "deq")}
        ex.heap[(self.me.id, "_last_item")] = ex.fresh(W.OptItem, "_last_item")

    def st(self, ex):
        d = dict(self.g)
        d["last"] = ex.heap[(self.me.id, "_last_item")]
        return d

    def inv(self, s):
        last = s["last"]
        if last is None:
            some, val = z3.BoolVal(False), None
        elif isinstance(last, VRef):
            some, val = z3.BoolVal(True), last.t
        else:
            some, val = last.some, last.val.t
        body = z3.BoolVal(True) if val is None else z3.And(s["n"] > 0, val == s["enq"][s["n"] - 1], s["deq"] < s["n"])
        return [("counts", z3.And(0 <= s["deq"], s["deq"] <= s["n"])), ("last-item-is-the-last-enqueued-and-still-waiting", z3.Or(z3.Not(some), body))]

    def rely(self, o, n):
        i = z3.Const("ri", z3.IntSort())
        return [z3.And(n["n"] >= o["n"], n["deq"] >= o["deq"]), z3.ForAll([i], z3.Implies(z3.And(0 <= i, i < o["n"]), n["enq"][i] == o["enq"][i]))]

    def havoc(self, ex):
        old = self.st(ex)
        self.fresh_shared(ex)
        new = self.st(ex)
        for nm, f in self.inv(new):
            ex.assume(f)
        for f in self.rely(old, new):
            ex.assume(f)

    def globals(self):
        def base_init(ex, recv, a, k, n):
            self.g["n"], self.g["deq"] = z3.IntVal(0), z3.IntVal(0)
            return None

        def base_put(ex, recv, a, k, n):
            self.g["enq"] = z3.Store(self.g["enq"], self.g["n"], self.W.Item.unwrap(a[0]))
            self.g["n"] = self.g["n"] + 1
            return None

        def base_get(ex, recv, a, k, n):
            ex.require("Queue._get only when not empty (E6)", self.g["deq"] < self.g["n"])
            x = self.g["enq"][self.g["deq"]]
            self.g["deq"] = self.g["deq"] + 1
            return self.W.Item.wrap(x)

        def locked_put(ex, recv, a, k, n):
            self.super_put_calls.append(tuple(a))
            return None
        return {"super._init": base_init, "super._put": base_put, "super._get": base_get, "super.put": locked_put}


class InitS(QSpec):
    def __init__(self, W):
        super().__init__(W, "_init")

    def setup(self, ex):
        self.new_object(ex)
        return {"self": self.me, "maxsize": 0}

    def post(self, ex, result):
        for nm, f in self.inv(self.st(ex)):
            ex.oblige(f"post[I:{nm}]", f)
        ex.oblige("post[nothing enqueued, no last item]", z3.And(self.g["n"] == 0, _some(self.st(ex)["last"]) == False))


class PutLocked(QSpec):
    """_put runs inside Queue.put's critical section"""

    def __init__(self, W):
        super().__init__(W, "_put")

    def setup(self, ex):
        self.new_object(ex)
        self.pre = self.st(ex)
        for nm, f in self.inv(self.pre):
            ex.assume(f)
        self.x = ex.fresh_term(self.W.IS, "item")
        return {"self": self.me, "item": self.W.Item.wrap(self.x)}

    def post(self, ex, result):
        o, n = self.pre, self.st(ex)
        for nm, f in self.inv(n):
            ex.oblige(f"post[I:{nm}]", f)
        ex.oblige("post[item appended, nothing else]", z3.And(n["n"] == o["n"] + 1, n["enq"] == z3.Store(o["enq"], o["n"], self.x), n["deq"] == o["deq"]))
        for i, f in enumerate(self.rely(o, n)):
            ex.oblige(f"post[guarantee within rely #{i}]", f, kind="guarantee")


class GetLocked(QSpec):
    def __init__(self, W):
        super().__init__(W, "_get")

    def setup(self, ex):
        self.new_object(ex)
        self.pre = self.st(ex)
        for nm, f in self.inv(self.pre):
            ex.assume(f)
        ex.assume(self.pre["deq"] < self.pre["n"])  # E6: get() waits until _qsize() > 0
        return {"self": self.me}

    def post(self, ex, result):
        o, n = self.pre, self.st(ex)
        x = self.W.Item.unwrap(result)
        for nm, f in self.inv(n):
            ex.oblige(f"post[I:{nm}]", f)
        ex.oblige("post[FIFO: returns the oldest item not yet taken]", z3.And(x == o["enq"][o["deq"]], n["deq"] == o["deq"] + 1, n["n"] == o["n"], n["enq"] == o["enq"]))
        was_last = z3.And(o["last"].some, o["last"].val.t == x)
        ex.oblige("post[last item forgotten iff that very item was taken out]", z3.If(was_last, z3.Not(_some(n["last"])), z3.And(_some(n["last"]) == o["last"].some, z3.Implies(o["last"].some, _val(n["last"], o["last"].val.t) == o["last"].val.t))))
        for i, f in enumerate(self.rely(o, n)):
            ex.oblige(f"post[guarantee within rely #{i}]", f, kind="guarantee")


def _some(v):
    if v is None:
        return z3.BoolVal(False)
    if isinstance(v, VRef):
        return z3.BoolVal(True)
    return v.some


def _val(v, dummy=None):
    if v is None:
        return dummy
    return v.t if isinstance(v, VRef) else v.val.t


class PutOuter(QSpec):
    def __init__(self, W):
        super().__init__(W, "put")

    def setup(self, ex):
        self.new_object(ex)
        for nm, f in self.inv(self.st(ex)):
            ex.assume(f)
        self.x = ex.fresh_term(self.W.IS, "item")
        self.super_put_calls = []
        self.reads = []
        self.blk = VBool(ex.fresh_term(z3.BoolSort(), "block"))
        self.to = VOpaque("timeout")
        return {"self": self.me, "item": self.W.Item.wrap(self.x), "block": self.blk, "timeout": self.to}

    def on_field(self, ex, obj, field, write):
        if obj is self.me and field == "_last_item":
            if write:
                ex.oblige("put() does not write _last_item outside the mutex", False, kind="lock")
                return
            # an unlocked read is an atomic section of its own: other threads ran before it
            self.havoc(ex)
            self.reads.append(self.st(ex))

    def post(self, ex, result):
        W = self.W
        ex.oblige("post[at most one enqueue]", len(self.super_put_calls) <= 1)
        if self.super_put_calls:
            a = self.super_put_calls[0]
            ok = len(a) == 3 and isinstance(a[0], VRef) and z3.is_true(z3.simplify(a[0].t == self.x)) and a[1] is self.blk and a[2] is self.to
            ex.oblige("post[the item itself is handed to Queue.put with the caller's block/timeout]", bool(ok))
            return
        # dropped: justified at the instant of the last read of _last_item
        if not self.reads:
            ex.oblige("post[a drop is decided by reading _last_item]", False)
            return
        s = self.reads[-1]
        ex.oblige("post[dropped only if equal to the item enqueued immediately before it, which is still waiting]",
                  z3.And(s["n"] > 0, W.eqv(self.x, s["enq"][s["n"] - 1]), s["deq"] < s["n"]))


def make_specs():
    W = World()
    return [InitS(W), PutLocked(W), GetLocked(W), PutOuter(W)]


def lemmas():
    """Structural part of the equality law of events (E10): FileSystemEvent is a dataclass with generated __eq__ over
    all five fields, and no subclass overrides equality or hashing.  The law itself is the [bounded] battery."""
    m = source.module("watchdog/events.py")
    out = []
    base = m.classes.get("FileSystemEvent")
    deco_ok = False
    if base is not None:
        for d in base.decorator_list:
            if isinstance(d, ast.Call) and getattr(d.func, "id", "") == "dataclass":
                kws = {k.arg: getattr(k.value, "value", None) for k in d.keywords}
                deco_ok = kws.get("eq", True) is True
            elif isinstance(d, ast.Name) and d.id == "dataclass":
                deco_ok = True
    out.append(Obligation("lemma[FileSystemEvent is a dataclass with generated __eq__]", "lemma", [], z3.BoolVal(bool(deco_ok)), "", "event equality"))
    fields, nocompare = [], []
    if base is not None:
        for s in base.body:
            if isinstance(s, ast.AnnAssign) and isinstance(s.target, ast.Name):
                fields.append(s.target.id)
                if isinstance(s.value, ast.Call) and getattr(s.value.func, "id", "") == "field":
                    for k in s.value.keywords:
                        if k.arg == "compare" and getattr(k.value, "value", True) is False:
                            nocompare.append(s.target.id)
    out.append(Obligation("lemma[all five fields take part in the comparison]", "lemma", [], z3.BoolVal(sorted(fields) == sorted(["src_path", "dest_path", "event_type", "is_directory", "is_synthetic"]) and not nocompare), "", "event equality"))
    from specs.common import event_classes
    bad = []
    for name in event_classes():
        node = m.classes[name]
        for s in node.body:
            if isinstance(s, ast.FunctionDef) and s.name in ("__eq__", "__ne__", "__hash__"):
                bad.append(f"{name}.{s.name}")
        if name != "FileSystemEvent" and node.decorator_list:
            bad.append(f"{name} is re-decorated")
    out.append(Obligation("lemma[no event class overrides equality or hashing]", "lemma", [], z3.BoolVal(not bad), "", "event equality"))
    # the observer's queue IS the verified SkipRepeatsQueue: EventQueue adds no method of its own (its items are (event, watch)
    # tuples, compared as tuples: the same event for two watches is two different items)
    api = source.module("watchdog/observers/api.py")
    eq = api.classes.get("EventQueue")
    QUEUE_METHODS = {"put", "get", "put_nowait", "get_nowait", "_put", "_get", "_init", "_qsize", "task_done", "join", "qsize", "empty", "full"}
    own = [st.name for st in (eq.body if eq is not None else []) if isinstance(st, (ast.FunctionDef, ast.AsyncFunctionDef)) and st.name in QUEUE_METHODS]
    bases = [getattr(b, "id", None) or getattr(getattr(b, "value", None), "id", None) for b in (eq.bases if eq is not None else [])]
    out.append(Obligation("lemma[EventQueue is SkipRepeatsQueue: it overrides none of the queue operations]", "lemma", [], z3.BoolVal(eq is not None and not own and bases == ["SkipRepeatsQueue"]), ",".join(own), "EventQueue"))
    # the rely of the proof ("other threads only run _put/_get sections"), discharged as two frame lemmas over the source:
    # (a) inside the class the last-item bookkeeping is written only by the three methods queue.Queue calls under its mutex
    br = source.module(FILE)
    srq = br.classes.get("SkipRepeatsQueue")
    writers = set()
    for st in (srq.body if srq is not None else []):
        if isinstance(st, (ast.FunctionDef, ast.AsyncFunctionDef)):
            for n in ast.walk(st):
                tgts = n.targets if isinstance(n, ast.Assign) else [n.target] if isinstance(n, (ast.AugAssign, ast.AnnAssign)) else n.targets if isinstance(n, ast.Delete) else []
                for t in tgts:
                    for x in ast.walk(t):
                        if isinstance(x, ast.Attribute) and x.attr == "_last_item":
                            writers.add(st.name)
    # a private helper that does the write is fine as long as every call of it sits in one of the three (or in another such
    # helper): the write still happens inside the queue's critical section
    allowed = {"_init", "_put", "_get"}
    methods = {st.name: st for st in (srq.body if srq is not None else []) if isinstance(st, (ast.FunctionDef, ast.AsyncFunctionDef))}
    callers = {}
    for mname, mnode in methods.items():
        for n in ast.walk(mnode):
            if isinstance(n, ast.Call) and isinstance(n.func, ast.Attribute) and isinstance(n.func.value, ast.Name) and n.func.value.id == "self" and n.func.attr in methods:
                callers.setdefault(n.func.attr, set()).add(mname)
    changed = True
    while changed:
        changed = False
        for w in sorted(writers - allowed):
            if w.startswith("_") and callers.get(w) and callers[w] <= allowed:
                allowed.add(w)
                changed = True
    out.append(Obligation("lemma[frame: the last-item bookkeeping is written only inside the queue's own critical sections (_init, _put, _get, or a private helper called from nowhere else) - a write anywhere else is not atomic with the enqueue / dequeue it belongs to]",
                          "lemma", [], z3.BoolVal(srq is not None and writers <= allowed), ",".join(sorted(writers - allowed)), "SkipRepeatsQueue"))
    # (b) nothing outside bricks.py reaches into a queue's internals (its deque, mutex, conditions, task counter, last item):
    # items enter and leave the observer's queue only through put / get, so the bookkeeping always matches the deque
    import os
    INTERNALS = {"queue", "mutex", "not_empty", "not_full", "all_tasks_done", "unfinished_tasks", "_last_item"}   # names queue.Queue / SkipRepeatsQueue use for their state
    reach = []
    root = os.path.join(source.SRC, "watchdog")
    for d, _ds, fs in os.walk(root):
        for f in sorted(fs):
            rel = os.path.relpath(os.path.join(d, f), source.SRC)
            if not f.endswith(".py") or rel == FILE:
                continue
            for n in ast.walk(source.module(rel).tree):
                if isinstance(n, ast.Attribute) and n.attr in INTERNALS and not (isinstance(n.value, ast.Name) and n.value.id in ("queue",)):
                    reach.append(f"{rel}:{n.lineno}:.{n.attr}")
    out.append(Obligation("lemma[frame: no module outside bricks.py touches a queue's internals (deque, mutex, conditions, task counter, last item): entries are added and removed only by put / get]",
                          "lemma", [], z3.BoolVal(not reach), "; ".join(reach[:5]), "EventQueue"))
    return out


EXPECTED_CLAUSES = ["put.post[dropped only if equal to the item enqueued immediately before it", "put.post[the item itself is handed to Queue.put", "_put.post[I:last-item-is-the-last-enqueued-and-still-waiting]",
                    "_get.post[FIFO", "_get.post[last item forgotten iff", "_init.post[nothing enqueued", "lemma[all five fields", "lemma[EventQueue is SkipRepeatsQueue", "lemma[frame: the last-item bookkeeping is written only", "lemma[frame: no module outside bricks.py"]
CANARIES = [
    {"name": "_get never clears _last_item", "file": FILE, "fn": "SkipRepeatsQueue._get", "find": "        if item is self._last_item:\n            self._last_item = None\n", "replace": ""},
    {"name": "_put does not record _last_item", "file": FILE, "fn": "SkipRepeatsQueue._put", "find": "        self._last_item = item\n", "replace": "        pass\n"},
    {"name": "drop when item != last", "file": FILE, "fn": "SkipRepeatsQueue.put", "find": "if self._last_item is None or item != self._last_item:", "replace": "if self._last_item is None or item == self._last_item:"},
]
TRUSTED = ["E6 queue.Queue (maxsize 0): put() is one critical section of the mutex calling self._put(item); get() is one critical section that waits for _qsize() > 0 and calls self._get(); _init is called once by the constructor",
           "CPython: one attribute load/store is atomic", "E10 dataclass-generated __eq__/__hash__ compare (class, fields): structural lemmas + [bounded] all-pairs battery",
           "items' == is an equivalence relation"]
ASSUMPTIONS = ["rely: other threads only run _put/_get sections (enqueue history only grows, dequeue count only grows) - for the code of the package this is the content of the two frame lemmas (no other writer of _last_item inside the class; no module outside bricks.py touches a queue's internals); application code reaching into the queue is outside the library"]
UNDECIDED_PARTS = ["the equality law of event objects is decided structurally and by the bounded all-pairs battery, not by the SMT proof"]
