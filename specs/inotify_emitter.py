"""Contract of InotifyEmitter.queue_events (inotify.py), shared by C03 (translation table), C19 (path types /
exact names) and C07 (root deletion).  The native record handed over by read_event() is symbolic: kind (one event
bit, E8), IN_ISDIR, path; the booleans recursive / full_events / bytes-or-str watch path / 'is the root' are
case-split exhaustively, so the result holds for every record, not for samples."""
from __future__ import annotations
import z3
from pyvc.sym import *
from pyvc.engine import FnSpec, LoopSpec, Obligation, Raise
from pyvc import ground
from specs.common import EventWorld
from specs import inotify_table as T

FILE = "watchdog/observers/inotify.py"
FILE_C = "watchdog/observers/inotify_c.py"


class PathTy(TRef):
    def __init__(self, W):
        super().__init__("IPath", W.PS, truthy=lambda t: W.nonempty(t))
        self.W = W

    def unwrap(self, v):
        if isinstance(v, str) and v == "":
            return self.W.empty_str
        if isinstance(v, bytes) and v == b"":
            return self.W.empty_bytes
        return super().unwrap(v)


class World:
    def __init__(self):
        self.PS = ground.usort("IPath")
        P, B = self.PS, z3.BoolSort()
        self.is_bytes = z3.Function("is_bytes", P, B)
        self.nonempty = z3.Function("ipath_nonempty", P, B)
        self.fsdecode = z3.Function("os_fsdecode", P, P)
        self.fsencode = z3.Function("os_fsencode", P, P)
        self.dirname = z3.Function("os_path_dirname", P, P)
        self.empty_str = z3.Const("empty_str", P)
        self.empty_bytes = z3.Const("empty_bytes", P)
        self.Path = PathTy(self)
        self.EW = EventWorld(self.Path, tag="I")
        self.LEv = TList(self.EW.Event)

    def axioms(self):
        """E2/E3: fsencode(fsdecode(b)) = b for bytes; fsdecode/fsencode are the identity on their own type;
        dirname keeps the type and commutes with decoding ('/' is ASCII in every filesystem encoding)"""
        p = z3.Const("ap", self.PS)
        return [
            z3.ForAll([p], z3.Implies(self.is_bytes(p), z3.And(z3.Not(self.is_bytes(self.fsdecode(p))), self.fsencode(self.fsdecode(p)) == p, self.fsencode(p) == p))),
            z3.ForAll([p], z3.Implies(z3.Not(self.is_bytes(p)), z3.And(self.fsdecode(p) == p, self.is_bytes(self.fsencode(p)), self.fsdecode(self.fsencode(p)) == p))),
            z3.ForAll([p], self.is_bytes(self.dirname(p)) == self.is_bytes(p)),
            z3.ForAll([p], z3.Implies(self.is_bytes(p), self.fsencode(self.dirname(self.fsdecode(p))) == self.dirname(p))),
            z3.ForAll([p], self.nonempty(self.fsdecode(p)) == self.nonempty(p)),
            z3.And(z3.Not(self.nonempty(self.empty_str)), z3.Not(self.is_bytes(self.empty_str)), z3.Not(self.nonempty(self.empty_bytes)), self.is_bytes(self.empty_bytes)),
        ]

    # engine hooks
    def isinstance(self, ex, v, cls):
        name = cls.dotted if isinstance(cls, VGlobal) else getattr(cls, "name", None)
        if name in ("tuple", "builtins.tuple"):
            return isinstance(v, (VTuple, tuple))
        if name in ("bytes", "builtins.bytes"):
            if isinstance(v, VRef) and v.ty is self.Path:
                return VBool(self.is_bytes(v.t))
            return isinstance(v, bytes)
        raise Unsupported(f"isinstance(_, {name})")


KIND_BITS = T.KINDS


class QueueEvents(FnSpec):
    relpath, qualname = FILE, "InotifyEmitter.queue_events"
    inline = {"EventEmitter.watch", "ObservedWatch.path", "ObservedWatch.is_recursive", "InotifyEmitter._decode_path", "InotifyEvent.*", "*"}

    def __init__(self, W, prop, want=("table", "types", "root")):
        self.W, self.world, self.prop, self.want = W, W, prop, want
        self.loops = {1: LoopSpec("generate_sub_moved_events(src_path, dest_path)", self.inv_sub, modifies=[("ghost", "out")], every_element=True),
                      2: LoopSpec("generate_sub_created_events(src_path)", self.inv_sub, modifies=[("ghost", "out")], every_element=True)}
        self.expected_covers = ["loop1.body", "loop1.end", "loop2.body", "loop2.end", "exit"]

    inline = {"EventEmitter.watch", "ObservedWatch.path", "ObservedWatch.is_recursive", "InotifyEmitter._decode_path"} | {
        "InotifyEvent." + p for p in ("src_path", "is_moved_to", "is_moved_from", "is_directory", "is_attrib", "is_modify", "is_delete", "is_create", "is_delete_self", "is_move_self", "is_open",
                                       "is_close_write", "is_close_nowrite", "is_ignored", "is_access", "mask", "cookie", "name", "wd")}

    def globals(self):
        W = self.W
        g = dict(W.EW.constructors(""))
        g["os.path.dirname"] = lambda ex, a, k, n: W.Path.wrap(W.dirname(W.Path.unwrap(a[0])))
        g["os.fsdecode"] = lambda ex, a, k, n: W.Path.wrap(W.fsdecode(W.Path.unwrap(a[0])))
        g["buffer.read_event"] = self.h_read
        g["generate_sub_moved_events"] = lambda ex, a, k, n: self.h_sub(ex, "moved", a)
        g["generate_sub_created_events"] = lambda ex, a, k, n: self.h_sub(ex, "created", a)
        g["InotifyEmitter.queue_event"] = self.h_queue
        g["InotifyEmitter.stop"] = self.h_stop
        g["event_queue.put"] = self.h_direct_put
        g["event_queue.put_nowait"] = self.h_direct_put
        return g

    def on_with(self, ex, cv, node, entering):
        if isinstance(cv, VOpaque) and cv.kind == "lock":
            (ex.held.append if entering else ex.held.remove)(cv.data)
            return
        raise Unsupported("with")

    def on_field(self, ex, obj, field, write):
        # frame: the translation does not depend on the filter - filtering happens only in queue_event, which is why the
        # filtered stream is the isinstance-slice of the unfiltered one (C11)
        if obj is self.me and field == "_event_filter":
            ex.oblige("frame[queue_events does not consult the event filter: every event goes through queue_event, which alone filters]", False, kind="frame")

    def h_queue(self, ex, recv, args, kw, node):
        ex.oblige("queue_event-with-emitter-lock-held", "emitter._lock" in ex.held, kind="lock")
        ex.emit("out", args[0])
        return None

    def h_direct_put(self, ex, recv, args, kw, node):
        ex.oblige("frame[events reach the observer's queue only through queue_event (which alone applies the filter)]", False, kind="frame")
        return None

    def h_stop(self, ex, recv, args, kw, node):
        ex.ghost["stopped"] = True
        return None

    def mk_native(self, ex, kindbit, isdir, tag):
        W = self.W
        o = VObj("InotifyEvent")
        p = ex.fresh_term(W.PS, "native_path" + tag)
        ex.assume(z3.And(W.is_bytes(p), W.nonempty(p)))
        mask = T.ABI[kindbit] | (T.ABI["IN_ISDIR"] if isdir else 0)
        H = ex.heap
        H[(o.id, "_mask")] = VBits(z3.BitVecVal(mask, 32))
        H[(o.id, "_src_path")] = W.Path.wrap(p)
        H[(o.id, "_cookie")] = VInt(ex.fresh_term(z3.IntSort(), "cookie"))
        H[(o.id, "_wd")] = VInt(ex.fresh_term(z3.IntSort(), "wd"))
        H[(o.id, "_name")] = VOpaque("name")
        return o, p

    def h_read(self, ex, recv, args, kw, node):
        self.read_calls += 1
        c = ex.choose(3, "read_event: None / single / pair")
        self.shape = ("none", "single", "pair")[c]
        if c == 0:
            return None
        self.isdir = bool(ex.choose(2, "IN_ISDIR"))
        if c == 1:
            k = ex.choose(len(KIND_BITS), "event bit")
            self.kind = KIND_BITS[k]
            ev, self.p = self.mk_native(ex, self.kind, self.isdir, "")
            return ev
        f, self.p = self.mk_native(ex, "IN_MOVED_FROM", self.isdir, "_from")
        t, self.p2 = self.mk_native(ex, "IN_MOVED_TO", self.isdir, "_to")
        return VTuple([f, t])

    def h_sub(self, ex, which, args):
        W = self.W
        subs = ex.fresh(W.LEv, "sub_" + which)
        j = z3.Const("sj", z3.IntSort())
        EW = W.EW
        top = W.Path.unwrap(args[-1])
        okcls = (lambda c: z3.Or(c == EW.cls["DirMovedEvent"], c == EW.cls["FileMovedEvent"])) if which == "moved" else (lambda c: z3.Or(c == EW.cls["DirCreatedEvent"], c == EW.cls["FileCreatedEvent"]))
        tb = W.is_bytes(top)
        # C14's contract: every element is synthetic, of the right class, and its paths have the type of the walked
        # directory (E1: names have the type of `top`); a source path is '' or of the type of the old directory path
        src_ok = lambda e: (W.is_bytes(EW.e_src(e)) == tb) if which == "created" else z3.Or(z3.Not(W.nonempty(EW.e_src(e))), W.is_bytes(EW.e_src(e)) == W.is_bytes(W.Path.unwrap(args[0])))
        dst_ok = lambda e: z3.Not(W.nonempty(EW.e_dest(e))) if which == "created" else z3.And(W.nonempty(EW.e_dest(e)), W.is_bytes(EW.e_dest(e)) == tb)
        ex.assume(subs.n >= 0)
        self.sub_fact = z3.ForAll([j], z3.Implies(z3.And(j >= 0, j < subs.n), z3.And(okcls(EW.e_cls(subs.arr[j])), EW.e_syn(subs.arr[j]), src_ok(subs.arr[j]), dst_ok(subs.arr[j]))))
        ex.assume(self.sub_fact)
        self.sub = (which, [W.Path.unwrap(a) for a in args], subs)
        self.n0 = None
        return subs

    def inv_sub(self, ex, k):
        out = ex.ghost["out"]
        which, a, subs = self.sub
        if self.n0 is None:
            self.n0, self.out0 = out.n, out
        j = z3.Const("qj", z3.IntSort())
        return [("sub-events-forwarded-in-order", z3.And(out.n == self.n0 + k, z3.ForAll([j], z3.Implies(z3.And(j >= 0, j < k), out.arr[self.n0 + j] == subs.arr[j])))),
                ("earlier-events-untouched", z3.ForAll([j], z3.Implies(z3.And(j >= 0, j < self.n0), out.arr[j] == self.out0.arr[j])))]

    def setup(self, ex):
        W = self.W
        self.me = VObj("InotifyEmitter")
        self.full = bool(ex.choose(2, "full_events"))
        self.recursive = bool(ex.choose(2, "recursive"))
        self.wp = ex.fresh_term(W.PS, "watch_path")
        ex.assume(W.nonempty(self.wp))
        watch = VObj("ObservedWatch")
        H = ex.heap
        H[(watch.id, "_path")] = W.Path.wrap(self.wp)
        H[(watch.id, "_is_recursive")] = self.recursive
        H[(self.me.id, "_watch")] = watch
        H[(self.me.id, "_lock")] = VOpaque("lock", "emitter._lock")
        H[(self.me.id, "_event_filter")] = ex.fresh(TOpt(TSet(W.EW.EvTT.tys[0])), "event_filter")
        H[(self.me.id, "_event_queue")] = VOpaque("event_queue")
        inactive = ex.choose(2, "emitter inactive (_inotify is None)") == 1
        H[(self.me.id, "_inotify")] = None if inactive else VOpaque("buffer")
        self.inactive = inactive
        ex.ghost["out"] = W.LEv.empty()
        ex.ghost["stopped"] = False
        self.read_calls = 0
        self.shape = None
        self.sub = None
        self.kind = None
        return {"self": self.me, "timeout": VOpaque("timeout"), "full_events": self.full}

    # decoded form of a native path for this watch
    def dec(self, p):
        W = self.W
        return z3.If(W.is_bytes(self.wp), p, W.fsdecode(p))

    def post(self, ex, result):
        W, EW = self.W, self.W.EW
        out = ex.ghost["out"]
        for f in W.axioms():  # E2/E3 (kept out of the path condition during execution: cheaper feasibility checks)
            ex.assume(f)
        if self.inactive:
            ex.oblige("post[inactive emitter: nothing read, nothing queued]", z3.And(out.n == 0, z3.BoolVal(self.read_calls == 0)))
            return
        ex.oblige("post[exactly one read_event() per call]", self.read_calls == 1)
        if self.shape == "none":
            ex.oblige("post[no record: nothing queued]", out.n == 0)
            return
        # ---- the rows of the statement's table for this record
        if self.shape == "pair":
            rows = T.pair(self.isdir, self.recursive)
            vals = {"src": self.dec(self.p), "dst": self.dec(self.p2), "src_parent": W.dirname(self.dec(self.p)), "dst_parent": W.dirname(self.dec(self.p2)), "": W.empty_str}
            is_root = None
        else:
            # 'is the root': the decoded path equals the watch path (both outcomes are explored)
            rootc = self.dec(self.p) == self.wp
            is_root = ex.branch(rootc, "record is about the watched root")
            rows = T.single(self.kind, self.isdir, self.full, self.recursive, is_root)
            vals = {"path": self.dec(self.p), "parent": W.dirname(self.dec(self.p)), "": W.empty_str}
        fixed = [r for r in rows if len(r) == 3]
        marks = [r[0] for r in rows if len(r) == 1]
        tag = f"{self.shape}:{self.kind or 'IN_MOVED_FROM+IN_MOVED_TO'}{'|ISDIR' if self.isdir else ''}{',full' if self.full else ''}{',recursive' if self.recursive else ''}{',root' if is_root else ''}"
        subn = self.sub[2].n if (self.sub is not None and ("SUB_MOVED" in marks or "SUB_CREATED" in marks)) else z3.IntVal(0)
        if "nonrec" in self.want and not self.recursive:
            ex.oblige(f"post[nonrec:{tag}: under a non-recursive watch nothing is synthesised for entries below the root's direct children]", self.sub is None)
        if "frame" in self.want:
            ex.oblige(f"post[frame:{tag}: the number of events handed to queue_event is fixed by the record alone]", out.n == len(fixed) + subn)
        if "table" in self.want:
            ex.oblige(f"post[table:{tag}:count]", out.n == len(fixed) + subn)
            for i, (cls, s, d) in enumerate(fixed):
                ex.oblige(f"post[table:{tag}:event{i}={cls}({s or chr(39)*2},{d or chr(39)*2})]", out.arr[i] == EW.mk(EW.cls[cls], vals[s], vals[d], z3.BoolVal(False)))
            if "SUB_MOVED" in marks or "SUB_CREATED" in marks:
                which = "moved" if "SUB_MOVED" in marks else "created"
                ok = self.sub is not None and self.sub[0] == which
                ex.oblige(f"post[table:{tag}:synthetic sub-events generated for the directory]", bool(ok))
                if ok:
                    want_args = [vals["src"], vals["dst"]] if which == "moved" else [vals["path"]]
                    ex.oblige(f"post[table:{tag}:sub-event generator called with the event's decoded path(s)]", z3.And(*[a == b for a, b in zip(self.sub[1], want_args)]))
                    J = ex.fresh_term(z3.IntSort(), "J")
                    ex.oblige(f"post[table:{tag}:every sub-event queued once, in order, after the direct events]", z3.Implies(z3.And(J >= 0, J < subn), out.arr[len(fixed) + J] == self.sub[2].arr[J]))
            else:
                ex.oblige(f"post[table:{tag}:no synthetic sub-events]", self.sub is None)
            ex.oblige(f"post[table:{tag}:emitter stops iff the root was deleted]", ex.ghost["stopped"] == ("STOP" in marks))
        if "root" in self.want and self.shape == "single" and self.kind == "IN_DELETE_SELF":
            if is_root:
                ex.oblige("post[root DELETE_SELF: exactly one DirDeletedEvent(root) and the emitter stops]", z3.And(out.n == 1, out.arr[0] == EW.mk(EW.cls["DirDeletedEvent"], self.wp, W.empty_str, z3.BoolVal(False)), z3.BoolVal(bool(ex.ghost["stopped"]))))
            else:
                ex.oblige("post[DELETE_SELF of a sub-directory: nothing, no stop]", z3.And(out.n == 0, z3.BoolVal(not ex.ghost["stopped"])))
        if "types" in self.want:
            wb = W.is_bytes(self.wp)
            typed = lambda e: z3.And(z3.Implies(W.nonempty(EW.e_src(e)), W.is_bytes(EW.e_src(e)) == wb), z3.Implies(W.nonempty(EW.e_dest(e)), W.is_bytes(EW.e_dest(e)) == wb))
            ex.oblige(f"post[types:{tag}:count]", out.n == len(fixed) + subn)
            for i in range(len(fixed)):
                ex.oblige(f"post[types:{tag}:event{i}: every non-empty path has the type of the watched path]", typed(out.arr[i]))
            if self.sub is not None:
                J2 = ex.fresh_term(z3.IntSort(), "J2")
                rng = z3.And(J2 >= 0, J2 < subn)
                ex.lemma(f"types:{tag}:the J-th queued sub-event is the generator's J-th element", z3.Implies(rng, out.arr[len(fixed) + J2] == self.sub[2].arr[J2]))
                natives = [W.is_bytes(self.p), W.nonempty(self.p)] + ([W.is_bytes(self.p2), W.nonempty(self.p2)] if self.shape == "pair" else [])
                argeqs = [a == b for a, b in zip(self.sub[1], ([vals["src"], vals["dst"]] if self.sub[0] == "moved" else [vals["path"]]))]
                for q, f in enumerate(argeqs):
                    ex.lemma(f"types:{tag}:sub-event generator argument {q} is the event's decoded path", f)
                ex.lemma(f"types:{tag}:generator elements have the type of the watched path", z3.Implies(rng, typed(self.sub[2].arr[J2])), using=[self.sub_fact] + W.axioms() + natives + argeqs)
                ex.oblige(f"post[types:{tag}:synthetic sub-events: every non-empty path has the type of the watched path]", z3.Implies(rng, typed(out.arr[len(fixed) + J2])))
            # exact names: converting an event path back with the filesystem encoding gives the native bytes
            for i, (cls, s, d) in enumerate(fixed):
                for fld, key in (("src", s), ("dest", d)):
                    if key in ("", ):
                        continue
                    native = {"path": self.p, "parent": W.dirname(self.p), "src": self.p, "dst": getattr(self, "p2", None), "src_parent": W.dirname(self.p), "dst_parent": W.dirname(getattr(self, "p2", self.p))}[key]
                    got = (EW.e_src if fld == "src" else EW.e_dest)(out.arr[i])
                    ex.oblige(f"post[types:{tag}:fsencode(event{i}.{fld}_path) is the native {key}]", W.fsencode(got) == native)


class DecodePath(FnSpec):
    relpath, qualname = FILE, "InotifyEmitter._decode_path"
    inline = {"EventEmitter.watch", "ObservedWatch.path"}

    def __init__(self, W, prop):
        self.W, self.world, self.prop = W, W, prop

    def globals(self):
        W = self.W
        return {"os.fsdecode": lambda ex, a, k, n: W.Path.wrap(W.fsdecode(W.Path.unwrap(a[0])))}

    def setup(self, ex):
        W = self.W
        for f in W.axioms():
            ex.assume(f)
        self.me = VObj("InotifyEmitter")
        watch = VObj("ObservedWatch")
        self.wp, self.p = ex.fresh_term(W.PS, "watch_path"), ex.fresh_term(W.PS, "native")
        ex.assume(W.is_bytes(self.p))
        ex.heap[(watch.id, "_path")] = W.Path.wrap(self.wp)
        ex.heap[(self.me.id, "_watch")] = watch
        return {"self": self.me, "path": W.Path.wrap(self.p)}

    def post(self, ex, result):
        W = self.W
        r = W.Path.unwrap(result)
        ex.oblige("post[result has the type of the watched path]", W.is_bytes(r) == W.is_bytes(self.wp))
        ex.oblige("post[fsencode(result) is the native path]", W.fsencode(r) == self.p)


class OnThreadStart(FnSpec):
    relpath, qualname = FILE, "InotifyEmitter.on_thread_start"
    inline = {"EventEmitter.watch", "ObservedWatch.path", "ObservedWatch.is_recursive", "ObservedWatch.follow_symlink"}

    def __init__(self, W, prop):
        self.W, self.world, self.prop = W, W, prop

    def globals(self):
        W = self.W

        def buf(ex, args, kw, node):
            self.buf_args = (args, kw)
            return VOpaque("buffer")
        def pathfn(name):
            # os.path.normpath/abspath/realpath: some path -> path function, NOT the identity (a watch path may be spelled
            # with a trailing or doubled separator, '.', '..' or a symlink)
            f = z3.Function("os_path_" + name, W.PS, W.PS)
            return lambda ex, a, k, n: W.Path.wrap(f(W.Path.unwrap(a[0])))
        return {"os.fsencode": lambda ex, a, k, n: W.Path.wrap(W.fsencode(W.Path.unwrap(a[0]))), "InotifyBuffer": buf,
                "os.path.normpath": pathfn("normpath"), "os.path.abspath": pathfn("abspath"), "os.path.realpath": pathfn("realpath"),
                "InotifyEmitter.get_event_mask_from_filter": lambda ex, recv, a, k, n: VOpaque("mask")}

    def setup(self, ex):
        W = self.W
        for f in W.axioms():
            ex.assume(f)
        self.me = VObj("InotifyEmitter")
        watch = VObj("ObservedWatch")
        self.wp = ex.fresh_term(W.PS, "watch_path")
        self.rec = ex.fresh_term(z3.BoolSort(), "recursive")
        ex.heap[(watch.id, "_path")] = W.Path.wrap(self.wp)
        ex.heap[(watch.id, "_is_recursive")] = VBool(self.rec)
        ex.heap[(watch.id, "_follow_symlink")] = VBool(ex.fresh_term(z3.BoolSort(), "follow"))
        ex.heap[(self.me.id, "_watch")] = watch
        self.buf_args = None
        return {"self": self.me}

    def post(self, ex, result):
        W = self.W
        ok = self.buf_args is not None and len(self.buf_args[0]) == 1
        ex.oblige("post[a buffer is created]", bool(ok))
        if ok:
            p = W.Path.unwrap(self.buf_args[0][0])
            ex.oblige("post[the kernel side always works on bytes: fsencode(watch path)]", z3.And(W.is_bytes(p), p == W.fsencode(self.wp)))
            ex.oblige("post[recursive flag passed on]", TBool.unwrap(self.buf_args[1].get("recursive")) == self.rec)
        b = ex.heap.get((self.me.id, "_inotify"))
        ex.oblige("post[buffer stored]", isinstance(b, VOpaque) and b.kind == "buffer")
