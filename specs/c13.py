"""C13 — the registry stays consistent over any call sequence; failed calls leave no trace.

Every public mutator of BaseObserver gets {Inv ∧ pre} body {Inv ∧ post over the whole view} for normal AND
exceptional exits; induction over call sequences is then the soundness of Hoare logic.  ObservedWatch identity
is proved on __init__/key/__eq__/__ne__/__hash__."""
from __future__ import annotations
import z3
from pyvc.sym import *
from pyvc.engine import FnSpec, LoopSpec, Obligation, Raise
from pyvc import ground
from specs.obs_world import ObsWorld, ObsSpec, API

PROP = "C13"
GROUNDABLE = True
BATTERY = "c13_battery.py"


class Schedule(ObsSpec):
    qualname, prop = "BaseObserver.schedule", PROP

    def __init__(self, W):
        self.W, self.world = W, W

    def setup(self, ex):
        W = self.W
        self.start_state(ex)
        self.h = ex.fresh_term(W.HS, "handler")
        self.new_watch = ex.fresh_term(W.WS, "watch")
        return {"self": self.me, "event_handler": W.Handler.wrap(self.h), "path": VOpaque("path"), "recursive": VBool(ex.fresh_term(z3.BoolSort(), "recursive")),
                "event_filter": VOpaque("event_filter"), "follow_symlink": VBool(ex.fresh_term(z3.BoolSort(), "follow"))}

    def post(self, ex, result):
        W, w, h = self.W, self.new_watch, self.h
        pre, now = self.pre, W.view(ex, self.me)
        ex.oblige("post[returns the watch]", isinstance(result, VRef) and z3.is_true(z3.simplify(result.t == w)))
        had = pre["E"].dom[w]
        ex.oblige("post[equal watches share one emitter]", z3.Implies(had, W.same_E(pre["E"], now["E"])))
        e = now["E"].val[w]
        ex.oblige("post[new watch gets a fresh emitter for that watch]", z3.Implies(z3.Not(had), z3.And(now["E"].dom[w], W.watch_of(e) == w, ex.ghost["created"].t[e], z3.Not(pre["emitters"][e]))))
        ex.oblige("post[other watches keep their emitter]", W.same_E(pre["E"], now["E"], except_w=w))
        ex.oblige("post[handler added to this watch]", W.hview(now["H"], w) == z3.Store(W.hview(pre["H"], w), h, True))
        ex.oblige("post[handlers of other watches untouched]", W.same_H(pre["H"], now["H"], except_w=w))
        ex.oblige("post[watches' = watches + {w}]", now["watches"] == z3.Store(pre["watches"], w, True))
        ex.oblige("post[emitters' = emitters + new]", z3.If(had, W.same_set(pre["emitters"], now["emitters"], W.ES), now["emitters"] == z3.Store(pre["emitters"], e, True)))
        ex.oblige("post[new emitter started iff the observer is alive]", z3.Implies(z3.Not(had), ex.ghost["started"].t[e] == ex.ghost["alive"].t))
        self.oblige_inv(ex)

    def post_raise(self, ex, exc, site):
        if exc.cls != "OSError" and not (exc.cls == "RuntimeError" and site == "emitter.start()"):
            ex.oblige(f"no-uncaught[{exc.cls}@{site}]", False, kind="exception")
            return
        # a schedule() that raised has no effect at all
        self.oblige_unchanged(ex, "raises")
        self.oblige_inv(ex, "raises")


class Unschedule(ObsSpec):
    qualname, prop = "BaseObserver.unschedule", PROP
    implicit = {"KeyError": "fork"}

    def __init__(self, W):
        self.W, self.world = W, W

    def setup(self, ex):
        W = self.W
        self.start_state(ex)
        self.w = ex.fresh_term(W.WS, "watch")
        return {"self": self.me, "watch": W.Watch.wrap(self.w)}

    def post(self, ex, result):
        W, w = self.W, self.w
        pre, now = self.pre, W.view(ex, self.me)
        e = pre["E"].val[w]
        ex.oblige("post[was scheduled]", pre["E"].dom[w])
        ex.oblige("post[E' = E - w]", z3.And(z3.Not(now["E"].dom[w]), W.same_E(pre["E"], now["E"], except_w=w)))
        ex.oblige("post[no handler left for w]", W.hview(now["H"], w) == z3.K(W.HS, z3.BoolVal(False)))
        ex.oblige("post[handlers of other watches untouched]", W.same_H(pre["H"], now["H"], except_w=w))
        ex.oblige("post[watches' = watches - w]", now["watches"] == z3.Store(pre["watches"], w, False))
        ex.oblige("post[emitters' = emitters - E[w]]", now["emitters"] == z3.Store(pre["emitters"], e, False))
        ex.oblige("post[emitter stopped]", ex.ghost["stopped"].t[e])
        ex.oblige("post[emitter joined if it ever ran]", z3.Implies(ex.ghost["started"].t[e], ex.ghost["joined"].t[e]))
        self.oblige_inv(ex)

    def post_raise(self, ex, exc, site):
        if exc.cls != "KeyError":
            ex.oblige(f"no-uncaught[{exc.cls}@{site}]", False, kind="exception")
            return
        ex.oblige("raises[KeyError only for an unknown watch]", z3.Not(self.pre["E"].dom[self.w]))
        self.oblige_unchanged(ex, "raises")


class ClearEmitters(ObsSpec):
    """private helper, called with the observer lock held"""
    qualname, prop = "BaseObserver._clear_emitters", PROP
    needs_lock_on_entry = True

    def __init__(self, W):
        self.W, self.world = W, W
        self.loops = {1: LoopSpec("self._emitters", self.inv1), 2: LoopSpec("self._emitters", self.inv2)}

    def setup(self, ex):
        self.start_state(ex)
        return {"self": self.me}

    def inv1(self, ex, seen):
        e = z3.Const("le", self.W.ES)
        return [("stopped=old+seen", z3.ForAll([e], ex.ghost["stopped"].t[e] == z3.Or(self.pre_ghost["stopped"][e], seen[e]))),
                ("emitters-unchanged", ex.heap[(self.me.id, "_emitters")].t == self.pre["emitters"])]

    def inv2(self, ex, seen):
        e = z3.Const("le", self.W.ES)
        return [("all-stopped", z3.ForAll([e], z3.Implies(self.pre["emitters"][e], ex.ghost["stopped"].t[e]))),
                ("joined=old+seen-that-ran", z3.ForAll([e], ex.ghost["joined"].t[e] == z3.Or(self.pre_ghost["joined"][e], z3.And(seen[e], ex.ghost["started"].t[e])))),
                ("emitters-unchanged", ex.heap[(self.me.id, "_emitters")].t == self.pre["emitters"])]

    def post(self, ex, result):
        for nm, f in clear_emitters_post(self.W, self.pre, self.W.view(ex, self.me), ex.ghost, ex):
            ex.oblige(f"post[{nm}]", f)
        self.oblige_unchanged(ex, "post", what=("H", "watches"))


def clear_emitters_post(W, pre, now, ghost, ex):
    w, e = z3.Const("pw", W.WS), ex.fresh_term(W.ES, "anyE")
    return [("no emitter mapped", z3.ForAll([w], z3.Not(now["E"].dom[w]))),
            ("no emitter", z3.Not(now["emitters"][e])),
            ("every emitter stopped and joined if it ever ran", z3.Implies(pre["emitters"][e], z3.And(ghost["stopped"].t[e], z3.Implies(ghost["started"].t[e], ghost["joined"].t[e]))))]


def clear_emitters_contract(W):
    """call-side contract of _clear_emitters (proved by ClearEmitters)"""
    def h(ex, recv, args, kw, node):
        sp = ex.spec
        ex.require("_clear_emitters:lock-held", "observer._lock" in ex.held)
        before = W.view(ex, sp.me)
        ex.heap[(sp.me.id, "_emitters")] = ex.fresh(TSet(W.Emitter), "_emitters")
        ex.heap[(sp.me.id, "_emitter_for_watch")] = ex.fresh(W.TE, "_emitter_for_watch")
        for g in ("stopped", "joined"):
            ex.ghost[g] = ex.fresh(TSet(W.Emitter), g)
        now = W.view(ex, sp.me)
        e = z3.Const("ce", W.ES)
        w = z3.Const("cw", W.WS)
        ex.assume(z3.ForAll([w], z3.Not(now["E"].dom[w])))
        ex.assume(z3.ForAll([e], z3.Not(now["emitters"][e])))
        ex.assume(z3.ForAll([e], z3.Implies(before["emitters"][e], z3.And(ex.ghost["stopped"].t[e], z3.Implies(ex.ghost["started"].t[e], ex.ghost["joined"].t[e])))))
        return None
    return h


class UnscheduleAll(ObsSpec):
    qualname, prop = "BaseObserver.unschedule_all", PROP
    inline = ObsSpec.inline - {"BaseObserver._clear_emitters"}

    def __init__(self, W):
        self.W, self.world = W, W

    def globals(self):
        g = self.base_globals()
        g["BaseObserver._clear_emitters"] = clear_emitters_contract(self.W)
        return g

    def setup(self, ex):
        self.start_state(ex)
        return {"self": self.me}

    def post(self, ex, result):
        W = self.W
        now = W.view(ex, self.me)
        w, e = z3.Const("pw", W.WS), ex.fresh_term(W.ES, "anyE")
        ex.oblige("post[no emitter mapped]", z3.ForAll([w], z3.Not(now["E"].dom[w])))
        ex.oblige("post[no handler anywhere]", z3.ForAll([w], W.hview(now["H"], w) == z3.K(W.HS, z3.BoolVal(False))))
        ex.oblige("post[no watch]", z3.ForAll([w], z3.Not(now["watches"][w])))
        ex.oblige("post[no emitter]", z3.Not(now["emitters"][e]))
        ex.oblige("post[every emitter stopped and joined if it ever ran]", z3.Implies(self.pre["emitters"][e], z3.And(ex.ghost["stopped"].t[e], z3.Implies(ex.ghost["started"].t[e], ex.ghost["joined"].t[e]))))
        self.oblige_inv(ex)


class AddHandler(ObsSpec):
    qualname, prop = "BaseObserver.add_handler_for_watch", PROP

    def __init__(self, W):
        self.W, self.world = W, W

    def setup(self, ex):
        W = self.W
        self.start_state(ex)
        self.h, self.w = ex.fresh_term(W.HS, "handler"), ex.fresh_term(W.WS, "watch")
        return {"self": self.me, "event_handler": W.Handler.wrap(self.h), "watch": W.Watch.wrap(self.w)}

    def post(self, ex, result):
        W = self.W
        now = W.view(ex, self.me)
        ex.oblige("post[handler added]", W.hview(now["H"], self.w) == z3.Store(W.hview(self.pre["H"], self.w), self.h, True))
        ex.oblige("post[other watches untouched]", W.same_H(self.pre["H"], now["H"], except_w=self.w))
        self.oblige_unchanged(ex, "post", what=("E", "watches", "emitters"))
        self.oblige_inv(ex)


class RemoveHandler(AddHandler):
    qualname = "BaseObserver.remove_handler_for_watch"
    implicit = {"KeyError": "fork"}

    def post(self, ex, result):
        W = self.W
        now = W.view(ex, self.me)
        ex.oblige("post[was registered]", W.hview(self.pre["H"], self.w)[self.h])
        ex.oblige("post[handler removed]", W.hview(now["H"], self.w) == z3.Store(W.hview(self.pre["H"], self.w), self.h, False))
        ex.oblige("post[other watches untouched]", W.same_H(self.pre["H"], now["H"], except_w=self.w))
        self.oblige_unchanged(ex, "post", what=("E", "watches", "emitters"))
        self.oblige_inv(ex)

    def post_raise(self, ex, exc, site):
        if exc.cls != "KeyError":
            ex.oblige(f"no-uncaught[{exc.cls}@{site}]", False, kind="exception")
            return
        ex.oblige("raises[KeyError only for an unregistered handler]", z3.Not(self.W.hview(self.pre["H"], self.w)[self.h]))
        self.oblige_unchanged(ex, "raises")


class Start(ObsSpec):
    qualname, prop = "BaseObserver.start", PROP
    inline = ObsSpec.inline | {"BaseThread.start", "BaseThread.on_thread_start"}

    def __init__(self, W):
        self.W, self.world = W, W
        self.loops = {1: LoopSpec("self._emitters.copy()", self.inv1)}

    def on_field(self, ex, obj, field, write):
        pass  # start() is documented as not concurrent with other API calls (DESIGN 4/C04)

    def globals(self):
        g = self.base_globals()

        def thread_start(ex, args, kw, node):
            ex.ghost["alive"] = VBool(z3.BoolVal(True))
            ex.ghost["thread_started"] = True
            return None
        g["threading.Thread.start"] = thread_start
        return g

    def setup(self, ex):
        self.start_state(ex)
        ex.ghost["thread_started"] = False
        return {"self": self.me}

    def inv1(self, ex, seen):
        W = self.W
        now = W.view(ex, self.me)
        e = z3.Const("le", W.ES)
        return [("registry-unchanged", z3.And(W.same_E(self.pre["E"], now["E"]), W.same_H(self.pre["H"], now["H"]), now["watches"] == self.pre["watches"], now["emitters"] == self.pre["emitters"])),
                ("started=old+seen", z3.ForAll([e], ex.ghost["started"].t[e] == z3.Or(self.pre_ghost["started"][e], seen[e]))),
                ("nothing-failed-yet", z3.ForAll([e], ex.ghost["start_failed"].t[e] == self.pre_failed[e]))]

    def start_state(self, ex):
        super().start_state(ex)
        self.pre_failed = ex.ghost["start_failed"].t

    def post(self, ex, result):
        W = self.W
        e = ex.fresh_term(W.ES, "anyE")
        self.oblige_unchanged(ex, "post")
        ex.oblige("post[every scheduled emitter started]", z3.Implies(self.pre["emitters"][e], ex.ghost["started"].t[e]))
        ex.oblige("post[observer thread started]", bool(ex.ghost["thread_started"]))

    def post_raise(self, ex, exc, site):
        W = self.W
        if exc.cls not in ("OSError", "RuntimeError") or site != "emitter.start()":
            ex.oblige(f"no-uncaught[{exc.cls}@{site}]", False, kind="exception")
            return
        now = W.view(ex, self.me)
        f = ex.fresh_term(W.ES, "failed")
        ex.assume(z3.And(ex.ghost["start_failed"].t[f], z3.Not(self.pre_failed[f])))
        ex.oblige("raises[the failed emitter is removed]", z3.And(z3.Not(now["emitters"][f]), z3.Not(now["E"].dom[W.watch_of(f)])))
        ex.oblige("raises[other watches keep their emitter]", W.same_E(self.pre["E"], now["E"], except_w=W.watch_of(f)))
        ex.oblige("raises[emitters' = emitters - failed]", now["emitters"] == z3.Store(self.pre["emitters"], f, False))
        ex.oblige("raises[observer thread not started]", not ex.ghost["thread_started"])
        ex.oblige("raises[failed emitter stopped]", ex.ghost["stopped"].t[f])


class ObserverInit(ObsSpec):
    """base case: a new observer has an empty registry, which satisfies the class invariant"""
    qualname, prop = "BaseObserver.__init__", PROP

    def __init__(self, W):
        self.W, self.world = W, W
        self.var_types = {"self._watches": TSet(W.Watch), "self._emitters": TSet(W.Emitter), "self._emitter_for_watch": W.TE}

    def on_field(self, ex, obj, field, write):
        pass

    def globals(self):
        W = self.W
        return {"EventDispatcher.__init__": lambda ex, recv, a, k, n: None, "threading.RLock": lambda ex, a, k, n: VOpaque("lock", "observer._lock"),
                "defaultdict": lambda ex, a, k, n: W.TH.empty()}

    def setup(self, ex):
        self.me = VObj("BaseObserver")
        return {"self": self.me, "emitter_class": VOpaque("callable", lambda *a: None), "timeout": VOpaque("timeout")}

    def post(self, ex, result):
        W = self.W
        try:
            v = W.view(ex, self.me)
        except KeyError as e:
            ex.oblige(f"post[registry field {e} is initialised]", False)
            return
        w, e = z3.Const("pw", W.WS), z3.Const("pe", W.ES)
        ex.oblige("post[no watch, no emitter, no handler]", z3.And(z3.ForAll([w], z3.And(z3.Not(v["watches"][w]), z3.Not(v["E"].dom[w]), W.hview(v["H"], w) == z3.K(W.HS, z3.BoolVal(False)))), z3.ForAll([e], z3.Not(v["emitters"][e]))))
        for nm, f in W.inv(v):
            ex.oblige(f"post[invariant established:{nm}]", f)
        lk = ex.heap.get((self.me.id, "_lock"))
        ex.oblige("post[one re-entrant lock protects the registry]", isinstance(lk, VOpaque) and lk.kind == "lock")
        hd = ex.heap.get((self.me.id, "_handlers"))
        ex.oblige("post[the handler map answers an unknown watch with the empty set (an event of a watch that was unscheduled meanwhile finds no handler - it does not raise in the observer thread)]",
                  isinstance(hd, VDict) and hd.default is not None)


# ------------------------------------------------------------------------------------------------ ObservedWatch
class WatchWorld:
    def __init__(self):
        self.PS = ground.usort("PathArg")
        self.CS = ground.usort("EvClass")
        self.is_pathlib = z3.Function("is_pathlib_Path", self.PS, z3.BoolSort())
        self.str_of = z3.Function("str_of", self.PS, self.PS)
        self.P = TRef("PathArg", self.PS)
        self.C = TRef("EvClass", self.CS)
        self.F = TOpt(TSet(self.C))

    def isinstance(self, ex, v, cls):
        if isinstance(cls, VGlobal) and cls.dotted == "Path" and isinstance(v, VRef):
            return VBool(self.is_pathlib(v.t))
        if isinstance(cls, VClass) and cls.name == "ObservedWatch":
            return isinstance(v, VObj) and v.cls == "ObservedWatch"
        raise Unsupported("isinstance")

    def str(self, ex, v):
        return self.P.wrap(self.str_of(self.P.unwrap(v)))

    def function(self, ex, dotted, args, kw, node):
        if dotted in ("os.fsdecode", "os.fsencode") and args and isinstance(args[0], VRef):
            f = z3.Function(dotted.replace(".", "_"), self.PS, self.PS)
            return self.P.wrap(f(args[0].t))
        if dotted in ("hash", "builtins.hash"):
            ex.ghost["hashed"] = args[0]
            return VInt(ex.fresh_term(z3.IntSort(), "hash"))
        return NotImplemented


class WatchSpec(FnSpec):
    relpath, prop = API, PROP
    inline = {"ObservedWatch.path", "ObservedWatch.is_recursive", "ObservedWatch.event_filter", "ObservedWatch.follow_symlink", "ObservedWatch.key"}

    def __init__(self, W: WatchWorld, name):
        self.W, self.world, self.name = W, W, name
        self.qualname = "ObservedWatch." + name

    def mk(self, ex, tag):
        W = self.W
        o = VObj("ObservedWatch")
        f = dict(path=ex.fresh_term(W.PS, "path" + tag), rec=ex.fresh_term(z3.BoolSort(), "rec" + tag), filt=ex.fresh(W.F, "filter" + tag), fl=ex.fresh_term(z3.BoolSort(), "follow" + tag))
        ex.heap[(o.id, "_path")] = W.P.wrap(f["path"])
        ex.heap[(o.id, "_is_recursive")] = VBool(f["rec"])
        ex.heap[(o.id, "_event_filter")] = f["filt"]
        ex.heap[(o.id, "_follow_symlink")] = VBool(f["fl"])
        return o, f

    def setup(self, ex):
        W = self.W
        if self.name == "__init__":
            self.me = VObj("ObservedWatch")
            self.a = dict(path=ex.fresh_term(W.PS, "path"), rec=ex.fresh_term(z3.BoolSort(), "recursive"), filt=ex.fresh(W.F, "event_filter"), fl=ex.fresh_term(z3.BoolSort(), "follow"))
            return {"self": self.me, "path": W.P.wrap(self.a["path"]), "recursive": VBool(self.a["rec"]),
                    "event_filter": VOpt(self.a["filt"].some, VOpaque("listofset", self.a["filt"].val)), "follow_symlink": VBool(self.a["fl"])}
        self.me, self.fa = self.mk(ex, "A")
        env = {"self": self.me}
        if self.name in ("__eq__", "__ne__"):
            self.other, self.fb = self.mk(ex, "B")
            env["watch"] = self.other
        return env

    def same_key(self):
        a, b = self.fa, self.fb
        fa, fb = a["filt"], b["filt"]
        return z3.And(a["path"] == b["path"], a["rec"] == b["rec"], fa.some == fb.some, z3.Implies(fa.some, fa.val.t == fb.val.t))

    def post(self, ex, result):
        W = self.W
        if self.name == "__init__":
            H = lambda f: ex.heap.get((self.me.id, f))
            a = self.a
            ex.oblige("post[pathlib.Path is normalised to str, anything else kept]", W.P.unwrap(H("_path")) == z3.If(W.is_pathlib(a["path"]), W.str_of(a["path"]), a["path"]))
            ex.oblige("post[recursive flag stored]", TBool.unwrap(H("_is_recursive")) == a["rec"])
            f = H("_event_filter")
            if f is None:
                ex.oblige("post[filter None iff no filter given]", z3.Not(a["filt"].some))
            elif isinstance(f, VSet):
                ex.oblige("post[filter None iff no filter given]", a["filt"].some)
                ex.oblige("post[filter is the set of the given classes]", f.t == a["filt"].val.t)
            else:
                ex.oblige("post[filter is None or a frozenset]", False)
        elif self.name == "key":
            ok = isinstance(result, VTuple) and len(result.items) == 3
            ex.oblige("post[key is a triple]", ok)
            if ok:
                p, r, f = result.items
                ex.oblige("post[key=(path, recursive, filter)]", z3.And(W.P.unwrap(p) == self.fa["path"], TBool.unwrap(r) == self.fa["rec"], _z(ex.eq(f, self.fa["filt"]))))
        elif self.name in ("__eq__", "__ne__"):
            t = TBool.unwrap(result) if isinstance(result, (VBool, bool)) else None
            if t is None:
                ex.oblige("post[boolean result]", False)
            else:
                ex.oblige("post[equal iff same (path, recursive, filter)]", t == (self.same_key() if self.name == "__eq__" else z3.Not(self.same_key())))
        elif self.name == "__hash__":
            hv = ex.ghost.get("hashed")
            ok = isinstance(hv, VTuple) and len(hv.items) == 3
            ex.oblige("post[hash of the key triple]", ok)
            if ok:
                p, r, f = hv.items
                ex.oblige("post[hash agrees with equality: hash(key)]", z3.And(W.P.unwrap(p) == self.fa["path"], TBool.unwrap(r) == self.fa["rec"], _z(ex.eq(f, self.fa["filt"]))))


def _z(t):
    return z3.BoolVal(t) if isinstance(t, bool) else t


def make_specs():
    W = ObsWorld()
    WW = WatchWorld()
    out = [ObserverInit(W), Schedule(W), Unschedule(W), UnscheduleAll(W), ClearEmitters(W), AddHandler(W), RemoveHandler(W), Start(W)] + [WatchSpec(WW, n) for n in ("__init__", "key", "__eq__", "__ne__", "__hash__")]
    # "after any sequence of ... start and stop calls": stop() is BaseThread.stop -> on_thread_stop -> unschedule_all, on every call
    from specs import c05, c06
    for sp in (c06.ThreadStop(), c06.DispatcherStop(), c05.OnThreadStop(W)):
        sp.prop = PROP
        out.append(sp)
    return out


EXPECTED_CLAUSES = ["BaseObserver.__init__.post[invariant established:emitters=ran(E)]", "schedule.raises[handlers unchanged]", "schedule.raises[emitter map unchanged]", "schedule.post[handler added to this watch]", "schedule.post[invariant:emitters=ran(E)]",
                    "unschedule.post[E' = E - w]", "unschedule.post[handlers of other watches untouched]", "unschedule_all.post[no handler anywhere]", "start.raises[the failed emitter is removed]",
                    "ObservedWatch.__eq__.post[equal iff", "ObservedWatch.__init__.post[filter None iff", "remove_handler_for_watch.post[handler removed]"]
CANARIES = [
    {"name": "handler registered before the emitter exists (the repaired defect)", "file": API, "fn": "BaseObserver.schedule",
     "find": "            # If we don't have an emitter for this watch already, create it.", "replace": "            self._add_handler_for_watch(event_handler, watch)"},
    {"name": "unschedule leaves _emitter_for_watch", "file": API, "fn": "BaseObserver._remove_emitter", "find": "        del self._emitter_for_watch[emitter.watch]\n", "replace": ""},
    {"name": "ObservedWatch.key without is_recursive", "file": API, "fn": "ObservedWatch.key", "find": "return self.path, self.is_recursive, self.event_filter", "replace": "return self.path, self.event_filter"},
    {"name": "drop the `watch not in self._emitter_for_watch` test", "file": API, "fn": "BaseObserver.schedule", "find": "if watch not in self._emitter_for_watch:", "replace": "if True:"},
]
TRUSTED = ["E7 threading: Thread.join raises RuntimeError iff never started and otherwise returns when the thread is dead; Thread.start/is_alive",
           "emitter_class(...) either raises or returns a fresh emitter whose .watch is the given watch; emitter.start() either raises or starts; emitter.stop() does not raise",
           "E5 builtin set/dict/defaultdict semantics", "ObservedWatch values are identified with their key (proved on ObservedWatch.__eq__/__hash__)"]
ASSUMPTIONS = ["class invariant of the registry assumed on entry and proved on every exit (normal and exceptional)", "start() is not concurrent with other API calls (documented)"]
UNDECIDED_PARTS = ["after start() fails for an emitter its watch keeps its handlers and stays in _watches (observed; outside the statement's sentences and not reported)"]
