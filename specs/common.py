"""Shared spec-side models: the event class lattice read from the real `class` statements of events.py, the
Event record (dataclass model, assumption E10), os.walk (E1) and os.path (E2) contracts."""
from __future__ import annotations
import ast
import z3
from pyvc.sym import *
from pyvc import source, ground

EVENTS = "watchdog/events.py"


def event_classes():
    """{name: dict(bases, event_type, is_directory)} for FileSystemEvent and its subclasses, from the real AST."""
    m = source.module(EVENTS)
    consts = m.constants()
    out = {}
    for name, node in m.classes.items():
        bases = [b.id for b in node.bases if isinstance(b, ast.Name)]
        if name == "FileSystemEvent" or any(b in out for b in bases):
            out[name] = {"bases": bases}
    # resolve attributes through inheritance

    def attr(name, a, default):
        n = name
        while n in out:
            if f"{n}.{a}" in consts:
                return consts[f"{n}.{a}"]
            n = out[n]["bases"][0] if out[n]["bases"] else None
        return default

    for n in out:
        # dataclass fields with init=False: defaults "" / False come from the field(default=...) declarations
        out[n]["event_type"] = attr(n, "event_type", "")
        out[n]["is_directory"] = attr(n, "is_directory", False)
    return out


def is_subclass(classes, a, b):
    n = a
    while n is not None:
        if n == b:
            return True
        n = classes[n]["bases"][0] if classes.get(n, {}).get("bases") else None
    return False


class EventWorld:
    """Event values as a z3 record (cls, src, dest, synthetic) over a given path type."""

    def __init__(self, path_ty: Ty, tag=""):
        self.classes = event_classes()
        self.names = sorted(self.classes)
        sfx = tag + ("" if ground.SCOPE is None else f"_fin{ground.SCOPE}")
        self.ClsS, consts = ground.enum_sort("EvCls" + sfx, self.names)
        self.cls = dict(zip(self.names, consts))
        self.path_ty = path_ty
        self.EvTT = TTup(TRef("EvCls" + sfx, self.ClsS), path_ty, path_ty, TBool, name="Event" + sfx + "_" + str(path_ty.sort))
        self.EvS = self.EvTT.sort
        self.mk = self.EvTT.mk
        self.e_cls, self.e_src, self.e_dest, self.e_syn = self.EvTT.proj
        self.Event = TRef("Event", self.EvS, attrs={
            "src_path": lambda ex, r: path_ty.wrap(self.e_src(r.t)),
            "dest_path": lambda ex, r: path_ty.wrap(self.e_dest(r.t)),
            "is_synthetic": lambda ex, r: VBool(self.e_syn(r.t)),
            "is_directory": lambda ex, r: VBool(self.is_directory(self.e_cls(r.t))),
            "event_type": lambda ex, r: VOpaque("event_type", self.e_cls(r.t)),
        })

    def is_directory(self, c):
        return z3.Or(*[c == self.cls[n] for n in self.names if self.classes[n]["is_directory"]]) if any(self.classes[n]["is_directory"] for n in self.names) else z3.BoolVal(False)

    def subclass_of(self, c, name):
        subs = [n for n in self.names if is_subclass(self.classes, n, name)]
        return z3.Or(*[c == self.cls[n] for n in subs]) if subs else z3.BoolVal(False)

    def constructor(self, name, empty_path):
        """call-side model of the dataclass constructor Cls(src_path, dest_path='', is_synthetic=False)"""
        def ctor(ex, args, kw, node):
            src = args[0] if args else kw["src_path"]
            dest = args[1] if len(args) > 1 else kw.get("dest_path", empty_path)
            syn = args[2] if len(args) > 2 else kw.get("is_synthetic", False)
            return self.Event.wrap(self.mk(self.cls[name], self.path_ty.unwrap(src), self.path_ty.unwrap(dest), TBool.unwrap(syn)))
        return ctor

    def constructors(self, empty_path):
        return {n: self.constructor(n, empty_path) for n in self.names}


# ------------------------------------------------------------------------------------------- strings: os.path / os.walk
SEP = "/"


def str_join_term(a, n):
    """E2: os.path.join(a, n) on POSIX for a plain name n (non-empty, no separator)"""
    return z3.If(a == z3.StringVal(""), n, z3.If(z3.SuffixOf(z3.StringVal(SEP), a), z3.Concat(a, n), z3.Concat(a, z3.StringVal(SEP), n)))


def plain_name(n):
    return z3.And(z3.Length(n) > 0, z3.Not(z3.Contains(n, z3.StringVal(SEP))))


class StrWalk:
    """E1: os.walk(top) (top-down) as a list of triples (root, dirs, files) over SMT strings.
    Facts given to the caller: names are plain; the first root is top; every root has top as a prefix
    (the inductive consequence of 'every later root is join(earlier root, d)'; the induction step is proved as
    lemma `join keeps prefix`, the induction principle itself is part of E1)."""

    def __init__(self, kind="str"):
        self.S = TStr if kind == "str" else TBytes
        self.L = TList(self.S)
        self.Triple = TTup(self.S, self.L, self.L)
        self.W = TList(self.Triple)

    def walk(self, ex, top):
        w = ex.fresh(self.W, "walk")
        k, i = z3.Const("wk", z3.IntSort()), z3.Const("wi", z3.IntSort())
        root = lambda j: self.Triple.proj[0](w.arr[j])
        dirs = lambda j: self.L.wrap(self.Triple.proj[1](w.arr[j]))
        files = lambda j: self.L.wrap(self.Triple.proj[2](w.arr[j]))
        ex.assume(w.n >= 0)
        ex.assume(z3.ForAll([k], z3.Implies(z3.And(k >= 0, k < w.n), z3.And(z3.PrefixOf(top, root(k)), dirs(k).n >= 0, files(k).n >= 0))))
        ex.assume(z3.ForAll([k, i], z3.Implies(z3.And(k >= 0, k < w.n, i >= 0, i < dirs(k).n), plain_name(dirs(k).arr[i]))))
        ex.assume(z3.ForAll([k, i], z3.Implies(z3.And(k >= 0, k < w.n, i >= 0, i < files(k).n), plain_name(files(k).arr[i]))))
        return w
