"""C12 — every descriptor and thread is released exactly once, also on failure (partial: typestate).

Ghost per-descriptor open flags; os.read / os.write / os.close / poll / inotify_rm_watch require 'open'.
Lock invariant J of Inotify: not released => the three descriptors are open; released => _closed; a read in
flight (_is_reading) is never released under its feet.  close() releases only if no read is in flight, the reader
releases in its second section if it was closed meanwhile; Inotify.__init__ leaks nothing when it raises;
InotifyBuffer joins its reader; emitter stop is idempotent."""
from __future__ import annotations
import z3
from pyvc.sym import *
from pyvc.engine import FnSpec, LoopSpec, Obligation, Raise
from specs.inotify_read import IRWorld, CloseResources, Close, ReadEvents, Init, AddWatch, string_lemmas, FILE

PROP = "C12"
GROUNDABLE = True
BATTERY = "c12_battery.py"
BUF = "watchdog/observers/inotify_buffer.py"
EMIT = "watchdog/observers/inotify.py"


class BufSpec(FnSpec):
    relpath, prop = BUF, PROP
    inline = {"BaseThread.stop", "BaseThread.start", "BaseThread.on_thread_start", "InotifyBuffer.on_thread_stop"}

    def __init__(self, name):
        self.name = name
        self.qualname = "InotifyBuffer." + name
        self.world = self

    def load_item(self, ex, cont, idx, node):
        if (isinstance(cont, VClass) and cont.name == "DelayedQueue") or (isinstance(cont, VGlobal) and cont.dotted == "DelayedQueue"):
            return VGlobal("DelayedQueue")   # DelayedQueue["..."] is just the class (typing subscript)
        return NotImplemented

    def globals(self):
        def ino_ctor(ex, a, k, n):
            self.log.append("Inotify()")
            if ex.choose(2, "Inotify(...) raises OSError (missing path, watch limit)") == 1:
                raise Raise(VExc("OSError"), "Inotify()")
            return VOpaque("inotify")

        def log(name):
            def h(ex, recv, a, k, n):
                self.log.append(name)
                return None
            return h

        def tstart(ex, a, k, n):
            self.log.append("thread.start")
            return None

        def join(ex, recv, a, k, n):
            ex.oblige("join only after the stop flag is set and the wake-ups are done (else join() blocks forever)", self.log[-3:] == ["event.set", "inotify.close", "queue.close"])
            self.log.append("join")
            return None
        return {"Inotify": ino_ctor, "DelayedQueue": lambda ex, a, k, n: VOpaque("queue"), "BaseThread.__init__": lambda ex, recv, a, k, n: None, "threading.Thread.start": tstart,
                "inotify.close": log("inotify.close"), "queue.close": log("queue.close"), "event.set": log("event.set"), "InotifyBuffer.join": join,
                # the reader thread may have ended by itself already (root deleted or unmounted): close() still has to stop and
                # wake everything that waits on the buffer's queue
                "InotifyBuffer.is_alive": lambda ex, recv, a, k, n: VBool(ex.fresh_term(z3.BoolSort(), "reader_thread_alive")),
                # the flag may already be set on entry (close() after the reader stopped itself, stop() twice, start() after stop())
                "event.is_set": lambda ex, recv, a, k, n: VBool(z3.BoolVal(True)) if "event.set" in self.log else VBool(ex.fresh_term(z3.BoolSort(), "flag_already_set"))}

    def setup(self, ex):
        self.me = VObj("InotifyBuffer")
        self.log = []
        H = ex.heap
        if self.name != "__init__":
            H[(self.me.id, "_inotify")] = VOpaque("inotify")
            H[(self.me.id, "_queue")] = VOpaque("queue")
            H[(self.me.id, "_stopped_event")] = VOpaque("event")
            return {"self": self.me}
        return {"self": self.me, "path": VOpaque("path"), "recursive": VOpaque("r"), "event_mask": VOpaque("m"), "follow_symlink": VOpaque("f")}

    def post(self, ex, result):
        if self.name == "__init__":
            ex.oblige("post[queue, then kernel object, then the reader thread is started]", self.log == ["Inotify()", "thread.start"])
        elif self.name == "on_thread_stop":
            ex.oblige("post[inotify closed (descriptors released or handed to the reader), then the queue closed]", self.log == ["inotify.close", "queue.close"])
        elif self.name == "close":
            ex.oblige("post[stop flag, wake-ups, then the reader thread is joined]", self.log == ["event.set", "inotify.close", "queue.close", "join"])

    def post_raise(self, ex, exc, site):
        if self.name == "__init__" and site == "Inotify()":
            ex.oblige("raises[no reader thread was started for a watch that could not be created]", "thread.start" not in self.log)
        else:
            ex.oblige(f"no-uncaught[{exc.cls}@{site}]", False, kind="exception")


class EmitterStop(FnSpec):
    relpath, qualname, prop = EMIT, "InotifyEmitter.on_thread_stop", PROP

    def __init__(self):
        self.world = None

    def globals(self):
        def close(ex, recv, a, k, n):
            self.closes += 1
            return None
        return {"buffer.close": close}

    def setup(self, ex):
        self.me = VObj("InotifyEmitter")
        self.closes = 0
        self.had = ex.choose(2, "emitter was started") == 0
        ex.heap[(self.me.id, "_inotify")] = VOpaque("buffer") if self.had else None
        return {"self": self.me}

    def post(self, ex, result):
        ex.oblige("post[buffer closed exactly once iff there was one]", self.closes == (1 if self.had else 0))
        ex.oblige("post[forgotten afterwards: a second stop is a no-op]", ex.heap[(self.me.id, "_inotify")] is None)


def make_specs():
    W = IRWorld()
    out = [Init(W, PROP), CloseResources(W, PROP), Close(W, PROP), ReadEvents(W, PROP, want=("fds",)), BufSpec("__init__"), BufSpec("on_thread_stop"), BufSpec("close"), EmitterStop()]
    # "whenever ... start() fails at any step with an error": an emitter whose start() raised - whatever it raised, its
    # descriptors and reader thread may already exist - is stopped (which releases them) and removed
    from specs import c13
    for sp in c13.make_specs():
        if sp.qualname == "BaseObserver.start":
            sp.prop = PROP
            out.append(sp)
    return out


EXPECTED_CLAUSES = ["Inotify.__init__.raises[nothing leaked", "Inotify.__init__.post[not closed, no read in flight", "Inotify.close.post[released now, or left to the reader", "Inotify.close.release[guarantee: never releases under a read in flight]",
                    "Inotify.read_events.poll[inotify descriptor and wake-up pipe are open]", "Inotify.read_events.os.read[descriptor is open]", "Inotify._close_resources.os.close[descriptor is open: never closed twice]",
                    "Inotify.read_events.post[descriptors released by the reader only after close()]", "InotifyBuffer.close.post[stop flag", "InotifyBuffer.__init__.raises[no reader thread", "InotifyEmitter.on_thread_stop.post[buffer closed exactly once"]
CANARIES = [
    {"name": "_is_reading starts True (the repaired defect)", "file": FILE, "fn": "Inotify.__init__", "find": "        self._is_reading = False\n", "replace": "        self._is_reading = True\n"},
    {"name": "call _close_resources() in both arms of close()", "file": FILE, "fn": "Inotify.close", "find": "                    os.write(self._kill_w, b\"!\")\n", "replace": "                    os.write(self._kill_w, b\"!\")\n                    self._close_resources()\n"},
    {"name": "skip the `if self._closed` re-check after the read", "file": FILE, "fn": "Inotify.read_events", "find": "                    self._is_reading = False\n\n                    if self._closed:\n                        self._close_resources()\n                        return []\n", "replace": "                    self._is_reading = False\n"},
    {"name": "constructor does not release on failure (the repaired defect)", "file": FILE, "fn": "Inotify.__init__", "find": "        except Exception:\n            self._close_resources()\n            raise\n", "replace": "        except Exception:\n            raise\n"},
]
TRUSTED = ["E7 threading.Lock; Thread.join returns when the thread is dead", "E8: inotify_init returns a fresh open descriptor or -1; os.pipe returns two fresh descriptors (its own failure is not injected); poll/os.read on open descriptors do not raise",
           "CPython: attribute stores are atomic", "rely of the reader: while _is_reading is set nobody releases the descriptors (this is close()'s proved guarantee); only the reader writes _is_reading; one reader thread per Inotify"]
ASSUMPTIONS = ["descriptor typestate is ghost state (open flags); 'counts return to their previous values over arbitrarily many cycles' is the induction these per-call contracts justify, measured only by the bounded battery (/proc/self/fd)"]
UNDECIDED_PARTS = ["thread counts over real cycles are measured by the bounded battery only", "inotify_add_watch may still be called with the descriptor number after close() released it (third section of read_events does not re-check _closed): outside the statement's list (read/poll/write/close), recorded in DESIGN.md"]
