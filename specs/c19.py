"""C19 — event paths keep the caller's path type and the entry's exact name, all backends.

Ghost type tag is_bytes(v) on every path value.  Obligations: ObservedWatch.__init__ normalises pathlib.Path to
str and keeps anything else; on_thread_start hands fsencode(watch.path) (bytes) to the kernel side;
_decode_path(p) has the type of the watched path and fsencode(result) = p; for every record of the translation
table, every queued event's non-empty paths have the type of the watched path and fsencode of a directly built
path is the native path (parent events: dirname of the native path).  Polling side: see C10 (walk yields
join(root, entry.name), the emitter passes diff paths through unchanged)."""
from __future__ import annotations
from specs.inotify_emitter import World, QueueEvents, DecodePath, OnThreadStart, FILE
from specs import c13

PROP = "C19"
GROUNDABLE = True
GROUND_SCOPES = (4,)   # a str path, its normalised spelling and their two byte encodings
BATTERY = "c19_battery.py"


def make_specs():
    W = World()
    ws = c13.WatchSpec(c13.WatchWorld(), "__init__")
    ws.prop = PROP
    out = [QueueEvents(W, PROP, want=("types",)), DecodePath(W, PROP), OnThreadStart(W, PROP), ws]
    # watch identity includes the path's type: a str and a bytes spelling are different watches (each gets its own emitter)
    WW = c13.WatchWorld()
    for n in ("key", "__eq__"):
        s2 = c13.WatchSpec(WW, n)
        s2.prop = PROP
        out.append(s2)
    try:
        from specs import c10
        out += c10.type_specs(PROP)
    except Exception:
        pass
    # 'the entry's exact name': the native path handed to the emitter is the current path of the record's descriptor + the
    # record's name - the inotify layer's bookkeeping (C02's contracts) re-verified here
    from specs import c02
    for sp in c02.make_specs():
        sp.prop = PROP
        out.append(sp)
    return out


def lemmas():
    from specs.inotify_read import string_lemmas
    return string_lemmas()


EXPECTED_CLAUSES = ["queue_events.post[types:pair:IN_MOVED_FROM+IN_MOVED_TO|ISDIR,recursive:synthetic sub-events: every non-empty path has the type", "queue_events.post[types:single:IN_MODIFY:event0: every non-empty path has the type", "queue_events.post[types:single:IN_CREATE:fsencode(event0.src_path) is the native path]",
                    "queue_events.post[types:single:IN_DELETE:fsencode(event1.src_path) is the native parent]", "_decode_path.post[fsencode(result) is the native path]", "on_thread_start.post[the kernel side always works on bytes",
                    "ObservedWatch.__init__.post[pathlib.Path is normalised to str"]
CANARIES = [
    {"name": "_decode_path always decodes", "file": FILE, "fn": "InotifyEmitter._decode_path", "find": "return path if isinstance(self.watch.path, bytes) else os.fsdecode(path)", "replace": "return os.fsdecode(path)"},
    {"name": "parent event built from the raw bytes path", "file": FILE, "fn": "InotifyEmitter.queue_events", "find": "            elif event.is_create:\n                cls = DirCreatedEvent if event.is_directory else FileCreatedEvent\n                self.queue_event(cls(src_path))\n                self.queue_event(DirModifiedEvent(os.path.dirname(src_path)))",
     "replace": "            elif event.is_create:\n                cls = DirCreatedEvent if event.is_directory else FileCreatedEvent\n                self.queue_event(cls(src_path))\n                self.queue_event(DirModifiedEvent(os.path.dirname(event.src_path)))"},
]
TRUSTED = ["E3 os.fsencode(os.fsdecode(b)) = b for all bytes (surrogateescape); fsdecode/fsencode are the identity on their own type", "E2 os.path.dirname keeps the type and commutes with decoding ('/' is ASCII)",
           "C14/E1: sub-event generators yield paths of the type of the directory they walk", "native paths handed over by the inotify layer are bytes (Inotify is constructed with fsencode(watch.path): proved in on_thread_start)"]
ASSUMPTIONS = ["unicode normalisation or any other rewriting of names would violate fsencode(result) = native path and is therefore caught by the _decode_path contract"]
UNDECIDED_PARTS = ["that the native path is 'the watched path joined with the entry's real relative name' is the inotify layer's path bookkeeping (C02)"]
