#!/bin/bash
# run every claimed check on the clean tree (rewrites evidence/), print one line each
cd /verif
git -C /repo diff --quiet || { echo "/repo dirty"; exit 9; }
overall=0
for p in $(python3 -c "import json;print(' '.join(c['property_id'] for c in json.load(open('MANIFEST.json'))['checks']))"); do
  out=$(./check $p --tier ${TIER:-quick} 2>&1); rc=$?
  echo "$p rc=$rc $(echo "$out" | grep '^\[' | cut -c1-150)"
  [ $rc -ne 0 ] && overall=1
  [ $rc -ne 0 ] && echo "$out" | tail -5
done
exit $overall
