#!/usr/bin/env python3
"""Regenerates /verif/MANIFEST.json from the table below (kept valid against /root/.vp/MANIFEST.schema.json)."""
import json, os

VERIF = os.path.dirname(os.path.dirname(os.path.abspath(__file__)))
TECH = "contract-based deductive verification: VCs generated from the real function ASTs (pyvc) against sidecar contracts, discharged by z3 5.1 / cvc5 1.0.3"

CLAIMED = {
    "C09": dict(text="Every law of the statement is a postcondition of DirectorySnapshotDiff.__init__ (5 loop invariants over set/map views), proved unbounded for all pairs of snapshots; accessors, __sub__ and EmptyDirectorySnapshot are proved against the same view. DirectorySnapshot.__init__ establishes what the laws assume (every path's identity, the root's included, is in the index); stat_info() has a contract.",
                note="Assumes wf(snapshot) ('every inode has one path', from the statement) for the laws, only wf0 for KeyError-freedom; builtin set/dict semantics (E5); stat fields uninterpreted. Bounded native battery (all pairs of 2-name trees) is reported separately, never as proof.", ref="4/C09"),
    "C14": dict(text="generate_sub_moved_events / generate_sub_created_events: output = one event per walked entry, in walk order, with src = old ++ dest[len(new):] (SMT string theory), right flavour, synthetic flag; three nested loop invariants.",
                note="os.walk (E1) and os.path.join (E2) are assumed contracts; that os.walk lists the real descendants is not proved. The re-key block of Inotify.read_events is covered by C02's contracts.", ref="4/C14"),
    "C15": dict(text="Callback sequence of the three dispatch methods and the boolean match rule / sub-sequence / conflict rejection of patterns.py as postconditions over a ghost call log; PurePath.match and re are uninterpreted.",
                note="E9 (matchers pure, uninterpreted), E10 (event dataclass). Agreement with pathlib's own matching and RegexMatchingEventHandler.__init__ are covered only by the bounded battery.", ref="4/C15"),
    "C13": dict(text="Whole-view pre/postconditions (normal and exceptional) and the registry class invariant for schedule/unschedule/unschedule_all/_clear_emitters/add/remove_handler_for_watch/start, plus ObservedWatch identity (__init__/key/__eq__/__ne__/__hash__); induction over call sequences is Hoare-logic soundness.",
                note="E7 (thread start/join), emitter constructor/start either raise or succeed (failure forked at both), emitter.stop() does not raise, builtin containers (E5). The class invariant is assumed on entry and proved on every exit.", ref="4/C13"),
    "C04": dict(text="dispatch_events under the observer lock: with plain callbacks every handler registered for the event's watch is called exactly once and nobody else; with arbitrary re-entrant callbacks (registry havocked under the class invariant) at most once, only handlers of that watch, each registered at the instant of its call; queue_event queues the (event, watch) pair iff the filter admits it; every protected registry access has a lock-held obligation. Composed with the re-verified queue contracts (C16, incl. the lemma that EventQueue overrides no queue operation), watch identity (key is the triple path/recursive/filter) and the registry mutators under rely/guarantee: a mutator that splits its update over two lock sections fails release[I:...].",
                note="Rely/guarantee over the observer RLock (E7); FIFO/no-loss of the queue is C16 + E6 and is not re-proved here; liveness not decided.", ref="4/C04"),
    "C05": dict(text="Every callback is made in a lock hold in which membership was just established; unschedule/remove_handler_for_watch/unschedule_all/_remove_emitter/_clear_emitters postconditions (handler gone, emitter stopped and joined) are proved under the same lock; on_thread_stop reaches unschedule_all. Every stop() call runs the thread-specific release itself (BaseThread.stop, EventDispatcher.stop); emitter.is_alive() is modelled (False does not mean never started), so 'every registered emitter is told to stop' is refuted by a teardown guarded by is_alive().",
                note="Same trusted base as C04; that join() returns is liveness (C06).", ref="4/C05"),
    "C17": dict(text="Rely/guarantee over DelayedQueue._lock with a ghost put-history: every section of put/get/remove/close preserves the lock invariant (proved at each release and wait entry) and stays within the rely; get() hands out the oldest remaining element exactly once, a delayed one never before insert time + delay, a head removed meanwhile is not returned, None only after close(); remove() hands out the first match exactly once; signalling discipline of close()/put().",
                note="E7 (Lock, Condition.wait atomic release/re-acquire), time.time non-decreasing (reals), atomic attribute store, distinct elements. 'A blocked get() returns after close()' is liveness: only the signalling discipline is proved.", ref="4/C17"),
    "C16": dict(text="SkipRepeatsQueue under the queue mutex: invariant relating _last_item to a ghost enqueue history (None, or the last enqueued item which is still waiting); _put/_get preserve it and stay within the rely; _get is FIFO and forgets the last item iff that very item is taken out; put() drops only when, at its read of _last_item, the item equals the last enqueued, still-waiting item, and otherwise hands the item to Queue.put exactly once.",
                note="E6 (queue.Queue put/get are critical sections calling _put/_get), atomic attribute loads, items' == is an equivalence. The equality law of event objects is decided structurally (dataclass lemmas from the AST) plus a bounded all-pairs battery, not by SMT.", ref="4/C16"),
    "C11": dict(text="queue_event queues iff the filter is None or the event is an instance of a filter class; get_event_mask_from_filter: loop invariant + postcondition 'needs(class, bit, recursive) => bit in mask' for all 13 classes x 10 kernel bits, with `needs` computed from the statement's translation table (not from the function); default mask and ABI constants as lemmas. Frame: InotifyEmitter.queue_events does not consult the filter and hands a number of events fixed by the record alone to queue_event; watch identity includes the filter (two schedules of one path with different filters are two watches).",
                note="The translation table is C03's proved postcondition; E8 (the kernel reports a record only if its bit is requested). Over-approximate masks are allowed. The unchanged tree violated 33 (class<-bit) obligations: repaired by a fix: commit.", ref="4/C11"),
    "C03": dict(text="InotifyEmitter.queue_events: for every native record (each of the 15 event bits x IN_ISDIR, or a rename pair) x recursive x full-emitter x root-or-not, the exact sequence of queued events equals the statement's translation table (class, paths, parent events, synthetic sub-events forwarded once and in order, stop iff root deleted); is_synthetic is False on every directly built event.",
                note="PARTIAL: 'explained by the operation history' is not decided (needs the kernel). E8 (one event bit per record), C14's contract for the generators, dirname/fsdecode uninterpreted with E2/E3 axioms. Known finding (recorded): phantom events after a watched directory is moved out of the tree.", ref="4/C03"),
    "C19": dict(text="Ghost type tag on every path: ObservedWatch.__init__ (Path -> str), on_thread_start (kernel side gets fsencode(watch.path)), _decode_path (type of the watch path, fsencode(result) = native), and for every row of the translation table every non-empty event path has the watch path's type and fsencode of each directly built path is the native path / its dirname; watch identity keeps the path type (key/__eq__). Polling side: walk/queue_events contracts of C10.",
                note="E3 fsencode(fsdecode(b)) = b, E2 dirname commutes with decoding, C14/E1 for synthetic events. That the native path is root joined with the real relative name is C02's bookkeeping.", ref="4/C19"),
    "C10": dict(text="PollingEmitter.queue_events: nothing when stopped; otherwise exactly one event per entry of the eight diff lists, of the right class, at its place in the deleted/modified/created/moved, files-then-directories order (8 loop invariants with segment offsets), the new snapshot becomes the baseline; snapshot OSError => one DirDeletedEvent(root) + stop, baseline kept; on_thread_start baseline. DirectorySnapshot.walk: yields exactly (join(root,name), stat) of the entries whose stat succeeded, in listing order, tolerated listing errors contribute nothing, each yielded directory walked exactly once iff recursive (failures forked at every stat/listdir call); __init__: wf0 and exact path set.",
                note="The diff is used through C09's contract. stat/listdir arbitrary (may raise at every call); recursion replaced by the function's own contract (finite depth assumed); os.path.join uninterpreted.", ref="4/C10"),
    "C20": dict(text="PARTIAL. Both binary decoders proved by loop invariant for every record count, name length and padding (Inotify._parse_event_buffer incl. the rstrip of the NUL padding; winapi._parse_event_buffer over NextEntryOffset/FileNameLength); WindowsApiEmitter.queue_events: per-record region contract = the action table; FSEventsEmitter.queue_event/_is_recursive_event: a non-recursive watch queues nothing below the root's direct children.",
                note="FSEventsEmitter.queue_events (flag-coalescing table) is not applicable - relative to Apple's semantics. E4 (struct/ctypes reads), E8 (record layouts), offsets monotone by assumed induction. Two known findings on Windows (removed directory typed as file; rename halves split across reads) are listed in known_findings.json. 'Replaying reproduces the tree' is not decided.", ref="4/C20"),
    "C18": dict(text="PARTIAL. EventDebouncer under its Condition (rely/guarantee, ghost handled/delivered): while not stopped _events = handled[delivered:]; the callback runs only in a lock hold where should_keep_running() held, with exactly the pending batch in arrival order, nothing twice, nothing after stop(); untimed wait guarded by its predicate; handle_event/stop notify. ProcessWatcher.run: callback at most once, only after the child exited, only if not stopped, only timed waits. AutoRestartTrick._stop_process/_start_process/_restart_process/stop: sequential contracts over a ghost process table.",
                note="E7, E11 (process table). NOT decided: 'never more than one child alive' across the watcher and event threads (process/process_watcher are not lock-protected), debounce timing beyond 'delivered after a timed wait expired', thread exit on stop() (liveness). ShellCommandTrick.on_any_event has a sequential contract only.", ref="4/C18"),
    "C12": dict(text="PARTIAL (typestate). Ghost per-descriptor open flags: os.read/os.write/os.close/poll/inotify_rm_watch require 'open'; lock invariant J of Inotify (not released => all three open; released => _closed; a read in flight is never released under its feet) proved at every release of close()/read_events(); close() releases only if no read is in flight and is idempotent; the reader releases in its second section iff closed meanwhile; Inotify.__init__ closes everything it opened when watch installation raises; InotifyBuffer starts no thread for a failed watch, close() = flag, wake-ups, join; emitter stop idempotent.",
                note="E7/E8 (poll/os.read on open descriptors do not raise; os.pipe failure not injected). Rely of the reader = close()'s proved guarantee. Descriptor/thread counts over real cycles are measured only by the bounded battery. inotify_add_watch after a concurrent close() (third section of read_events) is outside the statement's list and only recorded.", ref="4/C12"),
    "C08": dict(text="InotifyBuffer._group_events: region contract per batch event (append single / upgrade the first matching single MOVED_FROM in place / append pair with the first match pulled from the delay queue / single when nothing matches; every other position untouched; delay queue consulted at most once) and all pairs (moved_from, moved_to, one cookie); InotifyBuffer.run: every item except a single IN_IGNORED put exactly once in order, delayed iff unmatched MOVED_FROM, loop ends exactly on root IGNORED/DELETE_SELF; composed with the re-verified DelayedQueue put/get/remove contracts (C17). The decoder of a read batch (_parse_event_buffer, C20's contract) is re-verified here; the batch loops are not left before their last element.",
                note="No-loss/no-duplication over a batch is the induction over the per-event region contract. Cross-batch pairing and timing clauses are the composition with C17 (rely/guarantee), not re-proved end to end. E8 cookies.", ref="4/C08"),
    "C02": dict(text="PARTIAL. Watch-map contracts of the Inotify class against the meaning of each native record: _add_dir_watch watches the root and (recursive) every directory found under it, only the root otherwise; per record of read_events (region contract): IN_CREATE|ISDIR => new directory watched or the kernel refused; rename of a watched directory => its entry and exactly the entries below it re-keyed by prefix substitution (6-clause loop invariant, string facts proved as SMT-LIB string lemmas), same descriptors, both maps, keys outside both trees untouched; IN_IGNORED => pruned; watches added only by a recursive instance.",
                note="NOT decided: that the event view equals the disk at quiescence (kernel, pacing condition). E8 kernel contract, E1, C20. A directory arriving by IN_MOVED_TO without a known watched source (moved in, or renamed right after creation) was never watched on the original tree: repaired by fix: 26501cd.", ref="4/C02"),
    "C07": dict(text="PARTIAL. Exception-freedom of every library thread body: one obligation per subscript/pop/del/unpack/None-attribute in Inotify.read_events (incl. _recursive_simulate and the re-key loop), InotifyBuffer._group_events/run, InotifyEmitter.queue_events, PollingEmitter.queue_events, DirectorySnapshot.walk/__init__, with inotify_add_watch / stat / listdir failing at every call; invariant 'every live kernel descriptor has a path entry'; root deletion => exactly one DirDeletedEvent(root) + stop on both back ends, reader loop ends. The emitter's stop path (Inotify.close, InotifyBuffer.close/on_thread_stop, InotifyEmitter.on_thread_stop) raises nothing, also when the kernel refuses inotify_rm_watch; region-contract loops are not left before their last element.",
                note="NOT decided: 'later changes are reported' (C02 + liveness). E8 kernel contract (IN_IGNORED last for its descriptor; descriptors may be re-issued). Two KeyErrors found on the original tree were repaired by fix: commits.", ref="4/C07"),
    "C06": dict(text="PARTIAL: NECESSARY CONDITIONS ONLY - termination itself is not proved. W1 every stop path sets the flag and then performs the wake-up of each blocking wait, without raising before (BaseThread.stop, EventDispatcher.stop/__init__ (unbounded queue + sentinel), BaseObserver.on_thread_stop, InotifyEmitter/InotifyBuffer.on_thread_stop, InotifyBuffer.close, Inotify.close, DelayedQueue.close, polling sleeps on the stop flag, debouncer stop, ProcessWatcher timed waits); W2 each run() leaves its loop once the flag is set and its blocking call returned; W3 wait-predicate discipline at both condition-variable waits; W4 lock levels checked on the lock-acquisition graph extracted from the real AST + join-under-lock rule.",
                note="'No call blocks forever' / 'join() returns' are liveness properties of all interleavings and are NOT decided by contracts; fair scheduling, the kernel waking poll(), and user code are assumed. The callee lock summaries of W4 are read off the callee contracts.", ref="4/C06"),
}

NOT_APPLICABLE = {
    "C01": "whole-history refinement of the live kernel stream against the real disk over three threads and all timings: no contract on one call or one data structure expresses it; its mechanisms are decided as C02/C03/C04/C08/C16/C17 (DESIGN.md 4/C01)",
}
PENDING = "contract written in DESIGN.md but its check is not built yet (work in progress)"


def main():
    props = [json.loads(l) for l in open(os.path.join(VERIF, "properties.jsonl"))]
    checks = []
    for p in props:
        c = CLAIMED.get(p["id"])
        if not c:
            continue
        checks.append({
            "property_id": p["id"],
            "quick_cmd": f"./check {p['id']} --tier quick",
            "thorough_cmd": f"./check {p['id']} --tier thorough",
            "evidence_file": f"evidence/{p['id']}.json",
            "replay_cmd_template": f"./check {p['id']} --replay {{path}}",
            "engine": "pyvc",
            "level_claimed": {"category": "proof", "text": c["text"], "design_ref": "DESIGN.md section " + c["ref"]},
            "level_note": c["note"],
            "technique": TECH,
        })
    na = []
    for p in props:
        if p["id"] in CLAIMED:
            continue
        na.append({"property_id": p["id"], "reason": NOT_APPLICABLE.get(p["id"], PENDING)})
    m = {
        "version": 1,
        "setup_cmd": "python3-vt -c 'import z3, sys; sys.exit(0)' && test -x /venv/bin/python",
        "hooks": {"guard": "WATCHDOG_VERIF", "enable": "no source hook is needed: the verifier parses /repo/src on every run and the native batteries import it with PYTHONPATH=/repo/src",
                  "baseline_off_cmd": "cd /repo && /venv/bin/python -m pytest -ra -q -p no:cacheprovider --timeout=900 --continue-on-collection-errors", "source_commits": [], "add_only": True},
        "engines": [{"name": "pyvc", "path": "pyvc/", "serves_properties": sorted(CLAIMED), "kind_free_text": "verification-condition generator over Python ast (symbolic execution of the real function bodies against sidecar contracts in specs/), z3-solver 5.1 + cvc5/z3 CLI second opinions; native contract batteries in native/ are bounded stand-ins"}],
        "checks": checks,
        "not_applicable": na,
        "notes": "Exit codes of ./check: 0 held, 1 violation (VIOLATION line), 2 undecided (never a violation), 3 checker crash. Known findings: known_findings.json.",
    }
    json.dump(m, open(os.path.join(VERIF, "MANIFEST.json"), "w"), indent=1)
    print("claimed:", sorted(CLAIMED), "n/a:", len(na))


if __name__ == "__main__":
    main()
