#!/bin/bash
# tools/run_thorough.sh [ids...] : thorough tier of every claimed check, one line each (evidence goes to replays/ unless KEEP_EVIDENCE=1)
DIR="$(cd "$(dirname "$0")/.." && pwd)"; cd "$DIR"
[ -z "$KEEP_EVIDENCE" ] && export VERIF_EVIDENCE_DIR="$DIR/replays/evidence-thorough"
ids="$@"; [ -z "$ids" ] && ids=$(python3 -c "import json;print(' '.join(c['property_id'] for c in json.load(open('MANIFEST.json'))['checks']))")
overall=0
for p in $ids; do
  t0=$(date +%s); out=$(./check $p --tier thorough 2>&1); rc=$?
  echo "$p rc=$rc $(( $(date +%s) - t0 ))s $(echo "$out" | grep '^\[' | cut -c1-160)"
  [ $rc -ne 0 ] && overall=1
  [ $rc -ne 0 ] && echo "$out" | grep -v "^NOT-PROVED" | tail -n 6 | cut -c1-300
done
exit $overall
