#!/bin/bash
# tools/verify_seeded.sh [id ...] : re-verify seeded changes against /repo HEAD, each in its own scratch worktree under /tmp:
# patch applies, the existing tests pass with it, demo.py exits 0 without it and 1 with it.  8 at a time.
cd /verif
ids="$@"; [ -z "$ids" ] && ids=$(ls seeded | grep -v README)
one() {
  id=$1; d=/verif/seeded/$id; wt=/tmp/vs_$id
  [ -f $d/patch.diff ] || exit 0
  rm -rf $wt
  git -C /repo worktree add -q --detach $wt HEAD 2>/dev/null || { sleep 1; git -C /repo worktree add -q --detach $wt HEAD; } || { echo "VERIFY $id worktree-failed"; exit 0; }
  cd $wt
  d0=$(timeout 300 env PYTHONPATH=$wt/src /venv/bin/python $d/demo.py >/dev/null 2>&1; echo $?)
  if git apply $d/patch.diff 2>/dev/null; then
    d1=$(timeout 300 env PYTHONPATH=$wt/src /venv/bin/python $d/demo.py >/dev/null 2>&1; echo $?)
    t=$(PYTHONPATH=$wt/src /venv/bin/python -m pytest -q -p no:cacheprovider --timeout=900 2>&1 | tail -n 1 | tr -d '=')
    echo "VERIFY $id head=$(git -C /repo rev-parse --short HEAD) demo_unchanged=$d0 demo_changed=$d1 tests:$t"
  else
    echo "VERIFY $id apply-failed"
  fi
  cd /; git -C /repo worktree remove --force $wt
}
export -f one
echo $ids | tr ' ' '\n' | xargs -P 8 -I{} bash -c 'one {}'
git -C /repo worktree prune
