#!/bin/bash
export VERIF_EVIDENCE_DIR=${VERIF_EVIDENCE_DIR:-/verif/replays/evidence-changed-tree}
# tools/seeded_matrix.sh [id ...] : apply each seeded change to /repo, run the checks listed in its meta.json, undo it.
# One line per (change, check); feed the log to tools/gen_seeded_readme.py.  /repo must be clean; it is restored after every change.
cd /verif
ids="$@"; [ -z "$ids" ] && ids=$(ls seeded | grep -v README)
for id in $ids; do
  d=/verif/seeded/$id
  [ -f $d/patch.diff ] || continue
  git -C /repo diff --quiet || { echo "/repo dirty"; exit 9; }
  git -C /repo apply $d/patch.diff || { echo "$id apply-failed"; continue; }
  for c in $(python3 -c "import json;print(' '.join(json.load(open('$d/meta.json'))['checks']))"); do
    out=$(./check $c --tier quick 2>&1); rc=$?
    nat=$(echo "$out" | grep -c "native failing input"); ref=$(echo "$out" | grep -c "verdict=refuted"); nfi=$(echo "$out" | grep -c "no-failing-input-found"); und=$(echo "$out" | grep -c "^UNDECIDED")
    echo "$id check=$c rc=$rc native=$nat refuted=$ref nofail=$nfi undecided=$und | $(echo "$out" | grep -m1 '^VIOLATION' | cut -c1-150)"
  done
  git -C /repo checkout -- .
done
