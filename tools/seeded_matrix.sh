#!/bin/bash
# tools/seeded_matrix.sh [-j lanes] [id ...] : run the checks named in each seeded/<id>/meta.json against that change.
# Each lane works in its own scratch worktree of /repo's HEAD under /tmp (removed afterwards): /repo itself is never touched,
# and evidence of these changed-tree runs goes to replays/ (VERIF_EVIDENCE_DIR), never to evidence/.
# One line per (change, check); feed the log to tools/gen_seeded_readme.py.  Runs from the directory it lives in (so it
# can be started with `vp run -- tools/seeded_matrix.sh` on a snapshot of the committed /verif).
DIR="$(cd "$(dirname "$0")/.." && pwd)"; cd "$DIR"
LANES=3
if [ "$1" = "-j" ]; then LANES=$2; shift 2; fi
ids="$@"; [ -z "$ids" ] && ids=$(ls seeded | grep -v README)
export VERIF_EVIDENCE_DIR="$DIR/replays/evidence-changed-tree"
HEAD=$(git -C /repo rev-parse HEAD)
lane() {
  n=$1; shift
  wt=/tmp/mx_$$_$n
  git -C /repo worktree add -q --detach $wt $HEAD || { echo "lane $n: worktree failed"; return; }
  for id in "$@"; do
    d=$DIR/seeded/$id
    [ -f $d/patch.diff ] || continue
    git -C $wt apply $d/patch.diff || { echo "$id apply-failed"; continue; }
    # OWN_ONLY=1: only the check of the change's own property (a quick regression pass over all changes)
    for c in $(python3 -c "import json,os;m=json.load(open('$d/meta.json'));print(m['property'] if os.environ.get('OWN_ONLY') else ' '.join(m['checks']))"); do
      out=$(VERIF_REPO=$wt ./check $c --tier quick 2>&1); rc=$?
      nat=$(echo "$out" | grep -c "native failing input"); ref=$(echo "$out" | grep -c "verdict=refuted"); nfi=$(echo "$out" | grep -c "no-failing-input-found"); und=$(echo "$out" | grep -c "^UNDECIDED")
      echo "$id check=$c rc=$rc native=$nat refuted=$ref nofail=$nfi undecided=$und | $(echo "$out" | grep -m1 '^VIOLATION' | cut -c1-150)"
    done
    git -C $wt checkout -q -- . ; git -C $wt clean -fdq
  done
  git -C /repo worktree remove --force $wt
}
i=0; declare -a buckets
for id in $ids; do buckets[$((i % LANES))]+="$id "; i=$((i+1)); done
for n in $(seq 0 $((LANES-1))); do lane $n ${buckets[$n]} & done
wait
git -C /repo worktree prune
