#!/bin/bash
export VERIF_EVIDENCE_DIR=${VERIF_EVIDENCE_DIR:-/verif/replays/evidence-changed-tree}
# tools/try_patch.sh <patch.diff> <prop> [<prop>...] : apply a seeded change to /repo, run the checks, undo it.
P="$1"; shift
cd /repo || exit 9
git diff --quiet || { echo "/repo is dirty"; exit 9; }
git apply "$P" || { echo "patch does not apply"; exit 9; }
trap 'git -C /repo checkout -- . ' EXIT
for prop in "$@"; do
  (cd /verif && ./check "$prop" --tier "${TIER:-quick}" 2>&1 | tail -${LINES_OUT:-8}; echo "rc[$prop]=${PIPESTATUS[0]}")
done
