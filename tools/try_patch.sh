#!/bin/bash
# tools/try_patch.sh <patch.diff> <prop> [<prop>...] : run checks against a changed copy of /repo's HEAD (a scratch worktree
# under /tmp, removed afterwards; /repo itself is not touched; evidence goes to replays/, not to evidence/).
DIR="$(cd "$(dirname "$0")/.." && pwd)"
P="$(realpath "$1")"; shift
wt=/tmp/tp_$$
git -C /repo worktree add -q --detach $wt HEAD || exit 9
trap 'git -C /repo worktree remove --force '$wt'; git -C /repo worktree prune' EXIT
git -C $wt apply "$P" || { echo "patch does not apply"; exit 9; }
export VERIF_EVIDENCE_DIR="$DIR/replays/evidence-changed-tree"
for prop in "$@"; do
  (cd "$DIR" && VERIF_REPO=$wt ./check "$prop" --tier "${TIER:-quick}" 2>&1 | tail -${LINES_OUT:-8}; echo "rc[$prop]=${PIPESTATUS[0]}")
done
