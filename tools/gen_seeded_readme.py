#!/usr/bin/env python3
"""seeded/README.md: which check catches which seeded change (from the matrix log of the last full run)."""
import json, os, re, sys
VERIF = os.path.dirname(os.path.dirname(os.path.abspath(__file__)))
logs = sys.argv[1:] or ["/root/seedwork/matrix.log"]
rows = {}
for log in logs:
    for l in open(log):
        m = re.match(r"(?:RUN )?(\S+) check=(\S+) rc=(\d) native=(\d+) refuted=(\d+) nofail=(\d+) undecided=(\d+)", l)
        if m:
            d = dict(check=m.group(2), rc=int(m.group(3)), native=int(m.group(4)), refuted=int(m.group(5)), nofail=int(m.group(6)), undecided=int(m.group(7)))
            rs = rows.setdefault(m.group(1), [])
            rs[:] = [r for r in rs if r["check"] != d["check"]] + [d]   # a later log line for the same (change, check) replaces the earlier one
out = ["# Seeded changes and the checks that catch them", "",
       "Each directory holds `patch.diff` (applies to /repo HEAD with `git -C /repo apply`), `demo.py` (exit 1 with the change, 0 without) and `meta.json`.",
       "The changes `C??_m1` .. `C??_m12` were written in eight rounds (two per property and round; gaps are changes that were not kept) by independent sub-agents that saw only the property text and, from round 2 on, the list of earlier changes to avoid; `R_<commit>` are the reverted `fix:` commits (the original defects). The table is assembled from the matrix runs named in DESIGN.md S.7: every (change, check) pair shows its latest run; the own-property column of all 235 changes was re-run last (run #12, /repo HEAD bd42946).",
       "Every change was verified in a scratch worktree: patch applies, the 120 existing tests pass, the demo fails with it and passes without it.", "",
       "Columns: *how* = `native` (the bounded battery replayed a failing input on the real code), `refuted` (an obligation got a counter-model), `undecided-proof` (the proof side ended UNDECIDED - spec drift or unsupported construct - and the battery decided).", "",
       "| change | property | what it changes | caught by (exit 1) | how |", "|---|---|---|---|---|"]
for sid in sorted(os.listdir(os.path.join(VERIF, "seeded"))):
    mp = os.path.join(VERIF, "seeded", sid, "meta.json")
    if not os.path.exists(mp):
        continue
    meta = json.load(open(mp))
    rs = rows.get(sid, [])
    caught = [r for r in rs if r["rc"] == 1]
    how = []
    for r in caught:
        h = []
        if r["native"]:
            h.append("native")
        if r["refuted"]:
            h.append("refuted")
        if r["undecided"] and not r["refuted"]:
            h.append("undecided-proof")
        how.append(f"{r['check']}: {'+'.join(h) or 'violation'}")
    missed = [r["check"] for r in rs if r["rc"] != 1]
    summ = (meta.get("summary") or "").replace("|", "/").replace("\n", " ")
    out.append(f"| {sid} | {meta['property']} | {summ[:150]}{'...' if len(summ) > 150 else ''} | {', '.join(r['check'] for r in caught) or '**none**'}{(' (not by ' + ','.join(missed) + ')') if missed and caught else ''} | {'; '.join(how)} |")
open(os.path.join(VERIF, "seeded", "README.md"), "w").write("\n".join(out) + "\n")
print(len(rows), "changes in the log")
